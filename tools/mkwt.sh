#!/bin/sh
# usage: mkwt.sh <dir>  -- scratch git worktree of /repo HEAD with the prebuilt extension modules copied in
set -e
d="$1"
git -C /repo worktree add -q --detach "$d" HEAD
for f in $(cd /repo && git ls-files -o -i --exclude-standard | grep -E '\.so$'); do
  mkdir -p "$d/$(dirname $f)"; cp "/repo/$f" "$d/$f"
done
# untracked runtime inputs some tests expect in cwd are not needed
echo "worktree ready: $d"
