#!/usr/bin/env python3
"""Validates MANIFEST.json and every evidence file against the schemas (run with python3-vt)."""
import json, glob, sys
import jsonschema
ok = True
m = json.load(open('/verif/MANIFEST.json'))
try:
    jsonschema.validate(m, json.load(open('/root/.vp/MANIFEST.schema.json')))
    print('MANIFEST ok: %d checks, %d n/a' % (len(m['checks']), len(m.get('not_applicable', []))))
except Exception as e:
    ok = False; print('MANIFEST INVALID', str(e)[:300])
es = json.load(open('/root/.vp/EVIDENCE.schema.json'))
for c in m['checks']:
    try:
        jsonschema.validate(json.load(open(c['evidence_file'])), es)
    except Exception as e:
        ok = False; print('EVIDENCE INVALID', c['property_id'], str(e)[:300])
ids = {json.loads(l)['id'] for l in open('/verif/properties.jsonl')}
have = {c['property_id'] for c in m['checks']} | {n['property_id'] for n in m.get('not_applicable', [])}
if ids != have:
    ok = False; print('property coverage mismatch', ids ^ have)
print('all valid' if ok else 'INVALID')
sys.exit(0 if ok else 1)
