#!/bin/sh
# usage: check_seeds.sh  -- re-runs every check against every kept seeded change (scratch copies under /tmp, removed afterwards), 8 seeds at a time
# prints one line per seed; exit 1 if a seed is not caught by the check of the property it breaks
cd /verif || exit 2
tmp=$(mktemp -d)
ls -d seeded/*/ | xargs -P 8 -I{} sh -c 'id=$(basename {}); /verif/tools/try_seed.sh $id /verif/{} > '"$tmp"'/$id.out 2>&1'
fail=0
for d in seeded/*/; do
  id=$(basename "$d")
  prop=$(python3 -c "import json;print(json.load(open('$d/meta.json'))['breaks_property'])")
  fired=$(sed -n 's/.*check \(C[0-9]*\) -> exit 1.*/\1/p' "$tmp/$id.out" | sort -u | tr '\n' ' ')
  case " $fired" in
    *" $prop "*) echo "$id: property $prop caught (checks firing: $fired)";;
    *) echo "$id: property $prop NOT caught by its own check (firing: $fired)"; fail=1;;
  esac
done
rm -rf "$tmp"
exit $fail
