#!/bin/sh
# usage: check_seeds.sh  -- re-runs every check against every kept seeded change (scratch copies under ${TMPDIR:-/tmp}, removed afterwards)
# prints one line per seed: caught-by list vs meta.json; exit 1 if a seed that was caught is now missed
cd /verif || exit 2
fail=0
for d in seeded/*/; do
  id=$(basename "$d")
  prop=$(python3 -c "import json;print(json.load(open('$d/meta.json'))['breaks_property'])")
  out=$(tools/try_seed.sh "$id" "/verif/$d" 2>&1)
  fired=$(echo "$out" | sed -n 's/.*check \(C[0-9]*\) -> exit 1.*/\1/p' | sort -u | tr '\n' ' ')
  case " $fired" in
    *" $prop "*) echo "$id: property $prop caught (checks firing: $fired)";;
    *) echo "$id: property $prop NOT caught by its own check (firing: $fired)"; fail=1;;
  esac
done
exit $fail
