#!/bin/sh
# usage: check_seeds.sh  -- re-runs every check against every kept seeded change (scratch copies under /tmp, removed afterwards), 8 seeds at a time
# prints one line per seed; exit 1 if a seed is not caught by the check of the property it breaks
cd /verif || exit 2
tmp=$(mktemp -d)
ls -d seeded/*/ | xargs -P 8 -I{} sh -c 'id=$(basename {}); /verif/tools/try_seed.sh $id /verif/{} > '"$tmp"'/$id.out 2>&1'
fail=0
for d in seeded/*/; do
  id=$(basename "$d")
  prop=$(python3 -c "import json;print(json.load(open('$d/meta.json'))['breaks_property'])")
  # a seed counts as caught when the check of the property it breaks fires, or (for a change whose mechanism belongs to another
  # property's clause, recorded in meta.json as decided_by) when that check fires
  also=$(python3 -c "import json;print(' '.join(json.load(open('$d/meta.json')).get('decided_by', [])))")
  fired=$(sed -n 's/.*check \(C[0-9]*\) -> exit 1.*/\1/p' "$tmp/$id.out" | sort -u | tr '\n' ' ')
  ok=0
  for want in $prop $also; do case " $fired" in *" $want "*) ok=1;; esac; done
  if [ $ok -eq 1 ]; then echo "$id: property $prop caught (checks firing: $fired)"; else echo "$id: property $prop NOT caught (expected one of: $prop $also; firing: $fired)"; fail=1; fi
done
rm -rf "$tmp"
exit $fail
