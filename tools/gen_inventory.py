#!/usr/bin/env python3
"""gen_inventory.py -- writes sa/inventory.json: per module of /repo/wntr the function qualnames and module/class-level names that exist
in the analysed tree today.  sa/normalize.py treats every same-module helper / constant that is NOT listed as transparent (inlined /
substituted), so that 'extract helper' and 'name a constant' refactorings do not change what the rules see.  Re-run after a /repo commit
that adds a helper the rules should anchor on (otherwise the helper is simply inlined)."""
import ast, json, os, sys
sys.path.insert(0, os.path.join(os.path.dirname(os.path.abspath(__file__)), ".."))
from sa.normalize import module_inventory
root = os.environ.get("VERIF_REPO", "/repo")
out = {}
for dp, dn, fn in os.walk(os.path.join(root, "wntr")):
    dn[:] = sorted(d for d in dn if d not in ("tests", "__pycache__") and not d.startswith("."))
    for f in sorted(fn):
        if f.endswith(".py"):
            p = os.path.join(dp, f)
            rel = os.path.relpath(p, root)
            try:
                t = ast.parse(open(p, encoding="utf-8", errors="replace").read())
            except SyntaxError:
                continue
            out[rel] = module_inventory(t)
json.dump(out, open(os.path.join(os.path.dirname(os.path.abspath(__file__)), "..", "sa", "inventory.json"), "w"), indent=0, sort_keys=True)
print("modules:", len(out), "functions:", sum(len(v["funcs"]) for v in out.values()))
