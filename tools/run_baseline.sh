#!/bin/sh
# usage: run_baseline.sh <worktree-dir> <out-prefix>   -- runs the pinned suite in a scratch worktree of /repo HEAD and compares with BASELINE.json
d="$1"; out="$2"
/verif/tools/mkwt.sh "$d" >/dev/null || exit 2
cd "$d" && /venv/bin/python -m pytest -ra -q -p no:cacheprovider --timeout=900 --continue-on-collection-errors --junitxml="$out.xml" > "$out.log" 2>&1
python3 - "$out.xml" <<'PY' > "$out.summary"
import sys, json, xml.etree.ElementTree as ET
base=json.load(open('/root/.vp/BASELINE.json'))
stable=set(base['stable_pass'])
t=ET.parse(sys.argv[1]).getroot()
res={}
for tc in t.iter('testcase'):
    name="%s::%s"%(tc.get('classname'),tc.get('name'))
    bad=any(c.tag in('failure','error') for c in tc)
    skipped=any(c.tag=='skipped' for c in tc)
    res[name]='fail' if bad else ('skip' if skipped else 'pass')
missing=[s for s in stable if res.get(s)!='pass']
print("stable tests passing: %d / %d"%(len(stable)-len(missing), len(stable)))
for m in missing: print("NOT PASSING:", m, res.get(m))
PY
cat "$out.summary"
git -C /repo worktree remove --force "$d"
