#!/bin/sh
# usage: process_seeds.sh <seed-id>...   -- for each /tmp/out_<id>: static checks against the patched copy (try_seed.sh) and independent confirmation
# (confirm_seed.sh: demo on clean tree, demo on patched tree, full pinned suite on the patched tree); results in /tmp/scratch/{try,confirm}_<id>.txt
mkdir -p /tmp/scratch
for id in "$@"; do echo $id; done | xargs -P 6 -I{} sh -c '/verif/tools/try_seed.sh {} /tmp/out_{} > /tmp/scratch/try_{}.txt 2>&1; /verif/tools/confirm_seed.sh {} /tmp/out_{} > /dev/null 2>&1'
for id in "$@"; do
  echo "== $id: $(grep -c "exit 1" /tmp/scratch/try_$id.txt) firing check(s): $(sed -n 's/.*check \(C[0-9]*\) -> exit \([0-9]\).*/\1(\2)/p' /tmp/scratch/try_$id.txt | tr '\n' ' ')"
  grep -E "^exit=|stable tests|NOT PASSING|DOES NOT APPLY" /tmp/scratch/confirm_$id.txt | tr '\n' ' '; echo
done
