#!/bin/sh
# usage: rules_on_patch.sh <dir-with-patch.diff> <check>...   -- the distinct rule ids each given check reports on a scratch copy of /repo/wntr with the patch
src="$1"; shift
d=$(mktemp -d /tmp/rulechk_XXXXXX)
rsync -a --exclude '__pycache__' --exclude '*.so' --exclude 'tests' /repo/wntr "$d/"
( cd "$d" && patch -p1 -s --fuzz=3 < "$src/patch.diff" ) || { echo "PATCH FAILED"; rm -rf "$d"; exit 3; }
for c in "$@"; do
  out=$(cd /verif && VERIF_REPO="$d" VERIF_NO_EVIDENCE=1 ./check $c quick 2>&1); rc=$?
  echo "$c exit=$rc: $(echo "$out" | sed -n 's/^  rule=\(R-[A-Za-z0-9-]*\).*/\1/p' | sort | uniq -c | tr '\n' ' ') $(echo "$out" | grep -c '^ANALYSIS-ERROR') analysis error(s)"
done
rm -rf "$d"
