#!/usr/bin/env python3
"""Regenerates /verif/MANIFEST.json from the table below (kept in one place so it stays valid)."""
import json
import os

VERIF = os.path.dirname(os.path.dirname(os.path.abspath(__file__)))

# pid -> (technique, level text, level_note, design_ref)
CLAIMED = {
    "C01": ("formula extraction of the mass-balance builders and of the result bookkeeping into linear forms (sympy), adjacency-filter extraction, "
            "sign-convention product, call-site argument dataflow for the demand clock, must-pass-through on run_sim's CFG",
            "Decides that the equations handed to the solver and the bookkeeping that reports their solution encode conservation with one consistent "
            "sign, adjacency and clock convention for every junction/tank/reservoir and every link set: balance rows, INLET/OUTLET filters, "
            "tank/reservoir demand recomputation, leak demand, DD/PDD demand copy, Demands/TimeSeries/Pattern.at formulas, sim_time+pattern_start and "
            "demand multiplier at every call site in wntr.sim, parameter refresh before each solve; that the element loops of the balance builders "
            "carry no partially assigned local from one node to the next.",
            "Does not decide that reported numbers satisfy the balance within tolerance (needs the solver; evaluator fidelity is C15). Pattern "
            "interpolation branch is not compared. Trusts sympy normal forms, sa/symx.py, sa/cfg.py.", "DESIGN.md §4 C01"),
    "C02": ("formula extraction: abstract interpretation of each constraint/parameter builder (AST -> sympy terms, all status/isinstance paths "
            "enumerated, no solver) compared as closed formulas with the documented laws; finite truth tables / region evaluation of status "
            "properties and check-valve / pump conditions by partial evaluation",
            "Decides that the equations registered for every link type and status are the documented head-flow relations (closed => q = 0, "
            "orientation, H-W + minor loss odd and increasing, breakpoint C0/C1 agreement of smoothing polynomials with constants.py, pump and "
            "valve laws, coefficient formulas and their update triggers), that effective status is the documented function of user/internal "
            "status and that check valves close on any reverse flow beyond tolerance. The internal status conditions decide on the state at the time of evaluation (differential, interpreted, 15 classes x 10 state changes); 3-point pump curves reproduce their points. The element loops of the head-loss and link-parameter builders carry no partially assigned local from one link to the next.",
            "Does not decide that the reported solution satisfies the equations (needs the Newton solver and the compiled evaluator, see C15/C16), "
            "the curve_fit quality of >=3-point pump curves, the monotonicity of the head-pump smoothing cubic (checked at run time by WNTR) or "
            "the complete PRV/PSV status automaton. Trusts sympy normal forms and sa/symx.py. ", "DESIGN.md §4 C02"),
    "C03": ("table extraction from BinFile.read (result table -> conversion parameter, first argument, data column; masked link-type slices), "
            "conversion classes computed from C17's reference factors, abstract execution of the masked status assignments over all eight codes, "
            "argument agreement of the write / open / read calls in EpanetSimulator.run_sim",
            "NARROW CLAIM. Decides only the clause of C03 that is visible in the code's shape and necessary for it: the exchange path with EPANET is "
            "unit-system independent and dimensionally right -- every result table read from EPANET's binary file is converted with the conversion "
            "class of its physical dimension using the unit system recorded in that same file, link-status codes map to closed/open/active as "
            "documented, and EpanetSimulator reads the results of exactly the INP it wrote in the configured units. One behavioural clause on the WNTR side, "
            "bounded to a fixture model: the status change WNTRSimulator attaches to a rule's setting / speed action acts on the branch (THEN / ELSE) that carries "
            "the action, as EPANET does (interpreted construction of the simulator's controls).",
            "Does NOT decide that the two hydraulic engines agree numerically, control timing against EPANET's own timeline, nor the INP reader versus "
            "the toolkit: those are run-time facts outside static reach. The writer's field conversions are decided under C12, the constants under C17.",
            "DESIGN.md §4 C03"),
    "C04": ("finite region evaluation (partial evaluation of the conditions' evaluate methods over representative orderings of previous/current time "
            "vs threshold, per relation and repeat mode) against the instant/interval semantics; sort-site table; abstract first iteration of the "
            "rule clock; CFG dominance for rule-clock increments; classification tables",
            "Decides the truth tables (incl. partial-step values) of sim-time and clock-time conditions for at/after/before/>=/<= once and "
            "repeating, the priority ordering of all six control lists (highest priority writes last; stable time ordering of pre-solve controls), "
            "that each rule evaluation advances the rule clock once at rule_iter*rule_timestep, the pre/post-solve/rule classification, the "
            "partial-step bookkeeping and the reader's construction of TIME / CLOCKTIME controls.",
            "Region evaluation uses representative points of each ordering region (threshold 2:00, two days, period 10 h); EPANET's own timeline "
            "and the interplay with tank controls are not decided. One known finding: rules are evaluated at t = 0 before the first solve.", "DESIGN.md §4 C04"),
    "C05": ("path rules (must-pass / must-not-reach) on run_sim's CFG for the post-solve re-solve loop; partial evaluation of ControlAction.__init__ "
            "into an attribute map; extraction of comparison tables and reader keyword maps",
            "Decides that no step is saved, stored as accepted or advanced while a post-solve control still changed something, that the re-solve "
            "path updates the model, resets the reference point and increments the bounded trial counter, that control actions land on the "
            "run-time field the status function reads and are reported under the public name, and that ABOVE/BELOW/relations mean what they say. "
            "Additionally, bounded to one fixture model: the companion status control the simulator adds for every valve-setting / pump-speed action "
            "has the condition object, class, priority and control type of its original; every control of the model and every internal control is filed under "
            "the managers (pre-solve / post-solve / rules / feasibility) its type names and all their actions are observed by the change tracker (interpreted).",
            "Does not decide the invariant over actual trajectories nor equal-priority conflicts; effective status is C02's table; partial steps "
            "for tank-level thresholds are C06's rule R-C06-4.", "DESIGN.md §4 C05"),
    "C06": ("formula extraction of the Euler step of update_tank_heads (sympy, with interp as an uninterpreted function) and of get_volume / "
            "level; CFG path rules for the previous-value bookkeeping; case-table extraction of _get_all_tank_controls by abstract interpretation "
            "over link kind / orientation / limit",
            "Decides that the integration step is last accepted head + demand*dt/area (or the volume-curve equivalent measured from the last "
            "accepted level), applied once per step from the last accepted state, and that for every kind of adjacent link exactly the right "
            "closing / re-opening controls exist with the right head thresholds, priorities and solve phases.",
            "Does not decide the ~2 s overshoot bound nor that limits hold on every trajectory.", "DESIGN.md §4 C06"),
    "C07": ("formula extraction of the five-branch PDD constraint, of cubic_spline and of the spline-data builder into sympy terms; symbolic "
            "identities (interpolation conditions) and breakpoint agreement as formulas in the exponent; override-rule path tables",
            "Decides that the registered pressure-demand function is the documented one, C0/C1-continuous across all four breakpoints for ANY "
            "exponent (spline identities + data = neighbours' value/derivative), with per-junction Pmin/Pnom/exponent overrides applied "
            "consistently in the constraint and in the parameter builders and re-computed on change; that the element loops of these builders carry no "
            "partially assigned local from one junction to the next (each junction's curve is built from its own data).",
            "Does not decide the solver's result on the curve nor the monotonicity of the smoothing cubics between their end data. Trusts sympy.",
            "DESIGN.md §4 C07"),
    "C08": ("formula extraction of the three-branch leak constraint and its spline data; index-domain table (which element kinds each model "
            "dictionary is built for vs. which each builder subscripts); construction facts of add_leak's controls; inverse-pair (effect set) "
            "comparison of add_leak / remove_leak",
            "Decides that the registered leak law is Cd*A*sqrt(2*9.81*p) above the 0.1 mm band, s*p below zero pressure, smoothly joined; that "
            "the row exists only while leak_status is set; that no builder looks a tank up in a junction-only dictionary; that the start/end "
            "controls are non-repeating pre-solve sim-time controls toggling the run-time switch; that remove_leak clears everything; that the "
            "element loops of the leak builders carry no partially assigned local from one node to the next.",
            "Leak term in the balance rows and tank demand is decided under C01. Timing itself is C04's mechanism. Not decided: solution values.",
            "DESIGN.md §4 C08"),
    "C09": ("encoding tables extracted from the AST (status -> graph entry, both directions, parallel-link recomputation, source set), CFG "
            "must-pass-through for graph refresh / search / solve order, C++ shape facts read by a tokenizer and argument-order agreement with the "
            "Python caller, flag life-cycle ordering, path-sensitive last-store table of store_results_in_network (may-semantics for compound "
            "guards), sibling comparison of all constraint builders",
            "Decides that the connectivity graph marks a link connected iff its effective status is not Closed (parallel links: any), that tanks and "
            "reservoirs are the sources, that the graph is refreshed before every search and the search precedes every solve, that flags are cleared, "
            "set for exactly the unreached junctions and their links and mirrored into the model rows in both directions of change, and that an "
            "isolated junction / link reports zeros on every path while a connected one reports solved values.",
            "Does not decide correctness of the C++ reachability search on all graphs (shape facts only) nor solver behaviour on the remaining "
            "network.", "DESIGN.md §4 C09"),
    "C10": ("state inventory: loop-carried attributes of WNTRSimulator (assigned, item-assigned through aliases, or mutated by state-changing calls "
            "inside run_sim's loop and the methods it calls) joined with the definitions reaching the loop on a continued run and classified as "
            "model-derived vs constant; class-table scan for pickling hooks; guard analysis of prologue stores; CFG dominance for the exit / advance order",
            "Decides the necessary structural clause: every piece of simulator state carried from one iteration to the next is re-derived from "
            "the model when a new simulator continues a paused run (rule clock, isolated sets, internal graph, control managers, change tracker), "
            "model-side run-time state lives in plain picklable attributes and is overwritten before the loop only on a first step, first_step is "
            "sim_time == 0, and the loop leaves only after the time advance back to the hydraulic grid. Nothing but a control's type decides whether a new simulator registers it.",
            "Does not decide numerical equality of concatenated results. 'Reads the model' is a syntactic criterion (mentions self._wn); that the "
            "derivation is the right one was confirmed by experiment for the two repaired defects only. ", "DESIGN.md §4 C10"),
    "C11": ("effect analysis: transitive attribute-write sets of both simulators over a name-and-receiver based call graph (sa/effects.py), compared "
            "with definition / run-time field sets derived from the class table to_dict walks; setattr targets resolved through "
            "ControlAction.__init__'s attribute map over every attribute string passed in the package; reset-coverage table comparison",
            "Decides that no code reachable from WNTRSimulator or EpanetSimulator (incl. the INP writer and the binary reader) stores into a "
            "definition field of any element, pattern, curve, source, option, control, condition or action; that the only option store made "
            "around an internal simulation (skeletonize) is restored; and that every run-time field a run writes on an element kind is "
            "re-initialised by reset_initial_values with the construction-time value, controls included (recursively through And/Or). The INP writer reads no run-time state.",
            "Does not decide bit-for-bit reproducibility. Call resolution is by naming convention (unresolved calls are counted, bound 12 %); "
            "constructors of new objects are not followed as mutations; property getters are assumed pure. One known finding: a pump-speed "
            "control (attribute base_speed) writes the definition property. ", "DESIGN.md §4 C11"),
    "C12": ("sibling cross-check of InpFile._write_X / _read_X: unit-conversion sites followed by abstract interpretation into file columns / "
            "keywords / discriminators and joined; conversion classes from C17's partial evaluator; ordering and discriminator-column rules; "
            "six-way map comparison for rule clauses",
            "Decides that writer and reader agree, section by section and column by column, on which unit class a field carries (inverse "
            "conversions with equal flags), selected by which discriminator read from which column, that option-dependent lines follow the "
            "option, that rules and simple controls convert thresholds/settings with one attribute->unit map on both sides, that 2.0-format "
            "files omit only the 2.2 options, and that the time-string helpers are inverse. Additionally, bounded to one rich fixture model: the write -> read -> write -> read round trip in all ten flow-unit systems and both INP versions preserves elements, patterns, used curves, sources, options, controls and rules to file precision (interpreted by the in-house interpreter).",
            "Does not decide text formatting precision, idempotence of a second cycle, write guards relying on EPANET defaults, nor models the "
            "API can build that INP cannot express. [REPORT]/[BACKDROP]/[LABELS] are outside the statement. The fixture round trip decides its clause on the two fixture models only (half of the combinations re-use one InpFile object for all writes and reads); that per-file state of a reader object is reset before a second read is decided structurally (R-C12-18).", "DESIGN.md §4 C12"),
    "C13": ("serializer/deserializer agreement over tables extracted from the AST: keys the generic to_dict can emit are derived from the class "
            "table (properties, setters, exclusion lists, API writers of backing fields) and joined with the keys each from_dict branch reads and "
            "the attribute each lands in (through add_* signatures and registry assignments); tuple-only setter tests vs conversions; control "
            "text token layouts (format strings vs token indices); enum __str__ images vs accepted strings; options constructor keywords",
            "Decides that every API-settable key to_dict emits for junctions, tanks, reservoirs, pipes, pumps, valves, patterns, curves, sources "
            "and demand entries is read back by from_dict into the attribute of the same name, that JSON lists are converted where a setter "
            "insists on tuples, that leak-action lines of every leak-capable node kind are read as node actions, that control text is re-read "
            "in SI, that each options class accepts exactly its own keys, and that enum-valued keys are emitted as strings their consumer accepts. Additionally, bounded to one rich fixture model built through the public API: to_dict -> JSON -> from_dict -> to_dict gives equal dictionaries section by section and appending equals creating (interpreted by the in-house interpreter).",
            "Does not decide value equality of arbitrary models. Eight known findings: simple controls are re-read through EPANET's [CONTROLS] "
            "grammar, which drops the relation / attribute tokens (>=, <=, =, <>, HEAD, FLOW, SETTING...). Rule conditions outside EPANET's rule "
            "grammar are not analysed. The fixture round trip decides its clause on that model only.", "DESIGN.md §4 C13"),
    "C14": ("registry-invariant analysis over the AST: add_usage/remove_usage pairing tables, typed-subset add/discard set comparison, "
            "statement-order (must-precede) rules in __delitem__, view-accessor resolution",
            "Decides, for every mutating registry operation, that it preserves the invariant 'all views agree' (usage pairing per registry and tag, "
            "typed subsets, refusal before mutation, one store per view); histories are covered by induction over single operations. Refusals are atomic (duplicate names, missing end nodes, elements a control requires, same-value re-assignment), decided on interpreted histories on the repository's own registries.",
            "Trusts CPython's ast and the extractor's resolution of self.<registry> receivers; does not execute edit histories; "
            "dynamic attribute access other than the __subsets/getattr idiom is not resolved. The histories are a finite family; that longer histories compose is not decided.", "DESIGN.md §4 C14"),
    "C15": ("cross-checking sibling implementations: Python opcode enum vs C++ const table, per-opcode agreement of the C++ stack-machine branch "
            "(arity, pop order, result) with get_rpn's emission order (abstract interpretation over leaf/non-leaf cases) and the Python operation; "
            "sympy differentiation of each operator's operation vs its diff_down rule; map-ownership and increment/record/decrement pairing rules",
            "Decides that the Python front end and the C++ evaluator agree on opcodes, operand order and semantics for all 18 operators, that every "
            "reverse-mode derivative rule is der * d(op)/d(operand), that reflected operators keep operand order, that leaf reference counting is "
            "paired and uses the right map, and that attribute deletion un-registers what attribute assignment registered. Additionally, bounded to fixtures: expressions with shared sub-expressions built and differentiated by the repository's own code agree with sympy, and an aml.Model edited through an add / remove / value-change history hands a Python model of the compiled evaluator programs whose residuals and Jacobian entries are the true ones at the reported indices, with consistent reference counts.",
            "Does not decide floating-point behaviour, the SWIG wrapper, memory safety, or the CSR index arithmetic of set_structure / "
            "evaluate_csr_jacobian (shape not robustly extractable: dropped rule R-C15-6). C++ is read by a small tokenizer (sa/cxx.py). The histories are decided on the fixtures only; sa/mockeval.py models the evaluator protocol and is part of the trusted base.", "DESIGN.md §4 C15"),
    "C16": ("path rules (must-pass-through, must-not-reach, dominance) on a hand-built statement CFG of run_sim, NewtonSolver.solve and "
            "_solver_helper; per-path append counting in save_results by abstract interpretation; family/key table comparison",
            "Decides that no path stores/saves/appends a step whose last solve failed, that every failure exit raises (iff convergence_error) or "
            "warns + sets error_code + leaves the loop, that solve returns a status triple on every exit and `converged` only under the tolerance "
            "test, that each saved row gets exactly one time stamp, that all result families/keys are appended once per element per save and "
            "labelled from the same name list, and that time or the bounded trial counter strictly advances on every way round the loop. Failure signals of the external numerical routines called in the solve path are covered by the handlers that report SolverStatus.error (table of library contracts); the result tables hold, per saved step, what the elements had (one mock model). The report step the simulator settles on is a positive multiple of the hydraulic step it settles on for every one of 108 (hydraulic, pattern, report) option triples (interpreted), so that a row exists at every report instant.",
            "Does not decide finiteness of the numbers nor termination when back-tracking keeps inserting partial steps. Implicit exceptions "
            "(other than explicit raise / try-except edges) are not modelled. The table of library contracts is part of the trusted base.", "DESIGN.md §4 C16"),
    "C17": ("partial evaluation (constant folding with the value as a linear form k*x+c) of the conversion branch tree for every "
            "(parameter, flow unit, darcy_weisbach, mass unit, reaction order) configuration; table comparison with physical definitions",
            "Exhaustive over the finite configuration space: every configuration is linear, k_to*k_from = 1, and k_to equals the reference "
            "constant; FlowUnits/MassUnits tables, traditional/metric membership, container branches of the four sibling methods and the "
            "flag forwarding of to_si/from_si are compared structurally.",
            "Trusts the partial evaluator (sa/peval.py) and the reference constants in sa/props/c17.py (taken from the property statement and "
            "EPANET's unit definitions); last-ulp rounding and numpy broadcasting semantics are not decided.", "DESIGN.md §4 C17"),
    "C18": ("finite evaluation of valve_segments and valve_segment_attributes by the in-house interpreter on 39 fixture multigraphs (real networkx graphs, pandas replaced "
            "by stand-ins) against a union-find reference partition; CFG dominance (label stores vs counter increments), def-use slice of the returned size table, "
            "classification of DataFrame row accessors by the source of their index variable, symbolic path enumeration of the three criticality helpers, argument binding "
            "of the helper calls",
            "Decides (a) ON A FIXTURE FAMILY of 15 hand-made and 24 pseudo-random multigraphs of 3..7 nodes (parallel / anti-parallel links, loops, several components, "
            "empty layer, duplicated rows, links valved at both ends, nodes valved on every link) that valve_segments returns positive labels whose blocks are exactly the "
            "partition induced by the valve layer, with a size table counting them, and that valve_segment_attributes reports per valve number (index with gaps) the other "
            "non-bypassed valves bounding the two segments and the demand / length gains, zeros for a bypassed valve; (b) for every input, four structural clauses: fresh "
            "labels are the counter after an increment; the size table is the value counts of the two returned series; rows of the valve layer are addressed by valve "
            "number; each criticality value is 0 where both sides are one segment and the helpers receive their arguments in their own parameter order.",
            "The partition and the attribute values are decided on the fixtures only (bounded); sa/minipandas.py models the pandas operations used and is part of the "
            "trusted base, networkx is the real library. Graph reachability on every multigraph is not decided.", "DESIGN.md §4 C18, §9.9b, §9.11"),
    "C19": ("formula extraction (AST -> sympy) of the length / elevation / coordinate expressions of _split_or_break_pipe compared as identities in "
            "the split fraction; argument binding through add_pipe's signature; must-precede ordering of refusals vs mutations; use-analysis of "
            "the caller's model parameter (copy isolation); guard-conjunct extraction for every remove_link / remove_node of _Skeletonize; "
            "small dataflow for the exclusion lists; ordering of demand / map hand-over vs removal",
            "Decides that split and break keep the total length, place the junction at the requested fraction of length, elevation and "
            "coordinates (with and without vertices), copy diameter / roughness / minor loss into the right parameters, give the new pipe no "
            "check valve, refuse bad input before mutating, never touch the caller's model when return_copy is true, and that skeletonize removes "
            "only small unexcluded pipes and unexcluded junctions, excludes everything a control requires, hands demands and map entries of a "
            "removed junction to one retained Junction before removing it, and restores the duration it changes. The constructor of the skeletonizer (exclusion lists, initial map, head losses, duration restored) is decided by an interpreted run on one mock model.",
            "Does not decide hydraulic equivalence after a split, the merge formulas for roughness / diameter, nor pattern-usage bookkeeping of "
            "moved demand entries. ", "DESIGN.md §4 C19"),
    "C20": ("formula extraction of the metric functions into sympy terms (pandas selections as uninterpreted leaves; references evaluated through the "
            "same extractor); CFG rule for loops that never iterate; call-site argument dataflow for the demand clock; AST rule for the "
            "percentage convention; docstring-table vs default-table comparison",
            "Decides the scalar formulas of expected demand (clock, multiplier, category), its one-period average, WSA, Todini, MRI (both "
            "modes), tank capacity, population, pump power/energy/cost and maximum pump power, that Euclid's gcd iterates, that the efficiency "
            "percentage is divided by 100 wherever used, and that default lookup tables equal the documented ones with nearest-entry selection.",
            "Does not decide values on actual result tables nor pandas alignment; entropy is outside the statement. One known finding "
            "(annual_network_cost uses the efficiency in percent).", "DESIGN.md §4 C20"),
}

NOT_APPLICABLE = {
}

PENDING_REASON = "static check for this property is specified in DESIGN.md §4 but not yet armed in this commit; not claimed until its rule module exists"

ALL = ["C%02d" % i for i in range(1, 21)]


def technique_text(pid, fallback):
    """the technique sentence written from the code by the documentation pass (TECHNIQUES.json, see RULES.md), with the rule counts per kind of
    deciding step (DESIGN.md 2b): T1 structural, T2 formula extraction, T3 finite evaluation of the parsed source on mock inputs (bounded)."""
    try:
        t = json.load(open(os.path.join(VERIF, "TECHNIQUES.json")))[pid]
    except (OSError, KeyError, ValueError):
        return "static analysis: " + fallback
    return ("static analysis: %s [rule ids per kind of deciding step: T1 structural %d, T2 symbolic formula extraction %d, T3 finite evaluation of the "
            "parsed source by an in-house interpreter on mock inputs %d (T3 decides its clause on the fixtures only; RULES.md lists every rule)]"
            % (t["technique"].rstrip("."), t["T1"], t["T2"], t["T3"]))


def main():
    checks = []
    for pid in ALL:
        if pid not in CLAIMED:
            continue
        tech, text, note, ref = CLAIMED[pid]
        checks.append({
            "property_id": pid,
            "quick_cmd": "./check %s quick" % pid,
            "thorough_cmd": "./check %s thorough" % pid,
            "evidence_file": "/verif/evidence/%s.json" % pid,
            "replay_cmd_template": "./check %s --replay {path}" % pid,
            "engine": "sa",
            "level_claimed": {"category": "other", "text": "repository-specific static analysis. " + text, "design_ref": ref},
            "level_note": note,
            "technique": technique_text(pid, tech),
        })
    na = []
    for pid in ALL:
        if pid in CLAIMED:
            continue
        na.append({"property_id": pid, "reason": NOT_APPLICABLE.get(pid, PENDING_REASON)})
    m = {
        "version": 1,
        "setup_cmd": "./setup.sh",
        "hooks": {
            "guard": "USEPA_WNTR_VERIF",
            "enable": "none needed: the checks parse /repo's working tree and never import or run it; no hook commit exists",
            "baseline_off_cmd": "cd /repo && /venv/bin/python -m pytest -ra -q -p no:cacheprovider --timeout=900 --continue-on-collection-errors",
            "source_commits": [],
            "add_only": True,
        },
        "engines": [{
            "name": "sa",
            "path": "/verif/sa",
            "serves_properties": sorted(CLAIMED),
            "kind_free_text": "custom static analyser for USEPA/WNTR. Never imports, compiles or executes repository code under CPython. Three kinds of "
                              "deciding step (DESIGN.md 2b, per rule in RULES.md): T1 structural facts (hand-built CFG: dominance, must-pass, reachability; "
                              "def-use; call graph with write sets; table agreement); T2 path-enumerating symbolic execution of small functions to sympy "
                              "normal forms compared with the documented law (no solver); T3 interpretation of the parsed source by an in-house tree-walking "
                              "interpreter (sa/concrete.py, sa/cint.py for one C++ file, evaluators local to rule modules) on finite mock inputs - bounded to "
                              "those fixtures, used for finite tables and for shape-independent recognition. A shape normaliser (sa/normalize.py) inlines "
                              "helpers and constants that are not anchorable names before any rule sees a module.",
        }],
        "checks": checks,
        "not_applicable": na,
        "notes": "All checks analyse the source only (family: static analysis; the T3 rules interpret the parsed source on mock inputs with an in-house "
                 "interpreter and are bounded to their fixtures - see DESIGN.md 2b). exit 0 held / 1 VIOLATION / 2 ANALYSIS-ERROR. "
                 "Known findings: /verif/known_findings.json. Root of the analysed tree can be overridden with VERIF_REPO (self-test only).",
    }
    with open(os.path.join(VERIF, "MANIFEST.json"), "w") as f:
        json.dump(m, f, indent=1)
    print("MANIFEST.json: %d checks, %d not_applicable" % (len(checks), len(na)))


if __name__ == "__main__":
    main()
