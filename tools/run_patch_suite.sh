#!/bin/sh
# usage: run_patch_suite.sh <patch> <name>  -- full suite in a scratch worktree of /repo HEAD + patch; summary in /tmp/scratch/suite_<name>.summary
patch="$1"; name="$2"; d="/tmp/wts_$name"; out="/tmp/scratch/suite_$name"
/verif/tools/mkwt.sh "$d" >/dev/null 2>&1 || exit 2
cd "$d" && { [ -z "$patch" ] || [ "$patch" = "-" ] || git apply "$patch" || { echo "patch failed" > "$out.summary"; exit 3; }; }
/venv/bin/python -m pytest -ra -q -p no:cacheprovider --timeout=900 --continue-on-collection-errors --junitxml="$out.xml" > "$out.log" 2>&1
python3 - "$out.xml" > "$out.summary" <<'PY'
import sys, json, xml.etree.ElementTree as ET
base=json.load(open('/root/.vp/BASELINE.json'))
stable=set(base['stable_pass'])
t=ET.parse(sys.argv[1]).getroot()
res={}
for tc in t.iter('testcase'):
    name="%s::%s"%(tc.get('classname'),tc.get('name'))
    bad=any(c.tag in('failure','error') for c in tc)
    skipped=any(c.tag=='skipped' for c in tc)
    res[name]='fail' if bad else ('skip' if skipped else 'pass')
missing=[s for s in stable if res.get(s)!='pass']
print("stable tests passing: %d / %d"%(len(stable)-len(missing), len(stable)))
for m in missing: print("NOT PASSING:", m, res.get(m))
PY
cd /; git -C /repo worktree remove --force "$d"
