#!/bin/sh
# usage: selftest.sh  -- self-tests of the machinery itself (not property checks): the interpreter against CPython on the probe modules, the normaliser's
# passes as behaviour-preserving rewrites.  The mutation witnesses of each property run inside `./check <Cxx> thorough`.
cd /verif || exit 2
rc=0
python3-vt -m sa.selftest.run_probes 2>/dev/null || rc=1
python3-vt -m sa.selftest.normalize_cases || rc=1
exit $rc
