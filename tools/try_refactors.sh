#!/bin/sh
# usage: try_refactors.sh <dir-with-<prop>/r<n>/patch.diff> -- run every check against every behaviour-preserving patch (scratch copies under /tmp);
# any non-zero exit of a check is a false alarm (exit 1) or a failure to decide (exit 2) of the machinery
root="${1:-/tmp/refout}"
tmp=$(mktemp -d)
for d in "$root"/*/r*/; do
  [ -f "$d/patch.diff" ] || continue
  id="ref_$(basename $(dirname $d))_$(basename $d)"
  echo "$id $d"
done > "$tmp/list"
cat "$tmp/list" | xargs -P 6 -L 1 sh -c '/verif/tools/try_seed.sh $0 $1 > '"$tmp"'/$0.out 2>&1'
for f in "$tmp"/ref_*.out; do
  id=$(basename "$f" .out)
  if grep -q "exit\|PATCH FAILED" "$f"; then echo "== $id"; grep -E "exit|PATCH FAILED|rule=|construct|ANALYSIS" "$f" | head -12; else echo "== $id quiet"; fi
done
rm -rf "$tmp"
