#!/bin/sh
# usage: run_all.sh [quick|thorough]  -- runs every check registered in MANIFEST.json against /repo, 8 at a time; prints one summary line per check
tier="${1:-quick}"
cd /verif || exit 2
ids=$(python3 -c "import json;print(' '.join(c['property_id'] for c in json.load(open('MANIFEST.json'))['checks']))")
tmp=$(mktemp -d)
for p in $ids; do echo $p; done | xargs -P 8 -I{} sh -c "./check {} $tier > $tmp/{}.out 2>&1; echo \$? > $tmp/{}.rc"
rc=0
for p in $ids; do
  r=$(cat $tmp/$p.rc); [ "$r" != "0" ] && rc=1
  printf "%s exit=%s %s\n" "$p" "$r" "$(tail -1 $tmp/$p.out | cut -c1-160)"
  grep -E "^(VIOLATION|ANALYSIS-ERROR)" $tmp/$p.out | cut -c1-200
done
rm -rf "$tmp"
exit $rc
