#!/bin/sh
# usage: try_seed.sh <ID> [srcdir] [checks...]  -- run the static checks against a scratch copy of /repo/wntr with the seeded patch applied
id="$1"; src="${2:-/tmp/out_$id}"; shift; [ $# -gt 0 ] && shift
d=$(mktemp -d "/tmp/seedchk_${id}_XXXXXX")
rsync -a --exclude '__pycache__' --exclude '*.so' --exclude 'tests' /repo/wntr "$d/" 
( cd "$d" && patch -p1 -s --fuzz=3 < "$src/patch.diff" ) || { echo "PATCH FAILED for $id"; rm -rf "$d"; exit 3; }
checks="$*"; [ -z "$checks" ] && checks=$(python3 -c "import json;print(' '.join(c['property_id'] for c in json.load(open('/verif/MANIFEST.json'))['checks']))")
for c in $checks; do
  out=$(cd /verif && VERIF_REPO="$d" VERIF_NO_EVIDENCE=1 ./check $c quick 2>&1); rc=$?
  if [ $rc -ne 0 ]; then echo "[$id] check $c -> exit $rc"; echo "$out" | grep -E "^(VIOLATION|ANALYSIS-ERROR|  rule=|  construct)" | head -12; fi
done
echo "[$id] done"
rm -rf "$d"
