#!/usr/bin/env python3
"""seed_admin.py keep <seed-id> <property> <srcdir>
Reads /tmp/scratch/confirm_<seed-id>.txt (written by tools/confirm_seed.sh), the result of tools/try_seed.sh, and stores
patch.diff, demo.py, notes.md and meta.json under /verif/seeded/<seed-id>/ if the change is confirmed."""
import json, os, shutil, subprocess, sys, re

def main():
    cmd, sid, prop, src = sys.argv[1:5]
    conf = "/tmp/scratch/confirm_%s.txt" % sid
    txt = open(conf).read() if os.path.exists(conf) else ""
    m = re.findall(r"exit=(\d+)", txt)
    suite = re.search(r"stable tests passing: (\d+) / (\d+)", txt)
    confirmed = len(m) >= 2 and m[0] == "0" and m[1] != "0" and suite and suite.group(1) == suite.group(2) and "PATCH DOES NOT APPLY" not in txt
    out = subprocess.run(["/verif/tools/try_seed.sh", sid, src], capture_output=True, text=True).stdout
    fired = sorted(set(re.findall(r"check (C\d+) -> exit 1", out)))
    errs = sorted(set(re.findall(r"check (C\d+) -> exit 2", out)))
    rules = re.findall(r"rule=(\S+)", out)
    print("confirmed:", bool(confirmed), "| demo exits:", m[:2], "| suite:", suite.group(0) if suite else None)
    print("checks firing:", fired, "analysis errors:", errs, "rules:", sorted(set(rules)))
    if cmd != "keep" or not confirmed:
        return 0 if confirmed else 1
    d = "/verif/seeded/%s" % sid
    os.makedirs(d, exist_ok=True)
    for f in ("patch.diff", "demo.py", "notes.md"):
        if os.path.exists(os.path.join(src, f)):
            shutil.copy(os.path.join(src, f), os.path.join(d, f))
    notes = open(os.path.join(src, "notes.md")).read() if os.path.exists(os.path.join(src, "notes.md")) else ""
    meta = {
        "seed": sid, "breaks_property": prop,
        "needs_to_manifest": (sys.argv[5] if len(sys.argv) > 5 else notes[:600]),
        "origin": "independent sub-agent given only the property text and a scratch worktree",
        "confirmed_by": "tools/confirm_seed.sh in a fresh worktree of /repo HEAD: demo exit 0 on the original tree, exit %s with the patch; full pinned suite with the patch: %s" % (m[1], suite.group(0)),
        "checks_run": "tools/try_seed.sh %s (every check in MANIFEST.json against a scratch copy of /repo/wntr with the patch)" % sid,
        "caught_by": fired, "rules_firing": sorted(set(rules)), "analysis_errors": errs,
    }
    json.dump(meta, open(os.path.join(d, "meta.json"), "w"), indent=1)
    print("kept ->", d)
    return 0

sys.exit(main())
