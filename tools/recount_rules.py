#!/usr/bin/env python3
"""recount_rules.py -- recompute the per-property and overall technique counts of RULES.md from its table rows and write them into the
header lines of RULES.md and into TECHNIQUES.json (run after adding a row to RULES.md)."""
import json, re
p = '/verif/RULES.md'; L = open(p).read().split("\n")
t = json.load(open('/verif/TECHNIQUES.json'))
end = [k for k, l in enumerate(L) if l.startswith("## Known weak spots")][0]
ROW = r"^\| (R-C\d\d-[0-9a-z]+)[^|]*\| \*\*([T123+]+)\*\*"
cur = None; counts = {}
for k, l in enumerate(L[:end]):
    m = re.match(r"^## (C\d\d) ", l)
    if m:
        cur = m.group(1); counts[cur] = {"n": 0, "T1": 0, "T2": 0, "T3": 0, "hdr": None}
    if cur and re.match(r"^%s: \d+ rules" % cur, l):
        counts[cur]["hdr"] = k
    m = re.match(ROW, l)
    if m and cur:
        counts[cur]["n"] += 1
        for T in ("T1", "T2", "T3"):
            if T in m.group(2):
                counts[cur][T] += 1
for c, v in counts.items():
    L[v["hdr"]] = "%s: %d rules — T1: %d, T2: %d, T3: %d" % (c, v["n"], v["T1"], v["T2"], v["T3"])
    for T in ("T1", "T2", "T3"):
        t[c][T] = v[T]
rows = [m for m in (re.match(ROW, l) for l in L[:end]) if m]
n = len(rows); cnt = lambda T: sum(1 for m in rows if T in m.group(2)); only = lambda T: sum(1 for m in rows if m.group(2) == T)
comb = sum(1 for m in rows if "+" in m.group(2))
for k, l in enumerate(L[:12]):
    if l.startswith("1. "): L[k] = re.sub(r"^1\. \d+ rule ids", "1. %d rule ids" % n, l)
    if l.startswith("2. "): L[k] = re.sub(r": \d+ rule ids, \d+ of them T1 only", ": %d rule ids, %d of them T1 only" % (cnt("T1"), only("T1")), l)
    if l.startswith("3. "): L[k] = re.sub(r": \d+ rule ids, \d+ T2 only", ": %d rule ids, %d T2 only" % (cnt("T2"), only("T2")), l)
    if l.startswith("4. "): L[k] = re.sub(r": \d+ rule ids, \d+ T3 only", ": %d rule ids, %d T3 only" % (cnt("T3"), only("T3")), l)
    if l.startswith("5. "):
        L[k] = re.sub(r"^5\. \d+ rule ids", "5. %d rule ids" % comb, l); L[k] = re.sub(r"more than \d+", "more than %d" % n, L[k])
open(p, 'w').write("\n".join(L))
json.dump(t, open('/verif/TECHNIQUES.json', 'w'), indent=1)
print("%d rule ids; T1 %d, T2 %d, T3 %d; %d combined" % (n, cnt("T1"), cnt("T2"), cnt("T3"), comb))
