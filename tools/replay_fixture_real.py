#!/venv/bin/python
"""replay_fixture_real.py [A|B] [units ...] -- ONE-OFF SANITY RUN, NOT A CHECK: builds the fixture model of sa/props/c13_fixture.py with the REAL library
(/venv/bin/python, wntr importable) and puts it through the dictionary and the INP round trip with the same comparison the interpreted rules R-C13-10 /
R-C12-17 use.  Run while a fixture is written or changed: whatever it prints here would be reported by the rules on the pinned tree (so it must be a known
finding or the fixture must avoid it).  Needs a writable current directory."""
import sys, json, copy, warnings
warnings.filterwarnings("ignore")
sys.path.insert(0, "/verif")
import wntr
from wntr.network import controls as C
from wntr.network.base import LinkStatus
from sa.props.c13_fixture import recipe
from sa.props.c12_roundtrip import inp_view, view_diff

variant = sys.argv[1] if len(sys.argv) > 1 else "A"
STEPS, CONTROLS = recipe(variant)


def build():
    wn = wntr.network.WaterNetworkModel()

    def ref(x):
        if isinstance(x, str) and x.startswith("node:"): return wn.get_node(x[5:])
        if isinstance(x, str) and x.startswith("link:"): return wn.get_link(x[5:])
        if isinstance(x, str) and x.startswith("curve:"): return wn.get_curve(x[6:])
        if isinstance(x, str) and x.startswith("status:"): return LinkStatus[x[7:]]
        if x == "wn": return wn
        return x
    for st in STEPS:
        if st[0] == "set":
            setattr(ref(st[1]), st[2], ref(st[3]))
        elif st[0] == "setopt":
            setattr(getattr(wn.options, st[1]), st[2], st[3])
        else:
            getattr(ref(st[0]), st[1])(*[ref(a) for a in st[2]], **st[3])

    def cond(c):
        if c[0] == "simtime": return C.SimTimeCondition(wn, c[1], c[2])
        if c[0] == "clock": return C.TimeOfDayCondition(wn, c[1], c[2])
        if c[0] == "value": return C.ValueCondition(ref(c[1]), c[2], c[3], c[4])
        return (C.AndCondition if c[0] == "and" else C.OrCondition)(cond(c[1]), cond(c[2]))
    for name, kind, spec in CONTROLS:
        if kind == "simple":
            wn.add_control(name, C.Control(cond(spec["cond"]), C.ControlAction(ref(spec["target"]), spec["attr"], ref(spec["value"]))))
        else:
            th = [C.ControlAction(ref(t), a, ref(v)) for t, a, v in spec["then"]]
            el = [C.ControlAction(ref(t), a, ref(v)) for t, a, v in spec["else_"]]
            wn.add_control(name, C.Rule(cond(spec["cond"]), th, el, priority=spec["priority"], name=name))
    return wn


def norm(d):
    return json.loads(json.dumps(d, default=lambda o: o.tolist() if hasattr(o, "tolist") else str(o)))


def ddiff(a, b, path=""):
    out = []
    if isinstance(a, dict) and isinstance(b, dict):
        for k in sorted(set(a) | set(b), key=str):
            if k not in a: out.append("%s/%s only in the copy: %r" % (path, k, b[k]))
            elif k not in b: out.append("%s/%s only in the original: %r" % (path, k, a[k]))
            else: out += ddiff(a[k], b[k], path + "/" + str(k))
    elif isinstance(a, list) and isinstance(b, list):
        if len(a) != len(b): out.append("%s: %d entries vs %d" % (path, len(a), len(b)))
        for i, (x, y) in enumerate(zip(a, b)): out += ddiff(x, y, "%s[%s]" % (path, x.get("name", i) if isinstance(x, dict) and x.get("name") else i))
    elif a != b:
        out.append("%s: %r vs %r" % (path, a, b))
    return out


wn = build()
d1 = norm(wntr.network.io.to_dict(wn))
wn2 = wntr.network.io.from_dict(copy.deepcopy(d1))
d2 = norm(wntr.network.io.to_dict(wn2))
print("dictionary round trip, variant %s: %d difference(s)" % (variant, len(ddiff(d1, d2))))
for l in ddiff(d1, d2)[:40]: print("   ", l[:220])
wn3 = wntr.network.WaterNetworkModel()
wntr.network.io.from_dict(copy.deepcopy(d1), append=wn3)
print("append to an empty model: %d difference(s)" % len(ddiff(d2, norm(wntr.network.io.to_dict(wn3)))))
for units in (sys.argv[2:] or ["LPS", "GPM", "CMH", "MGD", "CMD"]):
    for version in (2.2, 2.0):
        wn = build()
        wntr.network.io.write_inpfile(wn, "rt_fixture.inp", units=units, version=version)
        w2 = wntr.network.io.read_inpfile("rt_fixture.inp")
        a, b = norm(wntr.network.io.to_dict(wn)), norm(wntr.network.io.to_dict(w2))
        df = view_diff(inp_view(a, version), inp_view(b, version))
        wntr.network.io.write_inpfile(w2, "rt_fixture2.inp", units=units, version=version)
        c = norm(wntr.network.io.to_dict(wntr.network.io.read_inpfile("rt_fixture2.inp")))
        df2 = view_diff(inp_view(b, version), inp_view(c, version))
        print("INP round trip %s %s: %d difference(s), second cycle %d" % (units, version, len(df), len(df2)))
        for l in (df + df2)[:30]: print("   ", l[:220])
