#!/bin/sh
# usage: confirm_seed.sh <ID> [srcdir]   -- independent confirmation of a seeded change in a fresh scratch worktree of /repo HEAD
# writes /tmp/scratch/confirm_<ID>.txt ; removes the worktree afterwards
id="$1"; src="${2:-/tmp/out_$id}"; d="/tmp/wtc_$id"; out="/tmp/scratch/confirm_$id.txt"
mkdir -p /tmp/scratch; : > "$out"
/verif/tools/mkwt.sh "$d" >/dev/null 2>&1 || { echo "worktree failed" >> "$out"; exit 2; }
cd "$d" || exit 2
echo "== demo on original" >> "$out"
/venv/bin/python "$src/demo.py" > "$out.orig.log" 2>&1; echo "exit=$?" >> "$out"; tail -2 "$out.orig.log" >> "$out"
if git apply --check "$src/patch.diff" 2>/dev/null; then git apply "$src/patch.diff"; echo "== patch applied cleanly" >> "$out";
elif git apply --3way "$src/patch.diff" >/dev/null 2>&1; then echo "== patch applied with 3way" >> "$out";
else echo "== PATCH DOES NOT APPLY" >> "$out"; git -C /repo worktree remove --force "$d"; exit 3; fi
git diff --stat >> "$out"
echo "== demo on changed" >> "$out"
/venv/bin/python "$src/demo.py" > "$out.chg.log" 2>&1; echo "exit=$?" >> "$out"; tail -2 "$out.chg.log" >> "$out"
echo "== full suite on changed" >> "$out"
/venv/bin/python -m pytest -ra -q -p no:cacheprovider --timeout=900 --continue-on-collection-errors --junitxml="$out.xml" > "$out.suite.log" 2>&1
python3 - "$out.xml" >> "$out" <<'PY'
import sys, json, xml.etree.ElementTree as ET
base=json.load(open('/root/.vp/BASELINE.json'))
stable=set(base['stable_pass'])
t=ET.parse(sys.argv[1]).getroot()
res={}
for tc in t.iter('testcase'):
    name="%s::%s"%(tc.get('classname'),tc.get('name'))
    bad=any(c.tag in('failure','error') for c in tc)
    skipped=any(c.tag=='skipped' for c in tc)
    res[name]='fail' if bad else ('skip' if skipped else 'pass')
missing=[s for s in stable if res.get(s)!='pass']
print("stable tests passing: %d / %d"%(len(stable)-len(missing), len(stable)))
for m in missing: print("NOT PASSING:", m, res.get(m))
PY
cd /; git -C /repo worktree remove --force "$d"
echo "== done" >> "$out"
