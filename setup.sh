#!/bin/sh
# Nothing to build: verifies that the analyser's interpreter and its two pure-python libraries are present offline.
cd "$(dirname "$0")" || exit 1
PY=python3-vt
command -v "$PY" >/dev/null 2>&1 || PY=/opt/veriftools/pyvenv/bin/python
"$PY" -c "import ast, sympy, networkx; print('sa setup ok: python', __import__('sys').version.split()[0], 'sympy', sympy.__version__, 'networkx', networkx.__version__)"
