"""E4 -- statement-level control-flow graph for the statement kinds the repository uses.

Nodes are simple statements, branch tests (if/while/for heads) and the synthetic
ENTRY / EXIT(return) / RAISE nodes.  Edges carry the branch outcome.  Exceptions
are modelled only for explicit `raise` (and try/except: every statement of a try
body may jump to each handler).  Path rules are graph reachability questions;
no path condition is ever solved.
"""
import ast

import networkx as nx

from .src import unparse, walk, call_name, dotted, ExtractError


class CFG(object):
    def __init__(self, fn):
        self.fn = fn
        self.g = nx.DiGraph()
        self._n = 0
        self.entry = self._new("entry", None)
        self.exit = self._new("exit", None)          # normal return / fall off the end
        self.raise_exit = self._new("raise", None)   # uncaught explicit raise
        self.loop_heads = {}                         # ast loop node -> head id
        self._build()

    # ------------------------------------------------------------- building
    def _new(self, kind, node, label=None):
        i = self._n
        self._n += 1
        self.g.add_node(i, kind=kind, node=node, label=label or (unparse(node).split("\n")[0][:120] if node is not None else kind),
                        line=getattr(node, "lineno", 0))
        return i

    def _edge(self, a, b, cond=None):
        if a is None or b is None:
            return
        self.g.add_edge(a, b, cond=cond)

    def _build(self):
        ends = self._block(self.fn.body, [(self.entry, None)], None, [])
        for e, c in ends:
            self._edge(e, self.exit, c)

    def _block(self, stmts, preds, loop, handlers):
        """preds: list of (node, cond) dangling edges. returns dangling edges after the block."""
        for s in stmts:
            preds = self._stmt(s, preds, loop, handlers)
        return preds

    def _link(self, preds, n):
        for p, c in preds:
            self._edge(p, n, c)

    def _stmt(self, s, preds, loop, handlers):
        if not preds:
            return []          # unreachable code
        if isinstance(s, ast.If):
            t = self._new("test", s.test, "if " + unparse(s.test)[:110])
            self.g.nodes[t]["stmt"] = s
            self._link(preds, t)
            for h in handlers:
                pass
            a = self._block(s.body, [(t, True)], loop, handlers)
            b = self._block(s.orelse, [(t, False)], loop, handlers) if s.orelse else [(t, False)]
            return a + b
        if isinstance(s, (ast.While, ast.For)):
            if isinstance(s, ast.While):
                head = self._new("loophead", s.test, "while " + unparse(s.test)[:100])
                always = isinstance(s.test, ast.Constant) and bool(s.test.value)
            else:
                head = self._new("loophead", s.iter, "for %s in %s" % (unparse(s.target), unparse(s.iter)[:90]))
                always = False
            self.g.nodes[head]["stmt"] = s
            self.loop_heads[s] = head
            self._link(preds, head)
            ctx = {"head": head, "breaks": []}
            body_end = self._block(s.body, [(head, True)], ctx, handlers)
            for e, c in body_end:
                self.g.add_edge(e, head, cond=c, back=True)
            out = [] if always else [(head, False)]
            if s.orelse:
                out = self._block(s.orelse, out, loop, handlers)
            return out + ctx["breaks"]
        if isinstance(s, ast.Try):
            my_handlers = []
            hnodes = []
            for h in s.handlers:
                hn = self._new("except", h, "except " + (unparse(h.type) if h.type is not None else ""))
                hnodes.append((hn, h))
                my_handlers.append(hn)
            first = self._n
            body_end = self._block(s.body, preds, loop, handlers + my_handlers)
            body_nodes = [i for i in range(first, self._n) if self.g.nodes[i]["kind"] in ("stmt", "test", "loophead")]
            for p, c in preds:
                for hn in my_handlers:
                    pass
            for i in body_nodes:
                for hn in my_handlers:
                    self.g.add_edge(i, hn, cond="exc")
            if s.orelse:
                body_end = self._block(s.orelse, body_end, loop, handlers)
            ends = list(body_end)
            for hn, h in hnodes:
                ends += self._block(h.body, [(hn, None)], loop, handlers)
            if s.finalbody:
                ends = self._block(s.finalbody, ends, loop, handlers)
            return ends
        if isinstance(s, ast.With):
            n = self._new("stmt", s, "with " + ", ".join(unparse(i) for i in s.items)[:100])
            self._link(preds, n)
            return self._block(s.body, [(n, None)], loop, handlers)
        if isinstance(s, (ast.FunctionDef, ast.ClassDef, ast.AsyncFunctionDef)):
            n = self._new("stmt", None, "def " + s.name)
            self._link(preds, n)
            return [(n, None)]
        n = self._new("stmt", s)
        self._link(preds, n)
        if isinstance(s, ast.Return):
            self._edge(n, self.exit)
            return []
        if isinstance(s, ast.Raise):
            if handlers:
                for hn in handlers:
                    self.g.add_edge(n, hn, cond="exc")
                # a raise inside try may also propagate if no handler matches: keep the raise exit too
            self._edge(n, self.raise_exit)
            return []
        if isinstance(s, ast.Break):
            if loop is None:
                raise ExtractError("break outside loop")
            loop["breaks"].append((n, None))
            return []
        if isinstance(s, ast.Continue):
            if loop is None:
                raise ExtractError("continue outside loop")
            self.g.add_edge(n, loop["head"], back=True, cond=None)
            return []
        return [(n, None)]

    # -------------------------------------------------------------- queries
    def node_ast(self, i):
        return self.g.nodes[i]["node"]

    def label(self, i):
        d = self.g.nodes[i]
        return "L%s: %s" % (d["line"], d["label"])

    def nodes_where(self, pred):
        out = []
        for i, d in self.g.nodes(data=True):
            if d["node"] is not None and d["kind"] in ("stmt", "test", "loophead") and pred(d["node"], d):
                out.append(i)
        return sorted(out)

    def calling(self, suffix):
        """nodes whose own expression/statement calls a function whose dotted name ends with suffix."""
        def pred(node, d):
            for c in walk(node):
                if isinstance(c, ast.Call):
                    nm = call_name(c) or ""
                    if nm == suffix or nm.endswith("." + suffix) or (suffix.startswith(".") and nm.endswith(suffix)):
                        return True
            return False
        return self.nodes_where(pred)

    def matching(self, text):
        return self.nodes_where(lambda node, d: text in unparse(node))

    def assigning(self, target_text):
        def pred(node, d):
            if isinstance(node, ast.Assign):
                return any(unparse(t) == target_text for t in node.targets)
            if isinstance(node, (ast.AugAssign, ast.AnnAssign)):
                return unparse(node.target) == target_text
            return False
        return self.nodes_where(pred)

    def view(self, drop_back=False, drop_nodes=(), drop_edges=()):
        g = self.g.copy()
        if drop_back:
            g.remove_edges_from([(a, b) for a, b, d in self.g.edges(data=True) if d.get("back")])
        g.remove_edges_from(list(drop_edges))
        g.remove_nodes_from([n for n in drop_nodes])
        return g

    def reachable(self, src, g=None):
        g = g if g is not None else self.g
        if src not in g:
            return set()
        return set(nx.descendants(g, src)) | {src}

    def can_reach_avoiding(self, src, dst_set, avoid, drop_back=False, drop_edges=()):
        """is some node of dst_set reachable from src without passing a node in avoid?  returns a witness path or None."""
        if src in set(avoid):
            return None            # the source itself is a required node: every path trivially passes it
        g = self.view(drop_back=drop_back, drop_nodes=list(avoid), drop_edges=drop_edges)
        for d in sorted(dst_set):
            if d in g and src in g and nx.has_path(g, src, d):
                return nx.shortest_path(g, src, d)
        return None

    def must_pass(self, src, dst_set, via, drop_back=False):
        """every path src -> dst passes through a node of via.  returns (ok, witness_path)."""
        w = self.can_reach_avoiding(src, dst_set, via, drop_back=drop_back)
        return (w is None), w

    def path_text(self, path):
        return " -> ".join(self.label(i) for i in path if self.g.nodes[i]["node"] is not None)

    def branch_edges(self, test_node, outcome):
        return [(a, b) for a, b, d in self.g.out_edges(test_node, data=True) if d.get("cond") is outcome]

    def succ_on(self, test_node, outcome):
        return [b for a, b, d in self.g.out_edges(test_node, data=True) if d.get("cond") is outcome]

    def dominators(self, g=None):
        return nx.immediate_dominators(g if g is not None else self.g, self.entry)

    def dominates(self, a, b, idom=None):
        idom = idom or self.dominators()
        x = b
        while True:
            if x == a:
                return True
            if x not in idom or idom[x] == x:
                return x == a
            x = idom[x]
