"""E8 -- tiny reader for the two hand-written C++ files (regular if/else-if chains, const int tables)."""
import re

from .src import AnchorError, ExtractError


def strip_comments(src):
    src = re.sub(r"/\*.*?\*/", " ", src, flags=re.S)
    src = re.sub(r"//[^\n]*", " ", src)
    return src


def const_ints(src):
    return {m.group(1): int(m.group(2)) for m in re.finditer(r"const\s+int\s+(\w+)\s*=\s*(-?\d+)\s*;", strip_comments(src))}


def function_body(src, signature_regex):
    src = strip_comments(src)
    m = re.search(signature_regex, src)
    if not m:
        raise AnchorError("C++ function %s not found" % signature_regex)
    i = src.index("{", m.end() - 1)
    return balanced(src, i)


def balanced(src, i):
    """text inside the braces opening at src[i] == '{'."""
    assert src[i] == "{"
    depth = 0
    for j in range(i, len(src)):
        if src[j] == "{":
            depth += 1
        elif src[j] == "}":
            depth -= 1
            if depth == 0:
                return src[i + 1:j]
    raise ExtractError("unbalanced braces")


def opcode_branches(body, var="ndx"):
    """{NAME: block text} for `if (ndx == NAME) {...} else if (ndx == NAME) {...}` chains."""
    out = {}
    for m in re.finditer(r"if\s*\(\s*%s\s*==\s*(\w+)\s*\)\s*\{" % var, body):
        blk = balanced(body, m.end() - 1)
        out[m.group(1)] = blk
    return out


def norm(s):
    return re.sub(r"\s+", "", s)


def analyse_branch(blk):
    """-> dict(pops=[var,...] in pop order, result=normalised remaining statements)."""
    stmts = [s.strip() for s in re.split(r";", blk) if s.strip()]
    pops = []
    rest = []
    pending = 0
    for s in stmts:
        n = norm(s)
        if n == "--stack_ndx":
            pending += 1
            continue
        m = re.match(r"^(\w+)=stack\[stack_ndx\]$", n)
        if m and pending:
            pops.append(m.group(1))
            pending -= 1
            continue
        rest.append(n)
    if pending:
        raise ExtractError("pop without read in branch: %s" % blk[:80])
    return {"pops": pops, "result": ";".join(rest)}
