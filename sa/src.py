"""E1 -- source model: parses /repo/wntr (never imports it).

Anchors are located by role (module path, class, function name); a vanished
anchor raises AnchorError, which the CLI turns into ANALYSIS-ERROR / exit 2.
"""
import ast
import os
import re


class AnchorError(Exception):
    """An anchored construct could not be located: the analysis is broken."""


class ExtractError(AnchorError):
    """A formula / table could not be extracted from a located construct."""


def repo_root():
    return os.environ.get("VERIF_REPO", "/repo")


class Repo(object):
    def __init__(self, root=None, overrides=None):
        self.root = root or repo_root()
        self.overrides = dict(overrides or {})
        self._src = {}
        self._tree = {}
        self.consulted = set()
        self.normalize_log = []

    def with_override(self, rel, text):
        ov = dict(self.overrides)
        ov[rel] = text
        return Repo(self.root, ov)

    # ------------------------------------------------------------------ files
    def path(self, rel):
        return os.path.join(self.root, rel)

    def exists(self, rel):
        return rel in self.overrides or os.path.exists(self.path(rel))

    def source(self, rel):
        if rel not in self._src:
            self.consulted.add(rel)
            if rel in self.overrides:
                self._src[rel] = self.overrides[rel]
            else:
                p = self.path(rel)
                if not os.path.exists(p):
                    raise AnchorError("file vanished: %s" % rel)
                with open(p, encoding="utf-8", errors="replace") as f:
                    self._src[rel] = f.read()
        return self._src[rel]

    def tree(self, rel):
        if rel not in self._tree:
            try:
                t = ast.parse(self.source(rel), filename=rel)
            except SyntaxError as e:
                raise AnchorError("cannot parse %s: %s" % (rel, e))
            if not os.environ.get("VERIF_NO_NORMALIZE"):
                from .normalize import normalize
                t, log = normalize(t, rel)
                self.normalize_log.extend("%s: %s" % (rel, l) for l in log)
            for n in ast.walk(t):
                for c in ast.iter_child_nodes(n):
                    # Load / Store / Add / Eq ... are interpreter-wide singletons shared by every parsed tree: a back pointer on them would chain
                    # all trees together (and make every copy.deepcopy of a Name copy a whole module)
                    if not isinstance(c, (ast.expr_context, ast.operator, ast.unaryop, ast.boolop, ast.cmpop)):
                        c._parent = n
            t._rel = rel
            self._tree[rel] = t
        return self._tree[rel]

    def modules(self, sub="wntr", exclude=("tests", "msx", "library", "gis", "graphics")):
        out = []
        base = self.path(sub)
        for dp, dn, fn in os.walk(base):
            dn[:] = sorted(d for d in dn if d not in exclude and not d.startswith("."))
            for f in sorted(fn):
                if f.endswith(".py"):
                    out.append(os.path.relpath(os.path.join(dp, f), self.root))
        return out

    # ---------------------------------------------------------------- lookups
    def cls(self, rel, name):
        t = self.tree(rel)
        cur = t
        for part in name.split("."):
            found = None
            for n in cur.body:
                if isinstance(n, ast.ClassDef) and n.name == part:
                    found = n
                    break
            if found is None:
                raise AnchorError("class %s not found in %s" % (name, rel))
            cur = found
        cur._rel = rel
        return cur

    def has_cls(self, rel, name):
        try:
            self.cls(rel, name)
            return True
        except AnchorError:
            return False

    def func(self, rel, qual, kind=None):
        """qual = 'func' or 'Class.method' (or 'Class.prop' with kind='setter'/'getter')."""
        parts = qual.split(".")
        if len(parts) == 1:
            body = self.tree(rel).body
        else:
            body = self.cls(rel, ".".join(parts[:-1])).body
        cands = [n for n in body if isinstance(n, (ast.FunctionDef, ast.AsyncFunctionDef)) and n.name == parts[-1]]
        if kind == "setter":
            cands = [n for n in cands if any(isinstance(d, ast.Attribute) and d.attr == "setter" for d in n.decorator_list)]
        elif kind == "getter":
            cands = [n for n in cands if any(isinstance(d, ast.Name) and d.id == "property" for d in n.decorator_list)]
        elif len(cands) > 1:
            # plain lookup of a property name: prefer the getter
            g = [n for n in cands if any(isinstance(d, ast.Name) and d.id == "property" for d in n.decorator_list)]
            cands = g or cands
        if not cands:
            raise AnchorError("function %s%s not found in %s" % (qual, " (%s)" % kind if kind else "", rel))
        f = cands[0]
        f._rel = rel
        f._qual = qual
        return f

    def has_func(self, rel, qual, kind=None):
        try:
            self.func(rel, qual, kind)
            return True
        except AnchorError:
            return False

    def methods(self, classdef):
        out = {}
        for n in classdef.body:
            if isinstance(n, ast.FunctionDef):
                key = n.name
                if any(isinstance(d, ast.Attribute) and d.attr == "setter" for d in n.decorator_list):
                    key = n.name + ".setter"
                n._rel = getattr(classdef, "_rel", None)
                n._qual = classdef.name + "." + n.name
                out[key] = n
        return out

    def classes(self, rel):
        out = {}
        for n in self.tree(rel).body:
            if isinstance(n, ast.ClassDef):
                n._rel = rel
                out[n.name] = n
        return out

    def module_assign(self, rel, name):
        for n in self.tree(rel).body:
            if isinstance(n, ast.Assign):
                for t in n.targets:
                    if isinstance(t, ast.Name) and t.id == name:
                        return n.value
        raise AnchorError("module constant %s not found in %s" % (name, rel))


# ------------------------------------------------------------------ ast utils
def unparse(n):
    try:
        return ast.unparse(n)
    except Exception:
        return "<%s>" % type(n).__name__


def norm(n):
    """normalised statement/expression text (used as construct key)."""
    s = unparse(n) if isinstance(n, ast.AST) else str(n)
    s = re.sub(r"\s+", " ", s).strip()
    return s if len(s) <= 160 else s[:157] + "..."


def dotted(n):
    """a.b.c -> 'a.b.c' (None if not a pure dotted name)."""
    parts = []
    while isinstance(n, ast.Attribute):
        parts.append(n.attr)
        n = n.value
    if isinstance(n, ast.Name):
        parts.append(n.id)
        return ".".join(reversed(parts))
    return None


def call_name(c):
    """dotted name of a Call's func, or trailing attr chain such as '<expr>.at'."""
    if not isinstance(c, ast.Call):
        return None
    d = dotted(c.func)
    if d is not None:
        return d
    if isinstance(c.func, ast.Attribute):
        return "?." + c.func.attr
    return None


def last_attr(c):
    if isinstance(c, ast.Call):
        c = c.func
    if isinstance(c, ast.Attribute):
        return c.attr
    if isinstance(c, ast.Name):
        return c.id
    return None


def walk(node, skip_nested=True):
    """ast.walk that does not descend into nested function/class definitions."""
    stack = [node]
    first = True
    while stack:
        n = stack.pop()
        if not first and skip_nested and isinstance(n, (ast.FunctionDef, ast.AsyncFunctionDef, ast.ClassDef, ast.Lambda)):
            continue
        first = False
        yield n
        stack.extend(reversed(list(ast.iter_child_nodes(n))))


def calls(node, name=None, attr=None):
    out = []
    for n in walk(node):
        if isinstance(n, ast.Call):
            if name is not None and call_name(n) != name:
                continue
            if attr is not None and last_attr(n) != attr:
                continue
            out.append(n)
    out.sort(key=lambda c: (c.lineno, c.col_offset))
    return out


def const(n, default=None):
    if isinstance(n, ast.Constant):
        return n.value
    if isinstance(n, ast.UnaryOp) and isinstance(n.op, ast.USub) and isinstance(n.operand, ast.Constant):
        return -n.operand.value
    return default


def loc(fn_or_rel, node=None):
    rel = fn_or_rel if isinstance(fn_or_rel, str) else getattr(fn_or_rel, "_rel", "?")
    line = getattr(node if node is not None else fn_or_rel, "lineno", 0)
    return "%s:%s" % (rel, line)


def parent(n):
    return getattr(n, "_parent", None)


def enclosing(n, types):
    p = parent(n)
    while p is not None and not isinstance(p, types):
        p = parent(p)
    return p


def stmt_of(n):
    while n is not None and not isinstance(n, ast.stmt):
        n = parent(n)
    return n


def attr_stores(node):
    """All (target_node, attr, stmt) where an attribute is assigned in node."""
    out = []
    for n in walk(node):
        tgts = []
        if isinstance(n, ast.Assign):
            tgts = n.targets
        elif isinstance(n, (ast.AugAssign, ast.AnnAssign)):
            tgts = [n.target]
        for t in tgts:
            for e in (t.elts if isinstance(t, (ast.Tuple, ast.List)) else [t]):
                if isinstance(e, ast.Attribute):
                    out.append((e, e.attr, n))
    return out


def names_in(node):
    return {n.id for n in ast.walk(node) if isinstance(n, ast.Name)}


def attrs_in(node):
    return {n.attr for n in ast.walk(node) if isinstance(n, ast.Attribute)}


def str_consts(node):
    return [n.value for n in ast.walk(node) if isinstance(n, ast.Constant) and isinstance(n.value, str)]
