"""Obligation bookkeeping, evidence, known findings, replay files."""
import hashlib
import json
import os
import time

VERIF = os.path.dirname(os.path.dirname(os.path.abspath(__file__)))
KNOWN_FILE = os.path.join(VERIF, "known_findings.json")


def load_known():
    if not os.path.exists(KNOWN_FILE):
        return []
    with open(KNOWN_FILE) as f:
        return json.load(f).get("findings", [])


class Check(object):
    """Collects rule instances (obligations) for one property run."""

    def __init__(self, pid, tier="quick", quiet=False):
        self.pid = pid
        self.tier = tier
        self.quiet = quiet
        self.t0 = time.time()
        self.instances = []      # dicts: rule, construct, loc, ok, detail
        self.counts = {}         # rule -> instances
        self.floors = {}         # rule -> (count, floor)
        self.samples = []
        self.assumptions = []
        self.notes = []
        self.errors = []         # analysis errors (exit 2)
        self.extra = {}
        self.functions = set()

    # ------------------------------------------------------------ recording
    def _rec(self, rule, construct, ok, loc, detail, expected=None, found=None):
        d = {"rule": rule, "construct": construct, "ok": bool(ok), "loc": loc or "", "detail": detail or ""}
        if expected is not None:
            d["expected"] = str(expected)
        if found is not None:
            d["found"] = str(found)
        self.instances.append(d)
        self.counts[rule] = self.counts.get(rule, 0) + 1
        return bool(ok)

    def ok(self, rule, construct, loc=None, detail=None):
        return self._rec(rule, construct, True, loc, detail)

    def bad(self, rule, construct, loc=None, detail=None, expected=None, found=None):
        return self._rec(rule, construct, False, loc, detail, expected, found)

    def expect(self, cond, rule, construct, loc=None, detail=None, expected=None, found=None):
        if cond:
            return self.ok(rule, construct, loc, detail)
        return self.bad(rule, construct, loc, detail, expected, found)

    def floor(self, rule, floor, count=None):
        """Fail (analysis broken) if a rule matched fewer instances than confirmed by hand."""
        n = self.counts.get(rule, 0) if count is None else count
        self.floors[rule] = (n, floor)
        if n < floor:
            self.error("rule %s matched %d instances, floor is %d (anchors moved?)" % (rule, n, floor))

    def error(self, msg):
        self.errors.append(msg)

    def part(self, label):
        """context manager around one family of rules inside a property's run(): whatever goes wrong inside (an anchor that vanished, an extraction that failed, a
        crash of the analyser, a name a failed earlier part never bound) is recorded as an analysis error of THAT part and the following parts still run -- so a
        violation another rule can see is still reported (it takes precedence over the analysis error in the exit code)"""
        return _Part(self, label)

    def sample(self, obj):
        if len(self.samples) < 40:
            self.samples.append(obj)

    def assume(self, text):
        if text not in self.assumptions:
            self.assumptions.append(text)

    def note(self, text):
        self.notes.append(text)

    def fn(self, *fs):
        for f in fs:
            self.functions.add("%s::%s" % (getattr(f, "_rel", "?"), getattr(f, "_qual", getattr(f, "name", "?"))))

    # ------------------------------------------------------------- results
    def violations(self):
        return [i for i in self.instances if not i["ok"]]

    def violation_keys(self):
        return {(i["rule"], i["construct"]) for i in self.violations()}

    def finish(self, explanation, rule_text, level="other", extra_cov=None, write=True):
        if os.environ.get("VERIF_NO_EVIDENCE"):
            write = False      # self-test runs against scratch copies must not overwrite the evidence of /repo
        known = [k for k in load_known() if k.get("property") == self.pid and k.get("status", "known") == "known"]
        kset = {(k["rule"], k["construct"]): k for k in known}
        new, old = [], []
        seen = set()
        for v in self.violations():
            key = (v["rule"], v["construct"])
            if key in seen:
                continue
            seen.add(key)
            (old if key in kset else new).append(v)
        out = []
        for v in old:
            out.append("KNOWN-FINDING: property=%s rule=%s construct=%r at %s -- %s" % (
                self.pid, v["rule"], v["construct"], v["loc"], kset[(v["rule"], v["construct"])].get("what_fails", v["detail"])))
        replay_dir = os.path.join(VERIF, "evidence", "replay")
        for v in new:
            h = hashlib.sha1((v["rule"] + "|" + v["construct"]).encode()).hexdigest()[:10]
            rp = os.path.join(replay_dir, "%s-%s-%s.json" % (self.pid, v["rule"], h))
            if write:
                os.makedirs(replay_dir, exist_ok=True)
                with open(rp, "w") as f:
                    json.dump({"property": self.pid, "tier": self.tier, **v,
                               "how_to_replay": "./check %s --replay %s" % (self.pid, rp)}, f, indent=1)
            out.append("VIOLATION property=%s replay=%s" % (self.pid, rp))
            out.append("  rule=%s at %s\n  construct: %s\n  %s%s%s" % (
                v["rule"], v["loc"], v["construct"], v["detail"],
                ("\n  expected: " + v["expected"]) if "expected" in v else "",
                ("\n  found:    " + v["found"]) if "found" in v else ""))
        for e in self.errors:
            out.append("ANALYSIS-ERROR property=%s %s" % (self.pid, e))
        # a violation names a specific construct and is reported as such even if, in addition, part of the analysis broke
        code = 1 if new else (2 if self.errors else 0)
        n_inst = len(self.instances)
        distinct = len({(i["rule"], i["construct"]) for i in self.instances})
        cov = {
            "explanation": explanation,
            "evaluations": n_inst,
            "distinct_nontrivial": distinct,
            "rule": rule_text,
            "samples": self.samples[:40] or [{"rule": i["rule"], "construct": i["construct"], "loc": i["loc"]} for i in self.instances[:10]],
            "obligations": n_inst,
            "discharged": n_inst - len(self.violations()),
            "per_rule_instances": dict(sorted(self.counts.items())),
            "instance_floors": {k: {"matched": v[0], "floor": v[1]} for k, v in sorted(self.floors.items())},
            "functions_analysed": sorted(self.functions),
            "known_findings_reported": [{"rule": v["rule"], "construct": v["construct"], "loc": v["loc"]} for v in old],
            "new_violations": [{"rule": v["rule"], "construct": v["construct"], "loc": v["loc"], "detail": v["detail"]} for v in new],
            "analysis_errors": list(self.errors),
            "notes": self.notes,
        }
        cov.update(self.extra)
        if extra_cov:
            cov.update(extra_cov)
        ev = {
            "property_id": self.pid,
            "tier": self.tier,
            "seed": int(os.environ.get("VERIF_SEED", "0") or 0),
            "level": level,
            "coverage": cov,
            "assumptions": self.assumptions,
            "wall_s": round(time.time() - self.t0, 3),
            "violations": len(new),
        }
        if write:
            evdir = os.path.join(VERIF, "evidence")
            os.makedirs(evdir, exist_ok=True)
            tmp = os.path.join(evdir, ".%s.json.tmp" % self.pid)
            with open(tmp, "w") as f:
                json.dump(ev, f, indent=1, default=str)
            os.replace(tmp, os.path.join(evdir, "%s.json" % self.pid))
        if not self.quiet:
            for l in out:
                print(l)
            print("%s %s: %d rule instances (%d distinct), %d discharged, %d known finding(s), %d new violation(s), %d analysis error(s), %.2fs" % (
                self.pid, self.tier, n_inst, distinct, cov["discharged"], len(old), len(new), len(self.errors), ev["wall_s"]))
        return code


class _Part(object):
    def __init__(self, chk, label):
        self.chk, self.label = chk, label

    def __enter__(self):
        return self

    def __exit__(self, et, ev, tb):
        if et is None:
            return False
        if not issubclass(et, Exception):
            return False
        import traceback
        if issubclass(et, (NameError, UnboundLocalError)) and self.chk.errors:
            self.chk.error("%s: not evaluated, it needs a result of a part that could not be analysed (%s)" % (self.label, ev))
            return True
        tail = " / ".join(traceback.format_exception(et, ev, tb)[-3:]).replace("\n", " ")[:600]
        name = et.__name__
        if name in ("AnchorError", "ExtractError", "Unknown"):
            self.chk.error("%s: %s: %s" % (self.label, name, ev))
        else:
            self.chk.error("%s: analyser crashed: %s: %s | %s" % (self.label, name, ev, tail))
        return True
