"""C12 -- writing a model to an EPANET INP file and reading it back preserves it (writer/reader agreement)."""
import ast
import copy
import itertools
import re

from ..src import walk, calls, call_name, dotted, const, loc, unparse, norm, AnchorError, ExtractError, last_attr
from ..symx import SymExec, Opaque, State
from ..peval import Evaluator, Lin, Obj, Unknown
from .. import inpx
from ..inpx import Conv, IO, UTIL, find_convs, discriminators, placeholders, module_string, make_hook

EXPLANATION = (
    "Cross-checking the sibling implementations InpFile._write_X / _read_X: every to_si/from_si site is followed through the abstract "
    "interpreter into the file column it is printed in (writer: format string token position) or parsed from (reader: current[i]) together with "
    "the discriminating keywords / element types of its path; matched sites must be inverse conversions (same conversion class as computed by "
    "C17's partial evaluator over all flow units, same flags such as darcy_weisbach / mass units / reaction order, opposite direction); a "
    "conversion that exists on one side of a column only is reported; the reader's discriminant column must be the column the writer puts the "
    "discriminator in; lines whose conversion depends on an option parsed from the same section are written after that option; rule "
    "conditions/actions use one attribute->unit map in all six writer/reader blocks; simple-control settings and thresholds likewise; time "
    "string helpers are mutually inverse. Decides unit/field/keyword agreement of the two halves, not text precision or idempotence.")
RULE_TEXT = "one instance = one (section, column/keyword, discriminator) conversion pair, one discriminator, one ordering or one map entry"
ASSUMPTIONS = ["[REPORT], [BACKDROP], [LABELS] are outside the statement", "write guards that omit default-valued lines rely on EPANET's defaults (inventoried only)"]

SECTIONS = ["junctions", "reservoirs", "tanks", "pipes", "pumps", "valves", "emitters", "demands", "quality", "sources", "reactions", "energy"]


# ------------------------------------------------------------------ conversion classes (reuse of C17's evaluator)
def conversion_classes(repo):
    from . import c17
    fu, mu = repo.cls(UTIL, "FlowUnits"), repo.cls(UTIL, "MassUnits")
    flow = {n: c17.fold(v) for n, v, _ in c17.enum_members(fu)}
    mass = {n: float(c17.fold(v)[1]) for n, v, _ in c17.enum_members(mu)}
    trad, _ = c17.membership_list(repo, "is_traditional")
    metric, _ = c17.membership_list(repo, "is_metric")
    hyd = [m[0] for m in c17.enum_members(repo.cls(UTIL, "HydParam"))]
    qual = [m[0] for m in c17.enum_members(repo.cls(UTIL, "QualParam"))]

    def unit_obj(n):
        return Obj("FlowUnits." + n, {"factor": float(flow[n][1]), "is_traditional": n in trad, "is_metric": n in metric, "name": n})

    def class_attr(d):
        p = d.split(".")
        if len(p) == 2 and p[0] in ("HydParam", "QualParam", "FlowUnits", "MassUnits"):
            if p[0] == "FlowUnits":
                return unit_obj(p[1])
            if p[0] == "MassUnits":
                return Obj(d, {"factor": mass[p[1]]})
            return Obj(d, {})
        raise Unknown(d)

    def hook(name, n, ev):
        if name == "isinstance":
            v = ev.ev(n.args[0])
            if isinstance(v, Lin):
                return False
        return NotImplemented
    out = {}
    fh, fq = repo.func(UTIL, "HydParam._to_si"), repo.func(UTIL, "QualParam._to_si")
    for p in hyd:
        sig = []
        for u in sorted(flow):
            for dw in (False, True):
                ev = Evaluator({"self": Obj("HydParam." + p, {}), "flow_units": unit_obj(u), "data": Lin(1.0, 0.0), "darcy_weisbach": dw}, class_attr, hook)
                r = ev.run(fh.body)
                sig.append(round(r.k, 15) if isinstance(r, Lin) else None)
        out["HydParam." + p] = tuple(sig)
    for p in qual:
        sig = []
        for u in sorted(flow):
            for m in sorted(mass):
                for o in (0, 1, 2):
                    ev = Evaluator({"self": Obj("QualParam." + p, {}), "flow_units": unit_obj(u), "data": Lin(1.0, 0.0), "mass_units": Obj("MassUnits." + m, {"factor": mass[m]}), "reaction_order": o}, class_attr, hook)
                    r = ev.run(fq.body)
                    sig.append(round(r.k, 18) if isinstance(r, Lin) else None)
        out["QualParam." + p] = tuple(sig)
    return out


PARAM_ALIAS = {"BulkReactionCoeff": "QualParam.BulkReactionCoeff", "WallReactionCoeff": "QualParam.WallReactionCoeff"}


def pclass(classes, param):
    return classes.get(PARAM_ALIAS.get(param, param))


# ------------------------------------------------------------------ row extraction
def file_columns(fmt):
    """placeholder (name or auto index) -> whitespace token position in the line; plus literal keyword tokens."""
    try:
        list(placeholders(fmt))
    except ValueError:
        return None, set()
    cols = {}
    lits = set()
    auto = 0
    for i, tok in enumerate(fmt.split()):
        m = re.findall(r"\{([^{}:!]*)[^{}]*\}", tok)
        if m:
            for f in m:
                if f == "":
                    cols[auto] = i
                    auto += 1
                elif f.isdigit():
                    cols[int(f)] = i
                else:
                    cols[f] = i
        elif re.fullmatch(r"[A-Za-z][A-Za-z_\-]*", tok):
            lits.add(tok.upper())
    return cols, lits


class Row(object):
    def __init__(self, section, side, conv, col, clauses, neg, where, sink=None, plain=None):
        self.section, self.side, self.conv, self.col, self.where, self.sink, self.plain = section, side, conv, col, where, sink, plain
        self.clauses = frozenset(frozenset(c) for c in clauses)
        self.neg = frozenset(neg)
        self.disc = frozenset(t for c in self.clauses for t in c)

    def key(self):
        return (self.section, self.side, repr(self.conv) if self.conv else self.plain, self.col, self.clauses)

    def slotkey(self):
        return (repr(self.conv) if self.conv else self.plain, self.col)


def compatible(a, b):
    for x, y in ((a, b), (b, a)):
        for c in x.clauses:
            if c <= y.neg:
                return False                       # x requires a keyword that y's path excluded
            if y.clauses and not any(c & d for d in y.clauses):
                return False                       # x requires a keyword y's path does not have
    return True


def same_slot(w, r):
    if w.col is not None and r.col is not None:
        return w.col == r.col
    return bool(w.disc & r.disc)          # keyword-addressed fields (e.g. pump HEAD/POWER/SPEED pairs)


def drop_shadowed(rows):
    """a row without positive discriminator is dropped when the same (conversion, column) also occurs with one (else-of-everything paths)."""
    keyed = {}
    for r in rows:
        keyed.setdefault(r.slotkey(), []).append(r)
    out = []
    for k, rs in keyed.items():
        pos = [r for r in rs if r.clauses]
        out.extend(pos if pos else rs)
    return out


def writer_rows(repo, section, qual=None):
    fn, outs, ex = run_paths(repo, qual or ("InpFile._write_" + section))
    rows = {}
    for o in outs:
        d, neg = discriminators(o.conds)
        for e in o.events:
            if e[0] != "format":
                continue
            args, kw = e[2]
            fmt = e[1]
            if fmt and "{" not in fmt:
                fmt = module_string(repo, fmt) or fmt
            cols, lits = file_columns(fmt) if fmt and "{" in fmt else (None, set())
            strs = {a.upper() for a in args if isinstance(a, str) and re.fullmatch(r"[A-Za-z][A-Za-z_\-]*", a)}
            items = [(i, a) for i, a in enumerate(args)] + list(kw.items())
            cl = list(d) + [frozenset([x]) for x in sorted(lits | strs)]
            for k, v in items:
                col = cols.get(k) if cols else (k if isinstance(k, int) else None)
                for c, path in find_convs(v):
                    r = Row(section, "w", c, col, cl, neg, loc(IO, fn) + ":%d" % c.lineno)
                    rows[r.key()] = r
                if not list(find_convs(v)) and col is not None and isinstance(v, Opaque) and v.text not in ("<formatted>",) and re.search(r"\.\w+$", v.text):
                    r = Row(section, "w", None, col, cl, neg, loc(IO, fn), plain=v.text)
                    rows[r.key()] = r
    return fn, drop_shadowed(list(rows.values()))


class CompExec(SymExec):
    """SymExec with two summaries that make the form of a dispatch / collection irrelevant:
    * a list comprehension with one generator whose element converts units is summarised like a loop body executed once: [element];
    * `if x in TABLE:` for an undecided x and a dict TABLE with string keys splits into one path per key (recorded as the condition
      `x == 'key'`), and TABLE[x] on such a path is the entry of that key -- a lookup table behaves like the if/elif chain it replaces."""

    def e_ListComp(self, n, st):
        if len(n.generators) == 1 and not n.generators[0].ifs and any(isinstance(c, ast.Call) and call_name(c) in ("to_si", "from_si") for c in ast.walk(n.elt)):
            sub = st.fork()
            self.bind_loop_target(n.generators[0].target, sub)
            return [self.ev(n.elt, sub)]
        return SymExec.e_ListComp(self, n, st)

    def branch(self, test, body, orelse, st):
        if isinstance(test, ast.Compare) and len(test.ops) == 1 and isinstance(test.ops[0], ast.In) and isinstance(test.comparators[0], ast.Name) \
                and isinstance(st.env.get(test.comparators[0].id), dict):
            table = st.env[test.comparators[0].id]
            left = self.ev(test.left, st)
            if isinstance(left, Opaque) and table and all(isinstance(k, str) for k in table):
                outs = []
                for k in table:
                    s2 = st.fork()
                    s2.conds.append(("%s == %r" % (left.text, k), True))
                    outs.extend(self.block(body, [s2]))
                st.conds.append(("%s in %r" % (left.text, tuple(table)), False))
                return outs + self.block(orelse, [st])
        return SymExec.branch(self, test, body, orelse, st)

    def e_Subscript(self, n, st):
        if isinstance(n.value, ast.Name) and isinstance(st.env.get(n.value.id), dict):
            table, key = st.env[n.value.id], self.ev(n.slice, st)
            if isinstance(key, Opaque):
                for t, v in reversed(st.conds):
                    m = re.fullmatch(re.escape(key.text) + r" == '([^']*)'", t)
                    if v and m and m.group(1) in table:
                        return table[m.group(1)]
        return SymExec.e_Subscript(self, n, st)


def run_paths(repo, qual, env=None, hook_extra=None, body=None):
    """symbolically execute InpFile.<qual> (or a given statement list) -> (fn, states, executor)."""
    fn = repo.func(IO, qual) if isinstance(qual, str) else qual
    ex = CompExec(call_hook=make_hook(hook_extra))
    e = {a.arg: Opaque(a.arg) for a in fn.args.args}
    e.update(env or {})
    return fn, ex.block(body if body is not None else fn.body, [State(e)]), ex


def reader_line_body(fn):
    """the reader's per-line loop: -> (loop, statements before it, name of the variable holding the split line, statements of the body after
    that variable is bound and the empty-line test).  The variable is recognised by what it is bound to (`<text>.split()`), not by its name."""
    loops = [n for n in fn.body if isinstance(n, ast.For)]
    if not loops:
        raise ExtractError("%s: no per-line loop" % fn.name)
    lp = loops[0]
    body = list(lp.body)
    tok, k = None, 0
    for i, s in enumerate(body):
        if isinstance(s, ast.Assign) and len(s.targets) == 1 and isinstance(s.targets[0], ast.Name) and isinstance(s.value, ast.Call) \
                and isinstance(s.value.func, ast.Attribute) and s.value.func.attr == "split" and not s.value.args and not s.value.keywords:
            tok, k = s.targets[0].id, i + 1
    if tok is None:
        # the split line is the loop variable itself (for lnum, current in <helper>(...)) or not split at top level
        tok = "current"
    # the empty-line guard: an `if` on the token list whose body only continues
    if k < len(body) and isinstance(body[k], ast.If) and not body[k].orelse and all(isinstance(x, ast.Continue) for x in body[k].body) \
            and tok in {x.id for x in ast.walk(body[k].test) if isinstance(x, ast.Name)}:
        k += 1
    pre = [s for s in fn.body if s.lineno < lp.lineno]
    return lp, pre, tok, body[k:]


def reader_paths(repo, section, qual=None, fn=None):
    """abstract execution of the per-line loop body of InpFile._read_<section> with the split line bound to `current` -> (fn, path states)"""
    rf = fn or repo.func(IO, qual or ("InpFile._read_" + section))
    lp, pre, tok, body = reader_line_body(rf)
    ex = CompExec(call_hook=make_hook())
    st = State({"self": Opaque("self"), "line": Opaque("line"), "lnum": Opaque("lnum")})
    st0 = ex.block(pre, [st])[0]
    st0.env[tok] = Opaque("current")          # canonical name of the split line in every text derived from it
    st0.done = False
    return rf, ex.block(body, [st0])


def reader_rows(repo, section, qual=None, fn=None):
    rf, outs = reader_paths(repo, section, qual, fn)
    rows = {}
    for o in outs:
        d, neg = discriminators(o.conds)
        for e in o.events:
            vals = []
            if e[0] == "call":
                nm, args, kw = e[2]
                vals = [(e[1].split("(")[0], (i,), a) for i, a in enumerate(args)] + [(e[1].split("(")[0], (k,), a) for k, a in kw.items()]
            elif e[0] == "store":
                vals = [(e[1], (), e[2])]
            for sink, p0, v in vals:
                for c, path in find_convs(v):
                    r = Row(section, "r", c, c.column(), d, neg, loc(IO, rf) + ":%d" % c.lineno, sink="%s%s" % (sink, list(p0 + path)))
                    rows[r.key()] = r
    return rf, drop_shadowed(list(rows.values()))


def inverse(classes, w, r):
    """-> (ok, reason)"""
    cw, cr = w.conv, r.conv
    if cw.direction == cr.direction:
        return False, "both sides convert in the same direction (%s)" % cw.direction
    a, b = pclass(classes, cw.param), pclass(classes, cr.param)
    if a is None or b is None:
        return False, "unknown parameter %s / %s" % (cw.param, cr.param)
    if a != b:
        return False, "different conversion classes: writer %s, reader %s" % (cw.param, cr.param)
    if cw.flags != cr.flags:
        return False, "different flags: writer %s, reader %s" % (cw.flags, cr.flags)
    return True, ""


# ------------------------------------------------------------------ simple controls: whole-function facts
def inline_table(repo, fn, clsname=None):
    """callees the abstract execution of fn steps into: the defs nested in fn and (clsname given) the methods of that class that fn
    calls through self -- so it does not matter whether a sub-computation is written in place, as a closure or as a private method."""
    tab = {n.name: n for n in ast.walk(fn) if isinstance(n, ast.FunctionDef) and n is not fn}
    if clsname:
        meths = {m.name: m for m in repo.cls(IO, clsname).body if isinstance(m, ast.FunctionDef)}
        for c in ast.walk(fn):
            if isinstance(c, ast.Call) and isinstance(c.func, ast.Attribute) and isinstance(c.func.value, ast.Name) and c.func.value.id == "self" and meths.get(c.func.attr) not in (None, fn):
                m = meths[c.func.attr]
                if any(isinstance(d, ast.Name) and d.id == "staticmethod" for d in m.decorator_list):
                    tab["self." + m.name] = m
                    continue
                cc = copy.copy(m)
                cc.args = copy.copy(m.args)
                cc.args.args = list(m.args.args[1:])
                tab["self." + m.name] = cc
    return tab


def _isinstance_class(t):
    m = re.search(r"isinstance\(.*,\s*\(?([\w\.]+)\)?\)$", t)
    return m.group(1).split(".")[-1] if m else None


def controls_writer_facts(repo, wctl, vts):
    """-> (valve type -> set of conversion params (None = unconverted) the writer prints in file column 2 for a `setting` action,
           node class -> set of params printed in file column 7 (threshold))"""
    wmap, thr = {}, {}
    inl = inline_table(repo, wctl, "InpFile")
    for vt in vts:
        def ah(base, attr, st, vt=vt):
            if isinstance(base, Opaque) and attr == "valve_type":
                return vt
            if isinstance(base, Opaque) and attr == "_attribute":
                return "setting"
            return NotImplemented
        ex = SymExec(call_hook=make_hook(), attr_hook=ah, inline=inl, test_hook=lambda t, n, s: True if ("isinstance(" in t and _isinstance_class(t) == "Valve") else None)
        res = set()
        for o in ex.run(wctl):
            if o.raised:
                continue
            for e in o.events:
                if e[0] != "format" or not isinstance(e[1], str) or "{" not in e[1]:
                    continue
                cols, _ = file_columns(e[1])
                if not cols:
                    continue
                args, kw = e[2]
                for k, v in [(i, a) for i, a in enumerate(args)] + list(kw.items()):
                    cs = [c.param for c, _ in find_convs(v)]
                    if cols.get(k) == 2:
                        res.add(cs[0] if cs else None)
                    elif cols.get(k) == 7:
                        for t, val in o.conds:
                            if val and "isinstance(" in t and "_source_obj" in t and _isinstance_class(t):
                                thr.setdefault(_isinstance_class(t), set()).add(cs[0] if cs else None)
        if not res:
            raise ExtractError("_write_controls: no line with a value in the setting column (2) found for a %s" % vt)
        wmap[vt] = res
    return wmap, thr


def controls_reader_facts(repo, rctl, vts):
    """-> (valve type -> set of params the `setting` of the ControlAction is converted with (None = unconverted),
           node type -> set of (attribute, param, column) of the conditional control's threshold, {'setting': columns converted})"""
    rmap, thr, cols = {}, {}, {"setting": set()}

    def th(t, n, s):
        if re.search(r"'(OPEN|OPENED|CLOSED|ACTIVE)'", t):
            return False                      # the action is a numeric setting, not a status keyword
        if "isinstance(" in t and _isinstance_class(t) == "Pump":
            return False
        if "isinstance(" in t and _isinstance_class(t) == "Valve":
            return True
        return None
    for vt in vts:
        def ah(base, attr, st, vt=vt):
            if isinstance(base, Opaque) and attr == "valve_type":
                return vt
            return NotImplemented
        ex = SymExec(call_hook=make_hook(), attr_hook=ah, test_hook=th, inline=inline_table(repo, rctl))
        res = set()
        for o in ex.run(rctl):
            if o.raised:
                continue
            for e in o.events:
                if e[0] != "call":
                    continue
                nm, args, kw = e[2]
                last = (nm or "").split(".")[-1]
                if last == "ControlAction" and len(args) >= 3 and args[1] == "setting":
                    cs = [c for c, _ in find_convs(args[2])]
                    res.add(cs[0].param if cs else None)
                    if cs:
                        cols["setting"].add(cs[0].column())
                elif last == "_conditional_control" and len(args) >= 4 and isinstance(args[1], str):
                    cs = [c for c, _ in find_convs(args[3])]
                    nts = {x for t, v in o.conds if v and "node_type" in t for x in re.findall(r"'(\w+)'", t)}
                    for nt in nts:
                        thr.setdefault(nt, set()).add((args[1], cs[0].param if cs else None, cs[0].column() if cs else None))
        if not res:
            raise ExtractError("_read_control_line: no ControlAction(..., 'setting', value) found for a %s" % vt)
        rmap[vt] = res
    return rmap, thr, cols


# ------------------------------------------------------------------ version differential
def _exec_with(repo, fn, env, test_hook=None, max_paths=40000):
    ex = SymExec(call_hook=make_hook(), test_hook=test_hook, inline=inline_table(repo, fn, "InpFile"))
    ex.MAX_PATHS = max_paths
    e = {a.arg: Opaque(a.arg) for a in fn.args.args}
    for k in env:
        if k not in e:
            raise AnchorError("%s has no parameter %r" % (fn.name, k))
    e.update(env)
    return [o for o in ex.block(fn.body, [State(e)]) if not o.raised]


def _line_events(repo, o):
    """(format string, {file column -> value}) of every formatted line on a path"""
    for e in o.events:
        if e[0] != "format" or not e[1]:
            continue
        fmt = e[1]
        if "{" not in fmt:
            fmt = module_string(repo, fmt) or fmt
        if not isinstance(fmt, str) or "{" not in fmt:
            continue
        cols, _ = file_columns(fmt)
        if cols is None:
            continue
        args, kw = e[2]
        yield fmt, args, {cols[k]: v for k, v in list(enumerate(args)) + list(kw.items()) if k in cols}


def option_lines(repo, wo, version):
    """[(keyword, format arguments)] of the [OPTIONS] lines _write_options can write for the given INP version (keyword = first format
    argument or leading literal of the format string), over all paths"""
    out = []
    for o in _exec_with(repo, wo, {"version": version}):
        for fmt, args, vals in _line_events(repo, o):
            lab = args[0] if args and isinstance(args[0], str) else None
            if lab is None:
                m = re.match(r"\s*([A-Za-z][A-Za-z ]*[A-Za-z])\s", fmt)
                lab = m.group(1) if m else None
            if lab and re.fullmatch(r"[A-Za-z][A-Za-z ]*", lab.strip()):
                out.append((lab.strip().upper(), args))
    return out


def option_reader_convs(repo, ro):
    """option attribute -> {(direction, param, index of the converted token, keywords true on the path)} for every converted value _read_options stores"""
    fn, outs, ex = run_paths(repo, ro)
    res = {}
    for o in outs:
        if o.raised:
            continue
        d, neg = discriminators(o.conds)
        toks = frozenset(t for c in d for t in c)
        for e in o.events:
            if e[0] == "store":
                for c, p in find_convs(e[2]):
                    res.setdefault(e[1].split(".")[-1], set()).add((c.direction, c.param, c.value.key if isinstance(c.value, Opaque) else None, toks))
    return res


def tank_lines(repo, wt, version):
    """[(value in the curve column 7, value in the overflow column 8)] over the paths of _write_tanks for a tank that HAS a volume curve"""
    def th(t, n, s):
        m = re.fullmatch(r"(\S*vol_curve(?:_name)?)( is not None| is None)?", t)
        if m:
            return m.group(2) != " is None"
        return None
    out = []
    for o in _exec_with(repo, wt, {"version": version}, th):
        for fmt, args, vals in _line_events(repo, o):
            if isinstance(vals.get(0), str) and vals[0].lstrip().startswith(";"):
                continue                                  # column header
            if 7 in vals:
                out.append((vals.get(7), vals.get(8)))
    if not out:
        raise ExtractError("_write_tanks: no data line with a curve column found (version %s)" % version)
    return out


# ------------------------------------------------------------------ concrete run of a section writer on a mock model
class _Mock(object):
    _sa_mock = True

    def __init__(self, **kw):
        self.__dict__.update(kw)


class _MockFile(_Mock):
    def __init__(self):
        self.chunks = []

    def write(self, b):
        self.chunks.append(b.decode("utf-8") if isinstance(b, bytes) else str(b))


def concrete_demand_lines(repo, ndem, cat):
    """the [DEMANDS] data lines InpFile._write_demands writes for a junction 'J1' with ndem demands, the first of category cat"""
    from ..concrete import World, Namespace, stdlib_overrides, ProgramError
    ov, _state = stdlib_overrides()
    ov["sys"] = Namespace("sys", getdefaultencoding=lambda: "utf-8", version_info=(3, 10), platform="linux")
    ov["wntr.epanet.util.from_si"] = lambda fu, v, p, *a, **k: v          # the unit is not the subject here
    world = World(repo, ov)
    dem = [_Mock(category=(cat if i == 0 else None), base_value=1.0 + i, pattern_name=None) for i in range(ndem)]
    junction = _Mock(demand_timeseries_list=dem, name="J1")
    wn = _Mock(junction_name_list=["J1"], pattern_name_list=[], get_node=lambda n: junction, nodes={"J1": junction})
    f = _MockFile()
    try:
        inp = world.interp.call(world.function(IO, "InpFile"), [], {})
        world.interp.call(world.interp.getattr_(inp, "_write_demands"), [f, wn], {})
    except ProgramError as e:
        raise ExtractError("_write_demands could not be run on the mock model: %s" % e)
    return [l for l in "".join(f.chunks).splitlines() if l.split() and l.split()[0] == "J1"]


def run(repo, chk):
    classes = conversion_classes(repo)
    chk.sample({"rule": "R-C12-2", "conversion classes equal to HydParam.Length": sorted(k for k, v in classes.items() if v == classes["HydParam.Length"])})
    rd, wr = repo.func(IO, "InpFile.read"), repo.func(IO, "InpFile.write")
    chk.fn(rd, wr)

    # ---------------------------------------------------------------- R-C12-1 section pairing
    reads = {last_attr(c)[6:] for c in calls(rd) if (last_attr(c) or "").startswith("_read_")}
    writes = {last_attr(c)[7:] for c in calls(wr) if (last_attr(c) or "").startswith("_write_")}
    for s in sorted(reads | writes):
        chk.expect(s in reads and s in writes, "R-C12-1", "section %s is both written by InpFile.write and read by InpFile.read" % s, loc(wr),
                   found="read=%s write=%s" % (s in reads, s in writes))
    chk.floor("R-C12-1", 25)

    # ---------------------------------------------------------------- R-C12-2 field conversion table
    matched = 0
    allrows = {}
    for sec in SECTIONS:
        wf, W = writer_rows(repo, sec)
        rf, R = reader_rows(repo, sec)
        chk.fn(wf, rf)
        allrows[sec] = (W, R)
        Wc = [w for w in W if w.conv is not None and not w.conv.vtext().startswith("point[")]
        Rc = [r for r in R if r.conv is not None and (r.col is not None or r.disc) and not r.conv.vtext().startswith("point[")]
        for w in Wc:
            if w.col is None and not w.disc:
                continue
            cands = [r for r in Rc if same_slot(w, r) and compatible(w, r)]
            if not cands:
                plain_r = True
                chk.bad("R-C12-2", "[%s] column %s %s: the reader converts back what the writer converted (%s)" % (sec.upper(), w.col, sorted(w.disc), w.conv.param), w.where,
                        "the writer prints this field in file units but the reader has no conversion for the same column / keyword: the value comes back scaled",
                        expected="a to_si/from_si on current[%s] in _read_%s" % (w.col, sec), found="writer: %r" % w.conv)
                continue
            for r in cands:
                good, why = inverse(classes, w, r)
                matched += 1
                chk.expect(good, "R-C12-2", "[%s] column %s %s: reader and writer conversions are inverse" % (sec.upper(), w.col, sorted(w.disc | r.disc)), w.where, why,
                           expected="inverse of writer %r" % w.conv, found="reader %r at %s" % (r.conv, r.where))
        for r in Rc:
            cands = [w for w in Wc if same_slot(w, r) and compatible(w, r)]
            if not cands:
                plainw = [w for w in W if w.conv is None and w.col is not None and w.col == r.col and compatible(w, r)]
                if plainw:
                    chk.bad("R-C12-2", "[%s] column %s %s: the writer converts what the reader converts (%s)" % (sec.upper(), r.col, sorted(r.disc), r.conv.param), r.where,
                            "the reader converts this column from file units but the writer prints the SI value unconverted", expected="from_si in _write_%s" % sec, found="writer prints %s" % plainw[0].plain)
                else:
                    chk.note("[%s] reader conversion %r (column %s, %s) has no writer counterpart (field not written)" % (sec.upper(), r.conv, r.col, sorted(r.disc)))
    chk.floor("R-C12-2", 30, count=matched)

    # curves: writer by curve type, readers via add_curve(name, TYPE, points); a point coordinate is identified by its index in the
    # (x, y) pair, whatever the loop variable is called and whether the points are collected by a loop or a comprehension
    def coord(v):
        v = v.value if isinstance(v, Conv) else v
        return v.key if isinstance(v, Opaque) and isinstance(v.key, int) and not isinstance(v.key, bool) else None
    wf, W = writer_rows(repo, "curves")
    wcur = {}
    for w in W:
        if w.conv is not None and coord(w.conv) is not None:
            t = [x for x in w.disc if x in ("VOLUME", "HEAD", "EFFICIENCY", "HEADLOSS")]
            if t:
                wcur[(t[0], "point[%d]" % coord(w.conv))] = w
    rcur = {}
    for qual in ("InpFile._read_tanks", "InpFile._read_pumps", "InpFile._read_valves", "InpFile._read_energy"):
        fn = repo.func(IO, qual)
        chk.fn(fn)
        states = list(reader_paths(repo, None, fn=fn)[1])
        for sub in [n for n in ast.walk(fn) if isinstance(n, ast.FunctionDef) and n is not fn]:      # e.g. the create_curve closure of _read_pumps
            states += CompExec(call_hook=make_hook()).run(sub)
        for o in states:
            for e in o.events:
                if e[0] != "call" or (e[2][0] or "").split(".")[-1] != "add_curve" or len(e[2][1]) < 3 or not isinstance(e[2][1][1], str):
                    continue
                ctype, pts = e[2][1][1], e[2][1][2]
                for pt in (pts if isinstance(pts, list) else []):
                    for v in (pt if isinstance(pt, (tuple, list)) else []):
                        if coord(v) is not None:
                            if isinstance(v, Conv):
                                rcur[(ctype, "point[%d]" % coord(v))] = v
                            else:
                                rcur.setdefault((ctype, "point[%d]" % coord(v)), None)
    for (ctype, pt), w in sorted(wcur.items()):
        r = rcur.get((ctype, pt))
        if r is None:
            chk.bad("R-C12-2", "[CURVES] %s curve %s: the reader converts back what the writer converted" % (ctype, pt), w.where, found="writer %r, reader %s" % (w.conv, "none" if (ctype, pt) not in rcur else "unconverted"))
        else:
            good, why = inverse(classes, w, Row("curves", "r", r, None, [], [], ""))
            chk.expect(good, "R-C12-2", "[CURVES] %s curve %s: reader and writer conversions are inverse" % (ctype, pt), w.where, why, expected="inverse of %r" % w.conv, found=repr(r))
    for (ctype, pt), r in sorted(rcur.items(), key=str):
        if r is not None and (ctype, pt) not in wcur:
            chk.bad("R-C12-2", "[CURVES] %s curve %s: the writer converts what the reader converts" % (ctype, pt), "%s:%d" % (IO, r.lineno), found="reader %r, writer unconverted" % r)
    chk.expect(len(wcur) >= 7, "R-C12-2", "curve conversions located for VOLUME, HEAD, EFFICIENCY, HEADLOSS", loc(wf), found=sorted(wcur))

    # ---------------------------------------------------------------- R-C12-3 discriminators
    # the reader's discriminant column is the column the writer prints the discriminator in
    for sec, disc_attr, tokens in (("sources", "source_type", {"MASS"}), ("valves", "valve_type", {"PRV", "FCV", "TCV", "GPV"})):
        wf = repo.func(IO, "InpFile._write_" + sec)
        rf = repo.func(IO, "InpFile._read_" + sec)
        W, R = allrows[sec]
        wcol = None
        fn_, outs, ex = run_paths(repo, "InpFile._write_" + sec)
        for o in outs:
            for e in o.events:
                if e[0] == "format":
                    args, kw = e[2]
                    fmt = e[1]
                    if fmt and "{" not in fmt:
                        fmt = module_string(repo, fmt) or fmt
                    cols, _ = file_columns(fmt) if fmt and "{" in fmt else (None, set())
                    for k, v in [(i, a) for i, a in enumerate(args)] + list(kw.items()):
                        if isinstance(v, Opaque) and v.text.endswith("." + disc_attr):
                            wcol = cols.get(k) if cols else k
        # the reader's tests as the path conditions of its abstract execution (locals are substituted by what they hold): the column(s)
        # of `current` that are compared with the type keywords
        rcols = set()
        for o in reader_paths(repo, sec)[1]:
            for t, v in o.conds:
                if {x.upper() for x in re.findall(r"'([A-Za-z]+)'", t)} & tokens:
                    rcols.update(int(x) for x in re.findall(r"current\[(\d+)\]", t))
        chk.expect(wcol is not None and rcols == {wcol}, "R-C12-3", "[%s] the reader selects the conversion by the column the writer prints the %s in" % (sec.upper(), disc_attr), loc(rf),
                   "testing another column (e.g. the node name) for the type keyword applies the wrong unit conversion", expected="column %s" % wcol, found="column(s) %s" % sorted(rcols))
    # quality parameter discriminator is an option on both sides (path conditions of the abstract execution of both)
    for side, q, outs_ in (("write", "InpFile._write_quality", run_paths(repo, "InpFile._write_quality")[1]), ("read", "InpFile._read_quality", reader_paths(repo, "quality")[1])):
        f = repo.func(IO, q)
        toks = {x.upper() for o in outs_ for t, v in o.conds if "options.quality.parameter" in t for x in re.findall(r"'([A-Za-z]+)'", t)}
        chk.expect({"CHEMICAL", "AGE"} <= toks, "R-C12-3", "[QUALITY] %s selects the unit by options.quality.parameter" % side, loc(f), found=sorted(toks))

    # ---------------------------------------------------------------- R-C12-4 order dependence
    rf = repo.func(IO, "InpFile._read_reactions")
    wf = repo.func(IO, "InpFile._write_reactions")
    W, R = allrows["reactions"]
    needs = set()
    for r in R:
        for k, v in r.conv.flags.items():
            m = re.search(r"options\.reaction\.(\w+_order)", v)
            if m:
                needs.add(m.group(1))
    # on every path of the writer, in the order the lines are written: the ORDER lines announced so far when a coefficient line is written
    announced_any = set()
    coeff = {}      # (keyword, order) -> [ok on every path, line]
    for o in run_paths(repo, wf)[1]:
        if o.raised:
            continue
        announced = set()
        for e in o.events:
            if e[0] != "format":
                continue
            args, kw = e[2]
            vals = list(args) + list(kw.values())
            strs = [a_ for a_ in vals if isinstance(a_, str)]
            if "ORDER" in [x.upper() for x in strs]:
                for a_ in vals:
                    m = re.search(r"options\.reaction\.(\w+_order)$", a_.text) if isinstance(a_, Opaque) else None
                    if m:
                        announced.add(m.group(1))
                        announced_any.add(m.group(1))
                continue
            for c, p_ in find_convs(vals):
                m = re.search(r"options\.reaction\.(\w+_order)", c.flags.get("reaction_order", ""))
                if m:
                    ent = coeff.setdefault((strs[0] if strs else "?", m.group(1)), [True, c.lineno])
                    ent[0] = ent[0] and m.group(1) in announced
    for (kw, order), (ok_, ln) in sorted(coeff.items()):
        chk.expect(ok_, "R-C12-4", "[REACTIONS] the %s line is written after the ORDER line its conversion depends on (%s)" % (kw, order), "%s:%d" % (IO, ln),
                   "the reader converts each coefficient with the reaction order it has parsed SO FAR; a coefficient written before its ORDER line is read back with the default order",
                   expected="ORDER %s line first" % order, found="a path writes the %s coefficient before (or without) the ORDER line of %s" % (kw, order))
    chk.floor("R-C12-4", 4)
    chk.expect(needs <= announced_any, "R-C12-4", "[REACTIONS] every order the reader's conversions depend on is written", loc(wf), found=(sorted(needs), sorted(announced_any)))

    # ---------------------------------------------------------------- controls
    # Whole-function abstract execution of the writer and of the reader (helpers the setting / threshold is computed in -- a nested def,
    # a method reached through self -- are stepped into); the facts compared are WHERE a converted value lands: the writer's value for
    # the placeholder in file column 2 / 7 of a [CONTROLS] line, the reader's ControlAction(..., 'setting', v) / threshold argument.
    wctl = repo.func(IO, "InpFile._write_controls")
    rctl = repo.func(IO, "_read_control_line")
    chk.fn(wctl, rctl)
    VTS = ("PRV", "PSV", "PBV", "FCV", "TCV", "GPV")
    wmap, th_w = controls_writer_facts(repo, wctl, VTS)
    rmap, th_r, rcols = controls_reader_facts(repo, rctl, VTS)

    def pcs(ps):
        return {pclass(classes, p) if p else None for p in ps}
    for vt in VTS:
        chk.expect(len(wmap[vt]) == 1 and len(rmap[vt]) == 1 and pcs(wmap[vt]) == pcs(rmap[vt]), "R-C12-2", "[CONTROLS] %s setting: writer and reader use the same unit class" % vt, loc(rctl),
                   expected="writer %s" % sorted(map(str, wmap[vt])), found="reader %s" % sorted(map(str, rmap[vt])))
    chk.expect(rcols["setting"] <= {2}, "R-C12-2", "[CONTROLS] the reader converts the setting it finds in the column the writer prints it in (column 2)", loc(rctl), found=sorted(rcols["setting"], key=str))
    # thresholds
    for nt in ("Tank", "Junction"):
        w_, r_ = th_w.get(nt, set()), {p for a_, p, c_ in th_r.get(nt, set())}
        chk.expect(len(w_) == 1 and len(r_) == 1 and None not in w_ and pcs(w_) == pcs(r_) and {c_ for a_, p, c_ in th_r[nt]} == {7}, "R-C12-2",
                   "[CONTROLS] %s threshold: writer and reader use the same unit class (column 7)" % nt, loc(rctl),
                   expected=sorted(map(str, w_)), found=sorted(map(str, th_r.get(nt, set()))))
    attr_r = {nt: sorted({a_ for a_, p, c_ in v}) for nt, v in th_r.items()}
    chk.expect(attr_r == {"Junction": ["pressure"], "Tank": ["level"]}, "R-C12-2", "[CONTROLS] junction thresholds are pressures, tank thresholds are levels", loc(rctl), found=attr_r)
    # (the time token of simple time controls is decided by R-C12-8: finite evaluation of writer and reader, any text format accepted)

    # ---------------------------------------------------------------- rules: six sibling attribute -> unit maps
    rule = repo.cls(IO, "_EpanetRule")
    meths = repo.methods(rule)
    ATTRS = ["demand", "head", "level", "flow", "pressure", "setting", "status"]
    RVTS = ("PRV", "PSV", "PBV", "FCV", "TCV", "GPV")
    maps = {}

    def eval_block(fn, stmts, env, test_hook, sinks):
        """attribute (and, for `setting`, kind of link / valve type) -> conversion of the value that reaches a sink: the arguments of a
        `.format` call (writer: sinks=None) or of a constructor call named in `sinks` (reader).  The attribute is injected where the code
        reads it (the action's / condition's attribute field, the 4th token of a clause), the valve type where it reads valve_type;
        names of locals, the form of the dispatch and the place of the code (in line / helper) do not matter."""
        out = {}
        for a, vt in [(a, None) for a in ATTRS if a != "setting"] + [("setting", v) for v in RVTS]:
            def ah(base, attr, st, a=a, vt=vt):
                if isinstance(base, Opaque) and attr in ("_source_attr", "_attribute"):
                    return a
                if isinstance(base, Opaque) and attr == "valve_type" and vt is not None:
                    return vt
                return NotImplemented

            def ch(name, node, args, kwargs, st, ex, recv, a=a):
                meth = node.func.attr if isinstance(node.func, ast.Attribute) else None
                if meth == "lower" and isinstance(recv, Opaque) and recv.key == 3:
                    return a                       # clause grammar: CONJ TYPE ID ATTRIBUTE ... -- the 4th token is the attribute
                if meth == "upper" and isinstance(recv, Opaque):
                    return recv
                if name and name.endswith("_parse_value"):
                    return args[0]
                if name and name.endswith("_repr_value"):
                    return Opaque("val_si")
                return NotImplemented
            ex = SymExec(call_hook=make_hook(ch), attr_hook=ah, test_hook=test_hook, inline=inline_table(repo, fn))
            st = State(dict(env))
            res = out.setdefault(a, set())
            for o in ex.block(stmts, [st]):
                if o.raised:
                    continue
                conv, sunk = None, False
                for e in o.events:
                    if sinks is None and e[0] == "format":
                        sunk = True
                        for c, p in find_convs(e[2][0]):
                            conv = c
                    elif sinks is not None and e[0] == "call" and (e[2][0] or "").split(".")[-1] in sinks:
                        sunk = True
                        for c, p in find_convs(e[2][1]):
                            conv = c
                if not sunk:
                    continue
                isvalve = [vv for t, vv in o.conds if "isinstance(" in t and _isinstance_class(t) == "Valve"]
                ispump = [vv for t, vv in o.conds if "isinstance(" in t and _isinstance_class(t) == "Pump"]
                kind = vt if (isvalve and isvalve[-1]) else ("pump" if (ispump and ispump[-1]) else "other")
                if a != "setting":
                    kind = ""
                res.add((kind, pclass(classes, conv.param) and conv.param.split(".")[-1] if conv else None, conv.direction if conv else None))
        return out

    def norm_map(m):
        """collapse to (attr, kind) -> class name; entries without conversion are left out."""
        out = {}
        for a, res in m.items():
            for kind, p, direction in res:
                if p is None:
                    continue
                out[(a, kind)] = classes_name(p)
        return out

    def classes_name(p):
        c = pclass(classes, "HydParam." + p)
        for k, v in sorted(classes.items()):
            if v == c:
                return k
        return p
    # writer blocks
    def th_w(t, n, s):
        c = _isinstance_class(t) if "isinstance(" in t else None
        if c in ("ValueCondition", "ControlAction"):
            return True
        if c in ("OrCondition", "AndCondition", "TimeOfDayCondition", "SimTimeCondition"):
            return False
        return None
    for mname in ("add_control_condition", "add_action_on_true", "add_action_on_false"):
        fn = meths[mname]
        chk.fn(fn)
        m = eval_block(fn, fn.body, {a.arg: Opaque(a.arg) for a in fn.args.args}, th_w, None)
        maps["write:" + mname] = norm_map(m)
        dirs = {x[2] for res in m.values() for x in res if x[2]}
        chk.expect(dirs == {"from_si"}, "R-C12-2", "[RULES] %s converts SI values to file units" % mname, loc(fn), found=sorted(dirs))
    gen = meths["generate_control"]
    chk.fn(gen)

    def clause_block(kind):
        """the statements generate_control executes once per clause of the given kind (the body of the loop -- or the element of the
        comprehension -- that iterates over self._<kind>_clauses), with the iteration variable(s)."""
        key = "_%s_clauses" % kind
        for n in walk(gen):
            if isinstance(n, ast.For) and key in unparse(n.iter):
                return n, n.target, list(n.body)
        for n in walk(gen):
            if isinstance(n, (ast.ListComp, ast.GeneratorExp)) and len(n.generators) == 1 and key in unparse(n.generators[0].iter):
                elt = n.elt
                # an element that is a call of a sibling method: continue in that method's body
                if isinstance(elt, ast.Call) and isinstance(elt.func, ast.Attribute) and isinstance(elt.func.value, ast.Name) and elt.func.value.id in ("self", "cls") \
                        and elt.func.attr in meths and not elt.keywords:
                    callee = meths[elt.func.attr]
                    params = [a.arg for a in callee.args.args][1:]
                    if len(params) == len(elt.args):
                        pre = [ast.Assign(targets=[ast.Name(id=p_, ctx=ast.Store())], value=a_) for p_, a_ in zip(params, elt.args) if not (isinstance(a_, ast.Name) and a_.id == p_)]
                        for x in pre:
                            ast.copy_location(x, elt)
                            ast.fix_missing_locations(x)
                        return n, n.generators[0].target, pre + list(callee.body)
                st_ = ast.Expr(value=elt)
                ast.copy_location(st_, elt)
                return n, n.generators[0].target, [st_]
        raise AnchorError("generate_control: no iteration over self.%s found" % key)
    for nm, sinks in (("if", ("ValueCondition",)), ("then", ("ControlAction",)), ("else", ("ControlAction",))):
        lp, tgt, body = clause_block(nm)
        th = (lambda t, n, s: (False if "'SYSTEM'" in t else None))
        env = {"self": Opaque("self")}
        for x in ast.walk(tgt):
            if isinstance(x, ast.Name):
                env[x.id] = Opaque(x.id)
        m = eval_block(gen, body, env, th, sinks)
        maps["read:" + nm] = norm_map(m)
        dirs = {x[2] for res in m.values() for x in res if x[2]}
        chk.expect(dirs == {"to_si"}, "R-C12-2", "[RULES] generate_control (%s clauses) converts file units to SI" % nm, loc(gen, lp), found=sorted(dirs))
    ref_name, ref = sorted(maps.items())[0]
    for name, mp in sorted(maps.items()):
        chk.expect(mp == ref, "R-C12-2", "[RULES] %s uses the same attribute -> unit map as %s" % (name, ref_name), loc(IO, rule),
                   "the six sibling blocks that print and parse rule thresholds/settings must agree on which attribute carries which unit (else a rule's value changes on a round trip)",
                   expected=sorted((str(k), v) for k, v in ref.items()), found=sorted((str(k), v) for k, v in mp.items()))
    want_keys = {("demand", ""), ("head", ""), ("level", ""), ("flow", ""), ("pressure", ""), ("setting", "PRV"), ("setting", "PSV"), ("setting", "PBV"), ("setting", "FCV")}
    chk.expect(set(ref) == want_keys, "R-C12-2", "[RULES] the unit map covers demand, head, level, flow, pressure and valve settings (PRV/PSV/PBV pressure, FCV flow)", loc(IO, rule), found=sorted(map(str, ref)))
    chk.sample({"rule": "R-C12-2", "rules attribute->unit map": {str(k): v for k, v in ref.items()}})

    # ---------------------------------------------------------------- R-C12-6 version 2.0 (differential: the writer is executed abstractly for version=2.0 and =2.2)
    wo = repo.func(IO, "InpFile._write_options")
    wt = repo.func(IO, "InpFile._write_tanks")
    chk.fn(wo, wt)
    ol20, ol22 = option_lines(repo, wo, 2.0), option_lines(repo, wo, 2.2)
    lab20, lab22 = {l for l, a_ in ol20}, {l for l, a_ in ol22}
    want_g = {"HEADERROR", "FLOWCHANGE", "DEMAND MODEL", "MINIMUM PRESSURE", "REQUIRED PRESSURE", "PRESSURE EXPONENT"}
    chk.expect(lab22 - lab20 == want_g and lab20 <= lab22 and len(lab20) >= 10, "R-C12-6", "only the EPANET 2.2-specific options are omitted from 2.0-format files", loc(wo),
               expected=sorted(want_g), found="2.2 only: %s; 2.0 only: %s" % (sorted(lab22 - lab20), sorted(lab20 - lab22)))
    tl20, tl22 = tank_lines(repo, wt, 2.0), tank_lines(repo, wt, 2.2)
    chk.expect(all(o in ("", None) for c_, o in tl20) and any(o not in ("", None) for c_, o in tl22), "R-C12-6", "the tank overflow column is written for 2.2 only", loc(wt),
               found="overflow column: 2.0 %s, 2.2 %s" % (sorted({str(o) for c_, o in tl20}), sorted({str(o) for c_, o in tl22})))
    # R-C12-12: whatever else the line carries, a tank that has a volume curve is written with that curve's name (the reader maps any other token to "no curve")
    for ver, tl in ((2.0, tl20), (2.2, tl22)):
        wrong = [c_ for c_, o in tl if not (isinstance(c_, Opaque) and "vol_curve" in c_.text)]
        chk.expect(not wrong, "R-C12-12", "[TANKS] a tank that has a volume curve is written with the curve's name in the curve column (format %s)" % ver, loc(wt),
                   "the curve column of a tank with a volume curve must carry the curve name on every path; a placeholder there makes the tank cylindrical on read",
                   expected="<tank>.vol_curve.name", found=[str(x) for x in wrong[:3]])

    # ---------------------------------------------------------------- R-C12-5 pressure options
    ro = repo.func(IO, "InpFile._read_options")
    chk.fn(ro)
    rconv = option_reader_convs(repo, ro)
    for key, attr in (("MINIMUM PRESSURE", "minimum_pressure"), ("REQUIRED PRESSURE", "required_pressure")):
        wcs = [c for l, a_ in ol22 if l == key for c, p_ in find_convs(a_)]
        w_ok = bool(wcs) and all(c.direction == "from_si" and pclass(classes, c.param) == classes["HydParam.Pressure"] and c.vtext().endswith("hydraulic." + attr) for c in wcs)
        rcs = rconv.get(attr, set())
        r_ok = bool(rcs) and all(d_ == "to_si" and pclass(classes, p_) == classes["HydParam.Pressure"] and k_ == len(key.split()) and key.split()[0] in t_ for d_, p_, k_, t_ in rcs)
        chk.expect(w_ok and r_ok, "R-C12-5", "[OPTIONS] %s is written with from_si(Pressure) and read with to_si(Pressure)" % key, loc(wo),
                   found=("writer %s" % sorted(map(repr, wcs)), "reader %s" % sorted((d_, p_, k_) for d_, p_, k_, t_ in rcs)))

    # ---------------------------------------------------------------- R-C12-7 time helpers
    s2s = repo.func(IO, "_sec_to_string")
    t2s = repo.func(IO, "_str_time_to_sec")
    chk.fn(s2s, t2s)
    # finite evaluation of both helpers (stdlib str / re calls modelled, nothing from the repository runs): any way of writing the
    # arithmetic is accepted, only the values count
    from ._shared import _string_evaluator
    from ..peval import Raised
    SEv, shook = _string_evaluator(repo)

    def call_fn(fn, *vals):
        try:
            return SEv({a.arg: v for a, v in zip(fn.args.args, vals)}, None, shook).run(fn.body)
        except Raised:
            return "raises"
        except Unknown as ex_:
            raise ExtractError("%s not evaluable: %s" % (fn.name, ex_))
    bad = None
    for sec in (0, 59, 60, 3599, 3600, 3661, 43200, 86399, 90061, 360000):
        r = call_fn(s2s, sec)
        if not (isinstance(r, (list, tuple)) and len(r) == 3 and all(isinstance(x, int) for x in r) and r[0] * 3600 + r[1] * 60 + r[2] == sec and 0 <= r[1] < 60 and 0 <= r[2] < 60):
            bad = bad or (sec, r)
    chk.expect(bad is None, "R-C12-7", "_sec_to_string(sec) = (h, m, s) with h*3600 + m*60 + s = sec and 0 <= m, s < 60", loc(s2s), found=bad)
    bad = None
    for h, m_, s_ in ((0, 0, 0), (0, 0, 59), (0, 59, 0), (1, 1, 1), (9, 30, 0), (12, 0, 0), (23, 59, 59), (25, 1, 1), (100, 0, 0)):
        for txt, want in (("%d:%02d:%02d" % (h, m_, s_), h * 3600 + m_ * 60 + s_), ("%d:%02d" % (h, m_), h * 3600 + m_ * 60), ("%d" % h, h * 3600)):
            back = call_fn(t2s, txt)
            if back != want:
                bad = bad or (txt, back, want)
    chk.expect(bad is None, "R-C12-7", "_str_time_to_sec weighs hours by 3600 and minutes by 60 (HH:MM:SS, HH:MM, HH)", loc(t2s),
               expected=bad[2] if bad else None, found=("%r reads as %s" % (bad[0], bad[1])) if bad else None)
    # simple time controls: the token written for `AT TIME t` reads back as t for every whole second
    from ._shared import control_time_round_trip, rule_clock_round_trip, forced
    rows_, wcf, rcf = control_time_round_trip(repo)
    chk.fn(wcf, rcf)
    chk.sample({"rule": "R-C12-8", "time_control_round_trip": [(t, tok, back) for t, tok, back in rows_[:8]]})
    for t, tok, back in rows_:
        chk.expect(back == t, "R-C12-8", "a simple control AT TIME %d s is written as a token that reads back as %d s" % (t, t), loc(wcf),
                   "finite evaluation of the 'time' value and format spec of _write_controls composed with the reader's conversion of that token",
                   expected=t, found="%r reads back as %s" % (tok, back))
    # rule clock times: _sec_to_clock (writer side of SYSTEM CLOCKTIME clauses) composed with _parse_value (reader side)
    rows_, s2cf, pvf = rule_clock_round_trip(repo)
    chk.fn(s2cf, pvf)
    for hour in range(24):
        hb = [(t, txt, back) for t, txt, back in rows_ if t // 3600 == hour and back != t]
        chk.expect(not hb, "R-C12-8", "a rule's SYSTEM CLOCKTIME threshold in hour %02d reads back as the same instant" % hour, loc(pvf),
                   "finite evaluation of ControlCondition._sec_to_clock composed with ControlCondition._parse_value",
                   expected=hb[0][0] if hb else None, found=("%r reads back as %s" % (hb[0][1], hb[0][2])) if hb else None)
    chk.floor("R-C12-8", 16 + 24)
    # ---------------------------------------------------------------- R-C12-9 the writer converts with the units it announces
    wfn = repo.func(IO, "InpFile.write")
    wopt = repo.func(IO, "InpFile._write_options")
    chk.fn(wfn, wopt)
    def argtexts(args):
        return [x.text if isinstance(x, Opaque) else str(x) for x in args]
    if not any(l == "QUALITY" and any(t.endswith("quality.inpfile_units") for t in argtexts(a_)) for l, a_ in ol22):
        raise ExtractError("_write_options: QUALITY line with the mass units not found")
    # abstract execution of write(): which values are stored to self.mass_units / self.flow_units on which paths (temporaries are followed)
    wex = SymExec(call_hook=make_hook(), inline=inline_table(repo, wfn))
    mu_stores, fu_stores = [], []
    for o in wex.run(wfn):
        for e in o.events:
            if e[0] == "store" and e[1] in ("self.mass_units", "self.flow_units"):
                txt = wex.text(e[2])
                # ... an assignment that only happens when self.mass_units is still unset does not count (a reader that ran before must not win over the option)
                cd = dict(o.conds)
                unset = forced("self.mass_units is None", cd) is True or forced("self.mass_units is not None", cd) is False or forced("self.mass_units", cd) is False
                (mu_stores if e[1] == "self.mass_units" else fu_stores).append((txt, unset))
    from_opt = [u for t, u in mu_stores if "options.quality.inpfile_units" in t]
    chk.expect(bool(from_opt) and not all(from_opt), "R-C12-9",
               "the mass unit the writer converts concentrations with is taken from options.quality.inpfile_units, which the QUALITY line announces", loc(wfn),
               "the [OPTIONS] QUALITY line prints options.quality.inpfile_units while the conversions use self.mass_units: if the two have different sources a ug/L model is "
               "written with mg/L numbers and read back 1000 times too small", expected="self.mass_units = f(wn.options.quality.inpfile_units)", found=sorted({t for t, u in mu_stores}))
    chk.expect(any("options.hydraulic.inpfile_units" in t or re.search(r"\bunits\b", t.replace("inpfile_units", "")) for t, u in fu_stores), "R-C12-9",
               "the flow unit system the writer converts with comes from the `units` argument / options.hydraulic.inpfile_units", loc(wfn), found=sorted({t for t, u in fu_stores}))
    uo = [argtexts(a_) for l, a_ in ol22 if l == "UNITS"]
    chk.expect(bool(uo) and all(any(t.startswith("self.flow_units") for t in a_) for a_ in uo), "R-C12-9", "the UNITS line announces the flow unit system the writer converts with", loc(wopt), found=uo[:2])

    # ---------------------------------------------------------------- R-C12-10 every demand entry's category is written
    wdm = repo.func(IO, "InpFile._write_demands")
    chk.fn(wdm)
    # the writer is RUN (sa/concrete.py: tree-walking evaluator over the parsed source, nothing is imported) on a mock model with one
    # junction; what counts is which lines reach the file, not how the guard is written
    for ndem, cat in ((1, None), (1, "fire"), (2, None), (2, "fire")):
        lines = concrete_demand_lines(repo, ndem, cat)
        must = ndem > 1 or cat is not None
        ok_ = (not must) or (len(lines) == ndem and (cat is None or cat in lines[0]))
        chk.expect(ok_, "R-C12-10", "a junction with %d demand(s), first category %r, gets its [DEMANDS] lines" % (ndem, cat), loc(wdm),
                   "the [JUNCTIONS] line has no place for a demand category: a junction whose only demand has a category must be written to [DEMANDS] or the category is lost",
                   expected="%d line(s)%s" % (ndem, ", the first with category %s" % cat if cat else ""), found=lines)

    # ---------------------------------------------------------------- R-C12-11 rule conditions: grouping of AND / OR
    acc = repo.func(IO, "_EpanetRule.add_control_condition")
    chk.fn(acc)
    rec = [n for n in walk(acc) if isinstance(n, ast.If) and "OrCondition" in unparse(n.test) or (isinstance(n, ast.If) and "AndCondition" in unparse(n.test))]
    handles_mixed = any(isinstance(n, (ast.Raise,)) for n in walk(acc)) and "AndCondition" in unparse(acc) and "OrCondition" in unparse(acc) and \
        any(isinstance(n, ast.Call) and unparse(n.func) == "isinstance" and "_condition_" in unparse(n.args[0]) for n in walk(acc))
    chk.expect(handles_mixed, "R-C12-11", "the rule writer keeps the grouping of nested AND / OR conditions (or refuses what the flat rule grammar cannot express)", loc(acc),
               "add_control_condition flattens the condition tree into IF/AND/OR clauses in visiting order; the reader groups them as an AND of OR-groups, so "
               "`a or (b and c)` and `(a and b) or c` come back as different conditions", expected="normalisation to an AND of OR-groups, or a refusal", found="children are emitted in order without looking at their type")

    # START CLOCKTIME: the 12-hour writer composed with _clock_time_to_sec is the identity on every hour of the day
    from ._shared import clocktime_round_trip
    rows, wtf, rdf = clocktime_round_trip(repo)
    chk.fn(wtf, rdf)
    badrows = [(t, txt, back) for t, txt, back in rows if back != t]
    for hour in range(24):
        hb = [b for b in badrows if b[0] // 3600 == hour]
        chk.expect(not hb, "R-C12-7", "START CLOCKTIME written for an instant in hour %02d reads back as the same instant" % hour, loc(wtf),
                   "finite evaluation of the AM/PM writer in _write_times composed with _clock_time_to_sec (as _read_times calls it)",
                   expected="%d s" % hb[0][0] if hb else None, found=("%r reads back as %s" % (hb[0][1], hb[0][2])) if hb else None)


WITNESSES = [
    dict(name="mass-units-only-from-previous-read", file=IO, old="        if isinstance(quality_units, str) and quality_units.split('/')[0] in ('mg', 'ug'):\n            self.mass_units = MassUnits[quality_units.split('/')[0]]\n        elif self.mass_units is None:",
         new="        if self.mass_units is None:", rule="R-C12-9"),
    dict(name="single-demand-category-dropped", file=IO, old="            if len(demands) > 1 or (len(demands) == 1 and demands[0].category):", new="            if len(demands) > 1:", rule="R-C12-10"),
    dict(name="control-time-as-decimal-hours", file=IO, old="'time': '{:d}:{:02d}:{:02d}'.format(*_sec_to_string(all_control._condition._threshold))}", new="'time': '{:g}'.format(all_control._condition._threshold / 3600.0)}", rule="R-C12-8"),
    dict(name="rule-clock-12am-not-mapped", file="wntr/network/controls.py", old="            if len(words) > 1 and words[1] in ('AM', 'PM') and hours == 12:\n                hours = 0", new="            if False:\n                hours = 0", rule="R-C12-8"),
    dict(name="noon-hour-written-as-am", file=IO, old="        if hrs < 12:\n            time_format = ' AM'\n        else:\n            hrs -= 12\n            time_format = ' PM'",
         new="        time_format = ' AM'\n        if hrs > 12:\n            hrs -= 12\n            time_format = ' PM'", rule="R-C12-7"),
    dict(name="pipe-length-class", file=IO, old="                        to_si(self.flow_units, float(current[3]), HydParam.Length),\n                        to_si(self.flow_units, float(current[4]), HydParam.PipeDiameter),", new="                        to_si(self.flow_units, float(current[3]), HydParam.PipeDiameter),\n                        to_si(self.flow_units, float(current[4]), HydParam.PipeDiameter),", rule="R-C12-2"),
    dict(name="reader-from-si", file=IO, old="                                to_si(self.flow_units, float(current[1]), HydParam.Elevation),\n                                demand_category=None)", new="                                from_si(self.flow_units, float(current[1]), HydParam.Elevation),\n                                demand_category=None)", rule="R-C12-2"),
    dict(name="writer-drops-conversion", file=IO, old="                 'diam': from_si(self.flow_units, tank.diameter, HydParam.TankDiameter),", new="                 'diam': tank.diameter,", rule="R-C12-2"),
    dict(name="valve-type-list", file=IO, old="            if valve_type in ['PRV', 'PSV', 'PBV']:\n                valve_set = to_si(self.flow_units, float(current[5]), HydParam.Pressure)\n            elif valve_type == 'FCV':", new="            if valve_type in ['PRV', 'PSV']:\n                valve_set = to_si(self.flow_units, float(current[5]), HydParam.Pressure)\n            elif valve_type in ['FCV', 'PBV']:", rule="R-C12-2"),
    dict(name="tank-coeff-order", file=IO, old="                                                   tank.bulk_coeff,\n                                                   QualParam.BulkReactionCoeff,\n                                                   mass_units=self.mass_units,\n                                                   reaction_order=wn.options.reaction.bulk_order)",
         new="                                                   tank.bulk_coeff,\n                                                   QualParam.BulkReactionCoeff,\n                                                   mass_units=self.mass_units,\n                                                   reaction_order=wn.options.reaction.tank_order)", rule="R-C12-2"),
    dict(name="rule-setting-not-converted-on-read", file=IO, old="            elif attr.lower() in ['setting']:\n                if isinstance(link, Valve):\n                    if link.valve_type.upper() in ['PRV', 'PBV', 'PSV']:\n                        value = to_si(self.inp_units, value, HydParam.Pressure)\n                    elif link.valve_type.upper() in ['FCV']:\n                        value = to_si(self.inp_units, value, HydParam.Flow)\n            then_acts.append",
         new="            elif attr.lower() in ['setting']:\n                if isinstance(link, Valve):\n                    if link.valve_type.upper() in ['PRV', 'PBV', 'PSV']:\n                        value = to_si(self.inp_units, value, HydParam.Pressure)\n            then_acts.append", rule="R-C12-2"),
    dict(name="control-threshold-class", file=IO, old="                        vals['thresh'] = from_si(self.flow_units, threshold, HydParam.Pressure) ", new="                        vals['thresh'] = from_si(self.flow_units, threshold, HydParam.HydraulicHead) ", rule="R-C12-2"),
    dict(name="curve-headloss", file=IO, old="                    y = from_si(self.flow_units, point[1], HydParam.HeadLoss)", new="                    y = from_si(self.flow_units, point[1], HydParam.HydraulicHead)", rule="R-C12-2"),
    dict(name="length-vs-head-preserving", file=IO, old="                        to_si(self.flow_units, float(current[2]), HydParam.Length),\n                        to_si(self.flow_units, float(current[3]), HydParam.Length),", new="                        to_si(self.flow_units, float(current[2]), HydParam.HydraulicHead),\n                        to_si(self.flow_units, float(current[3]), HydParam.Elevation),", silent=True),
]
