"""C12 -- writing a model to an EPANET INP file and reading it back preserves it (writer/reader agreement)."""
import ast
import itertools
import re

from ..src import walk, calls, call_name, dotted, const, loc, unparse, norm, AnchorError, ExtractError, last_attr
from ..symx import SymExec, Opaque, State
from ..peval import Evaluator, Lin, Obj, Unknown
from .. import inpx
from ..inpx import Conv, IO, UTIL, run_paths, reader_loop_body, find_convs, discriminators, placeholders, module_string, make_hook

EXPLANATION = (
    "Cross-checking the sibling implementations InpFile._write_X / _read_X: every to_si/from_si site is followed through the abstract "
    "interpreter into the file column it is printed in (writer: format string token position) or parsed from (reader: current[i]) together with "
    "the discriminating keywords / element types of its path; matched sites must be inverse conversions (same conversion class as computed by "
    "C17's partial evaluator over all flow units, same flags such as darcy_weisbach / mass units / reaction order, opposite direction); a "
    "conversion that exists on one side of a column only is reported; the reader's discriminant column must be the column the writer puts the "
    "discriminator in; lines whose conversion depends on an option parsed from the same section are written after that option; rule "
    "conditions/actions use one attribute->unit map in all six writer/reader blocks; simple-control settings and thresholds likewise; time "
    "string helpers are mutually inverse. Decides unit/field/keyword agreement of the two halves, not text precision or idempotence.")
RULE_TEXT = "one instance = one (section, column/keyword, discriminator) conversion pair, one discriminator, one ordering or one map entry"
ASSUMPTIONS = ["[REPORT], [BACKDROP], [LABELS] are outside the statement", "write guards that omit default-valued lines rely on EPANET's defaults (inventoried only)"]

SECTIONS = ["junctions", "reservoirs", "tanks", "pipes", "pumps", "valves", "emitters", "demands", "quality", "sources", "reactions", "energy"]


# ------------------------------------------------------------------ conversion classes (reuse of C17's evaluator)
def conversion_classes(repo):
    from . import c17
    fu, mu = repo.cls(UTIL, "FlowUnits"), repo.cls(UTIL, "MassUnits")
    flow = {n: c17.fold(v) for n, v, _ in c17.enum_members(fu)}
    mass = {n: float(c17.fold(v)[1]) for n, v, _ in c17.enum_members(mu)}
    trad, _ = c17.membership_list(repo, "is_traditional")
    metric, _ = c17.membership_list(repo, "is_metric")
    hyd = [m[0] for m in c17.enum_members(repo.cls(UTIL, "HydParam"))]
    qual = [m[0] for m in c17.enum_members(repo.cls(UTIL, "QualParam"))]

    def unit_obj(n):
        return Obj("FlowUnits." + n, {"factor": float(flow[n][1]), "is_traditional": n in trad, "is_metric": n in metric, "name": n})

    def class_attr(d):
        p = d.split(".")
        if len(p) == 2 and p[0] in ("HydParam", "QualParam", "FlowUnits", "MassUnits"):
            if p[0] == "FlowUnits":
                return unit_obj(p[1])
            if p[0] == "MassUnits":
                return Obj(d, {"factor": mass[p[1]]})
            return Obj(d, {})
        raise Unknown(d)

    def hook(name, n, ev):
        if name == "isinstance":
            v = ev.ev(n.args[0])
            if isinstance(v, Lin):
                return False
        return NotImplemented
    out = {}
    fh, fq = repo.func(UTIL, "HydParam._to_si"), repo.func(UTIL, "QualParam._to_si")
    for p in hyd:
        sig = []
        for u in sorted(flow):
            for dw in (False, True):
                ev = Evaluator({"self": Obj("HydParam." + p, {}), "flow_units": unit_obj(u), "data": Lin(1.0, 0.0), "darcy_weisbach": dw}, class_attr, hook)
                r = ev.run(fh.body)
                sig.append(round(r.k, 15) if isinstance(r, Lin) else None)
        out["HydParam." + p] = tuple(sig)
    for p in qual:
        sig = []
        for u in sorted(flow):
            for m in sorted(mass):
                for o in (0, 1, 2):
                    ev = Evaluator({"self": Obj("QualParam." + p, {}), "flow_units": unit_obj(u), "data": Lin(1.0, 0.0), "mass_units": Obj("MassUnits." + m, {"factor": mass[m]}), "reaction_order": o}, class_attr, hook)
                    r = ev.run(fq.body)
                    sig.append(round(r.k, 18) if isinstance(r, Lin) else None)
        out["QualParam." + p] = tuple(sig)
    return out


PARAM_ALIAS = {"BulkReactionCoeff": "QualParam.BulkReactionCoeff", "WallReactionCoeff": "QualParam.WallReactionCoeff"}


def pclass(classes, param):
    return classes.get(PARAM_ALIAS.get(param, param))


# ------------------------------------------------------------------ row extraction
def file_columns(fmt):
    """placeholder (name or auto index) -> whitespace token position in the line; plus literal keyword tokens."""
    try:
        list(placeholders(fmt))
    except ValueError:
        return None, set()
    cols = {}
    lits = set()
    auto = 0
    for i, tok in enumerate(fmt.split()):
        m = re.findall(r"\{([^{}:!]*)[^{}]*\}", tok)
        if m:
            for f in m:
                if f == "":
                    cols[auto] = i
                    auto += 1
                elif f.isdigit():
                    cols[int(f)] = i
                else:
                    cols[f] = i
        elif re.fullmatch(r"[A-Za-z][A-Za-z_\-]*", tok):
            lits.add(tok.upper())
    return cols, lits


class Row(object):
    def __init__(self, section, side, conv, col, clauses, neg, where, sink=None, plain=None):
        self.section, self.side, self.conv, self.col, self.where, self.sink, self.plain = section, side, conv, col, where, sink, plain
        self.clauses = frozenset(frozenset(c) for c in clauses)
        self.neg = frozenset(neg)
        self.disc = frozenset(t for c in self.clauses for t in c)

    def key(self):
        return (self.section, self.side, repr(self.conv) if self.conv else self.plain, self.col, self.clauses)

    def slotkey(self):
        return (repr(self.conv) if self.conv else self.plain, self.col)


def compatible(a, b):
    for x, y in ((a, b), (b, a)):
        for c in x.clauses:
            if c <= y.neg:
                return False                       # x requires a keyword that y's path excluded
            if y.clauses and not any(c & d for d in y.clauses):
                return False                       # x requires a keyword y's path does not have
    return True


def same_slot(w, r):
    if w.col is not None and r.col is not None:
        return w.col == r.col
    return bool(w.disc & r.disc)          # keyword-addressed fields (e.g. pump HEAD/POWER/SPEED pairs)


def drop_shadowed(rows):
    """a row without positive discriminator is dropped when the same (conversion, column) also occurs with one (else-of-everything paths)."""
    keyed = {}
    for r in rows:
        keyed.setdefault(r.slotkey(), []).append(r)
    out = []
    for k, rs in keyed.items():
        pos = [r for r in rs if r.clauses]
        out.extend(pos if pos else rs)
    return out


def writer_rows(repo, section, qual=None):
    fn, outs, ex = run_paths(repo, qual or ("InpFile._write_" + section))
    rows = {}
    for o in outs:
        d, neg = discriminators(o.conds)
        for e in o.events:
            if e[0] != "format":
                continue
            args, kw = e[2]
            fmt = e[1]
            if fmt and "{" not in fmt:
                fmt = module_string(repo, fmt) or fmt
            cols, lits = file_columns(fmt) if fmt and "{" in fmt else (None, set())
            strs = {a.upper() for a in args if isinstance(a, str) and re.fullmatch(r"[A-Za-z][A-Za-z_\-]*", a)}
            items = [(i, a) for i, a in enumerate(args)] + list(kw.items())
            cl = list(d) + [frozenset([x]) for x in sorted(lits | strs)]
            for k, v in items:
                col = cols.get(k) if cols else (k if isinstance(k, int) else None)
                for c, path in find_convs(v):
                    r = Row(section, "w", c, col, cl, neg, loc(IO, fn) + ":%d" % c.lineno)
                    rows[r.key()] = r
                if not list(find_convs(v)) and col is not None and isinstance(v, Opaque) and v.text not in ("<formatted>",) and re.search(r"\.\w+$", v.text):
                    r = Row(section, "w", None, col, cl, neg, loc(IO, fn), plain=v.text)
                    rows[r.key()] = r
    return fn, drop_shadowed(list(rows.values()))


def reader_rows(repo, section, qual=None, fn=None):
    rf = fn or repo.func(IO, qual or ("InpFile._read_" + section))
    lp, pre, head, body = reader_loop_body(rf)
    ex = SymExec(call_hook=make_hook())
    st = State({"self": Opaque("self"), "current": Opaque("current"), "line": Opaque("line"), "lnum": Opaque("lnum")})
    st0 = ex.block(pre, [st])[0]
    st0.env["current"] = Opaque("current")
    st0.done = False
    outs = ex.block(body, [st0])
    rows = {}
    for o in outs:
        d, neg = discriminators(o.conds)
        for e in o.events:
            vals = []
            if e[0] == "call":
                nm, args, kw = e[2]
                vals = [(e[1].split("(")[0], (i,), a) for i, a in enumerate(args)] + [(e[1].split("(")[0], (k,), a) for k, a in kw.items()]
            elif e[0] == "store":
                vals = [(e[1], (), e[2])]
            for sink, p0, v in vals:
                for c, path in find_convs(v):
                    r = Row(section, "r", c, c.column(), d, neg, loc(IO, rf) + ":%d" % c.lineno, sink="%s%s" % (sink, list(p0 + path)))
                    rows[r.key()] = r
    return rf, drop_shadowed(list(rows.values()))


def inverse(classes, w, r):
    """-> (ok, reason)"""
    cw, cr = w.conv, r.conv
    if cw.direction == cr.direction:
        return False, "both sides convert in the same direction (%s)" % cw.direction
    a, b = pclass(classes, cw.param), pclass(classes, cr.param)
    if a is None or b is None:
        return False, "unknown parameter %s / %s" % (cw.param, cr.param)
    if a != b:
        return False, "different conversion classes: writer %s, reader %s" % (cw.param, cr.param)
    if cw.flags != cr.flags:
        return False, "different flags: writer %s, reader %s" % (cw.flags, cr.flags)
    return True, ""


def run(repo, chk):
    classes = conversion_classes(repo)
    chk.sample({"rule": "R-C12-2", "conversion classes equal to HydParam.Length": sorted(k for k, v in classes.items() if v == classes["HydParam.Length"])})
    rd, wr = repo.func(IO, "InpFile.read"), repo.func(IO, "InpFile.write")
    chk.fn(rd, wr)

    # ---------------------------------------------------------------- R-C12-1 section pairing
    reads = {last_attr(c)[6:] for c in calls(rd) if (last_attr(c) or "").startswith("_read_")}
    writes = {last_attr(c)[7:] for c in calls(wr) if (last_attr(c) or "").startswith("_write_")}
    for s in sorted(reads | writes):
        chk.expect(s in reads and s in writes, "R-C12-1", "section %s is both written by InpFile.write and read by InpFile.read" % s, loc(wr),
                   found="read=%s write=%s" % (s in reads, s in writes))
    chk.floor("R-C12-1", 25)

    # ---------------------------------------------------------------- R-C12-2 field conversion table
    matched = 0
    allrows = {}
    for sec in SECTIONS:
        wf, W = writer_rows(repo, sec)
        rf, R = reader_rows(repo, sec)
        chk.fn(wf, rf)
        allrows[sec] = (W, R)
        Wc = [w for w in W if w.conv is not None and not w.conv.vtext().startswith("point[")]
        Rc = [r for r in R if r.conv is not None and (r.col is not None or r.disc) and not r.conv.vtext().startswith("point[")]
        for w in Wc:
            if w.col is None and not w.disc:
                continue
            cands = [r for r in Rc if same_slot(w, r) and compatible(w, r)]
            if not cands:
                plain_r = True
                chk.bad("R-C12-2", "[%s] column %s %s: the reader converts back what the writer converted (%s)" % (sec.upper(), w.col, sorted(w.disc), w.conv.param), w.where,
                        "the writer prints this field in file units but the reader has no conversion for the same column / keyword: the value comes back scaled",
                        expected="a to_si/from_si on current[%s] in _read_%s" % (w.col, sec), found="writer: %r" % w.conv)
                continue
            for r in cands:
                good, why = inverse(classes, w, r)
                matched += 1
                chk.expect(good, "R-C12-2", "[%s] column %s %s: reader and writer conversions are inverse" % (sec.upper(), w.col, sorted(w.disc | r.disc)), w.where, why,
                           expected="inverse of writer %r" % w.conv, found="reader %r at %s" % (r.conv, r.where))
        for r in Rc:
            cands = [w for w in Wc if same_slot(w, r) and compatible(w, r)]
            if not cands:
                plainw = [w for w in W if w.conv is None and w.col is not None and w.col == r.col and compatible(w, r)]
                if plainw:
                    chk.bad("R-C12-2", "[%s] column %s %s: the writer converts what the reader converts (%s)" % (sec.upper(), r.col, sorted(r.disc), r.conv.param), r.where,
                            "the reader converts this column from file units but the writer prints the SI value unconverted", expected="from_si in _write_%s" % sec, found="writer prints %s" % plainw[0].plain)
                else:
                    chk.note("[%s] reader conversion %r (column %s, %s) has no writer counterpart (field not written)" % (sec.upper(), r.conv, r.col, sorted(r.disc)))
    chk.floor("R-C12-2", 30, count=matched)

    # curves: writer by curve type, readers via add_curve(name, TYPE, points)
    wf, W = writer_rows(repo, "curves")
    wcur = {}
    for w in W:
        if w.conv is not None:
            t = [x for x in w.disc if x in ("VOLUME", "HEAD", "EFFICIENCY", "HEADLOSS")]
            if t:
                wcur[(t[0], w.conv.vtext())] = w
    rcur = {}
    readers = [("tanks", None), ("valves", None), ("energy", None)]
    for sec, _ in readers:
        rf, R = reader_rows(repo, sec)
        for r in R:
            if r.conv is not None and r.sink and "add_curve" in r.sink:
                pass
    # direct AST pass for add_curve sites (incl. the nested create_curve of _read_pumps)
    for qual in ("InpFile._read_tanks", "InpFile._read_pumps", "InpFile._read_valves", "InpFile._read_energy"):
        fn = repo.func(IO, qual)
        for c in [x for x in ast.walk(fn) if isinstance(x, ast.Call) and last_attr(x) == "add_curve" and len(x.args) >= 3]:
            ctype = const(c.args[1])
            scope = c
            while scope is not None and not isinstance(scope, (ast.If, ast.FunctionDef)):
                scope = getattr(scope, "_parent", None)
            for s in ast.walk(scope):
                if isinstance(s, ast.Assign) and isinstance(s.value, ast.Call) and call_name(s.value) in ("to_si", "from_si") and len(s.value.args) >= 3 and unparse(s.value.args[1]).startswith("point["):
                    rcur[(ctype, unparse(s.value.args[1]))] = Conv(call_name(s.value), Opaque(unparse(s.value.args[1])), unparse(s.value.args[2]), {}, s.lineno)
                elif isinstance(s, ast.Assign) and unparse(s.value).startswith("point[") and dotted(s.targets[0]) in ("x", "y"):
                    rcur.setdefault((ctype, unparse(s.value)), None)
    for (ctype, pt), w in sorted(wcur.items()):
        r = rcur.get((ctype, pt))
        if r is None:
            chk.bad("R-C12-2", "[CURVES] %s curve %s: the reader converts back what the writer converted" % (ctype, pt), w.where, found="writer %r, reader %s" % (w.conv, "none" if (ctype, pt) not in rcur else "unconverted"))
        else:
            good, why = inverse(classes, w, Row("curves", "r", r, None, [], [], ""))
            chk.expect(good, "R-C12-2", "[CURVES] %s curve %s: reader and writer conversions are inverse" % (ctype, pt), w.where, why, expected="inverse of %r" % w.conv, found=repr(r))
    for (ctype, pt), r in sorted(rcur.items(), key=str):
        if r is not None and (ctype, pt) not in wcur:
            chk.bad("R-C12-2", "[CURVES] %s curve %s: the writer converts what the reader converts" % (ctype, pt), "%s:%d" % (IO, r.lineno), found="reader %r, writer unconverted" % r)
    chk.expect(len(wcur) >= 7, "R-C12-2", "curve conversions located for VOLUME, HEAD, EFFICIENCY, HEADLOSS", loc(wf), found=sorted(wcur))

    # ---------------------------------------------------------------- R-C12-3 discriminators
    # the reader's discriminant column is the column the writer prints the discriminator in
    for sec, disc_attr, tokens in (("sources", "source_type", {"MASS"}), ("valves", "valve_type", {"PRV", "FCV", "TCV", "GPV"})):
        wf = repo.func(IO, "InpFile._write_" + sec)
        rf = repo.func(IO, "InpFile._read_" + sec)
        W, R = allrows[sec]
        wcol = None
        fn_, outs, ex = run_paths(repo, "InpFile._write_" + sec)
        for o in outs:
            for e in o.events:
                if e[0] == "format":
                    args, kw = e[2]
                    fmt = e[1]
                    if fmt and "{" not in fmt:
                        fmt = module_string(repo, fmt) or fmt
                    cols, _ = file_columns(fmt) if fmt and "{" in fmt else (None, set())
                    for k, v in [(i, a) for i, a in enumerate(args)] + list(kw.items()):
                        if isinstance(v, Opaque) and v.text.endswith("." + disc_attr):
                            wcol = cols.get(k) if cols else k
        rcols = set()
        for n in walk(rf):
            if isinstance(n, ast.Compare):
                t = unparse(n)
                lits = {x.upper() for x in re.findall(r"'([A-Za-z]+)'", t)}
                m = re.search(r"current\[(\d+)\]", unparse(n.left))
                if m and lits & tokens:
                    rcols.add(int(m.group(1)))
            if isinstance(n, ast.Assign) and dotted(n.targets[0]) == disc_attr:
                m = re.search(r"current\[(\d+)\]", unparse(n.value))
                if m:
                    rcols.add(int(m.group(1)))
        chk.expect(wcol is not None and rcols == {wcol}, "R-C12-3", "[%s] the reader selects the conversion by the column the writer prints the %s in" % (sec.upper(), disc_attr), loc(rf),
                   "testing another column (e.g. the node name) for the type keyword applies the wrong unit conversion", expected="column %s" % wcol, found="column(s) %s" % sorted(rcols))
    # quality parameter discriminator is an option on both sides
    for side, q in (("write", "InpFile._write_quality"), ("read", "InpFile._read_quality")):
        f = repo.func(IO, q)
        chk.expect("options.quality.parameter == 'CHEMICAL'" in unparse(f) and "options.quality.parameter == 'AGE'" in unparse(f), "R-C12-3", "[QUALITY] %s selects the unit by options.quality.parameter" % side, loc(f))

    # ---------------------------------------------------------------- R-C12-4 order dependence
    rf = repo.func(IO, "InpFile._read_reactions")
    wf = repo.func(IO, "InpFile._write_reactions")
    dep = {}   # keyword written -> option flags its reader conversion depends on
    W, R = allrows["reactions"]
    needs = set()
    for r in R:
        for k, v in r.conv.flags.items():
            m = re.search(r"options\.reaction\.(\w+_order)", v)
            if m:
                needs.add(m.group(1))
    # line numbers of the writer's ORDER lines and of its coefficient lines
    order_lines = {}
    coeff_lines = []
    for c in calls(wf, attr="format"):
        a0 = const(c.args[0]) if c.args else None
        if a0 == "ORDER" and len(c.args) >= 3:
            m = re.search(r"options\.reaction\.(\w+_order)", unparse(c.args[2]))
            if m:
                order_lines[m.group(1)] = c.lineno
        elif c.args and any(isinstance(x, ast.Call) and call_name(x) in ("from_si", "to_si") for x in c.args):
            conv = [x for x in c.args if isinstance(x, ast.Call) and call_name(x) in ("from_si", "to_si")][0]
            m = re.search(r"options\.reaction\.(\w+_order)", unparse(conv))
            if m:
                coeff_lines.append((c.lineno, m.group(1), a0))
    for ln, order, kw in coeff_lines:
        chk.expect(order in order_lines and order_lines[order] < ln, "R-C12-4", "[REACTIONS] the %s line is written after the ORDER line its conversion depends on (%s)" % (kw, order), "%s:%d" % (IO, ln),
                   "the reader converts each coefficient with the reaction order it has parsed SO FAR; a coefficient written before its ORDER line is read back with the default order",
                   expected="ORDER %s line first" % order, found="ORDER at line %s, %s coefficient at line %d" % (order_lines.get(order), kw, ln))
    chk.floor("R-C12-4", 4)
    chk.expect(needs <= set(order_lines), "R-C12-4", "[REACTIONS] every order the reader's conversions depend on is written", loc(wf), found=(sorted(needs), sorted(order_lines)))

    # ---------------------------------------------------------------- controls
    wctl = repo.func(IO, "InpFile._write_controls")
    rctl = repo.func(IO, "_read_control_line")
    chk.fn(wctl, rctl)
    gs = [n for n in wctl.body if isinstance(n, ast.FunctionDef) and n.name == "get_setting"]
    if not gs:
        raise AnchorError("_write_controls.get_setting vanished")
    wmap = {}
    for vt in ("PRV", "PSV", "PBV", "FCV", "TCV"):
        def ah(base, attr, st, vt=vt):
            if isinstance(base, Opaque) and attr == "valve_type":
                return vt
            if isinstance(base, Opaque) and base.text == "control_action" and attr == "_attribute":
                return "setting"
            return NotImplemented
        ex = SymExec(call_hook=make_hook(), attr_hook=ah, test_hook=lambda t, n, s: True if t.startswith("isinstance(control_action._target_obj, Valve") else None)
        o = ex.run(gs[0])
        rets = [x.ret for x in o if not x.raised]
        wmap[vt] = rets[0].param if rets and isinstance(rets[0], Conv) else None
    rmap = {}
    for vt in ("PRV", "PSV", "PBV", "FCV", "TCV"):
        stmts = [s for s in rctl.body if isinstance(s, ast.If) and "status ==" in unparse(s.test)]
        if not stmts:
            raise AnchorError("_read_control_line: status/setting dispatch vanished")

        def ah(base, attr, st, vt=vt):
            if isinstance(base, Opaque) and attr == "valve_type":
                return vt
            return NotImplemented
        ex = SymExec(call_hook=make_hook(), attr_hook=ah, test_hook=lambda t, n, s: (False if t.startswith("status ==") or "isinstance(element, wntr.network.Pump)" in t else (True if "isinstance(element, wntr.network.Valve)" in t else None)))
        st = State({"current": Opaque("current"), "element": Opaque("element"), "status": Opaque("status"), "flow_units": Opaque("flow_units"), "line": Opaque("line")})
        o = ex.block(stmts[0].orelse, [st])
        vals = [x.env.get("setting") for x in o if not x.raised]
        rmap[vt] = vals[0].param if vals and isinstance(vals[0], Conv) else None
    for vt in ("PRV", "PSV", "PBV", "FCV", "TCV"):
        chk.expect(pclass(classes, wmap[vt]) == pclass(classes, rmap[vt]) if (wmap[vt] and rmap[vt]) else wmap[vt] == rmap[vt], "R-C12-2", "[CONTROLS] %s setting: writer and reader use the same unit class" % vt, loc(rctl),
                   expected="writer %s" % wmap[vt], found="reader %s" % rmap[vt])
    # thresholds
    src_w = unparse(wctl)
    src_r = unparse(rctl)
    th_w = dict(re.findall(r"isinstance\(all_control\._condition\._source_obj, (\w+)\):\s*vals\['thresh'\] = from_si\(self\.flow_units, threshold, (HydParam\.\w+)\)", src_w))
    th_r = dict(re.findall(r"node\.node_type == '(\w+)':\s*threshold = to_si\(flow_units, float\(current\[7\]\), (HydParam\.\w+)\)", src_r))
    for nt in ("Tank", "Junction"):
        chk.expect(nt in th_w and nt in th_r and pclass(classes, th_w[nt]) == pclass(classes, th_r[nt]), "R-C12-2", "[CONTROLS] %s threshold: writer and reader use the same unit class (column 7)" % nt, loc(rctl),
                   expected=th_w.get(nt), found=th_r.get(nt))
    attr_r = dict(re.findall(r"node\.node_type == '(\w+)':\s*threshold = [^\n]*\n\s*control_obj = Control\._conditional_control\(node, '(\w+)'", src_r))
    chk.expect(attr_r == {"Junction": "pressure", "Tank": "level"}, "R-C12-2", "[CONTROLS] junction thresholds are pressures, tank thresholds are levels", loc(rctl), found=attr_r)
    # (the time token of simple time controls is decided by R-C12-8: finite evaluation of writer and reader, any text format accepted)

    # ---------------------------------------------------------------- rules: six sibling attribute -> unit maps
    rule = repo.cls(IO, "_EpanetRule")
    meths = repo.methods(rule)
    ATTRS = ["demand", "head", "level", "flow", "pressure", "setting", "status"]
    maps = {}

    def eval_block(fn, stmts, env, attrs_hook_txt):
        out = {}
        for a in ATTRS:
            def ah(base, attr, st, a=a):
                if isinstance(base, Opaque) and attr in ("_source_attr", "_attribute"):
                    return a
                return NotImplemented

            def ch(name, node, args, kwargs, st, ex, recv, a=a):
                meth = node.func.attr if isinstance(node.func, ast.Attribute) else None
                if meth == "lower" and isinstance(recv, Opaque) and recv.text == "words[3]":
                    return a
                if meth == "upper" and isinstance(recv, Opaque):
                    return recv
                if name and name.endswith("_parse_value"):
                    return args[0]
                if name and name.endswith("_repr_value"):
                    return Opaque("val_si")
                return NotImplemented
            ex = SymExec(call_hook=make_hook(ch), attr_hook=ah, test_hook=attrs_hook_txt)
            st = State(dict(env))
            res = set()
            for o in ex.block(stmts, [st]):
                if o.raised:
                    continue
                d_, neg = discriminators([(t, v) for t, v in o.conds if "valve_type" in t])
                d = frozenset(t for c_ in d_ for t in c_)
                conv = None
                for e in o.events:
                    if e[0] == "format":
                        for c, p in find_convs(e[2][0]):
                            conv = c
                v = o.env.get("value")
                if isinstance(v, Conv):
                    conv = v
                isvalve = [vv for t, vv in o.conds if "isinstance(" in t and "Valve" in t]
                ispump = [vv for t, vv in o.conds if "isinstance(" in t and "Pump" in t and "Valve" not in t]
                kind = "valve" if (isvalve and isvalve[-1]) else ("pump" if (ispump and ispump[-1]) else "other")
                if a != "setting":
                    kind = "-"
                    d = frozenset()
                res.add((kind, tuple(sorted(d)), pclass(classes, conv.param) and conv.param.split(".")[-1] if conv else None, conv.direction if conv else None))
            out[a] = res
        return out

    def norm_map(m):
        """collapse to attr -> {(valve types) -> class name}; ignore non-valve kinds without conversion."""
        out = {}
        for a, res in m.items():
            for kind, d, p, direction in res:
                if p is None:
                    continue
                key = (a, d if a == "setting" else ())
                out[key] = classes_name(p)
        return out

    def classes_name(p):
        c = pclass(classes, "HydParam." + p)
        for k, v in sorted(classes.items()):
            if v == c:
                return k
        return p
    # writer blocks
    for mname, var in (("add_control_condition", "condition"), ("add_action_on_true", "action"), ("add_action_on_false", "action")):
        fn = meths[mname]
        chk.fn(fn)
        th = (lambda t, n, s: (True if ("isinstance(condition, ValueCondition)" in t or "isinstance(action, ControlAction)" in t) else (False if t.startswith("isinstance(condition,") else None)))
        m = eval_block(fn, fn.body, {"self": Opaque("self"), "condition": Opaque("condition"), "action": Opaque("action"), "prefix": Opaque("prefix")}, th)
        maps["write:" + mname] = norm_map(m)
        dirs = {x[3] for res in m.values() for x in res if x[3]}
        chk.expect(dirs == {"from_si"}, "R-C12-2", "[RULES] %s converts SI values to file units" % mname, loc(fn), found=sorted(dirs))
    gen = meths["generate_control"]
    chk.fn(gen)
    loops = [n for n in gen.body if isinstance(n, ast.For)]
    if len(loops) < 4:
        raise AnchorError("generate_control: expected the if/then/else parse loops")
    for lp, nm in ((loops[0], "if"), (loops[2], "then"), (loops[3], "else")):
        th = (lambda t, n, s: (False if "'SYSTEM'" in t else None))
        env = {"self": Opaque("self"), "model": Opaque("model"), "words": Opaque("words"), "line": Opaque("line"), "act": Opaque("act"), "condition_list": [], "then_acts": [], "else_acts": []}
        body = [s for s in lp.body if not (isinstance(s, ast.Assign) and dotted(s.targets[0]) == "words")]
        m = eval_block(gen, body, env, th)
        maps["read:" + nm] = norm_map(m)
        dirs = {x[3] for res in m.values() for x in res if x[3]}
        chk.expect(dirs == {"to_si"}, "R-C12-2", "[RULES] generate_control (%s clauses) converts file units to SI" % nm, loc(gen, lp), found=sorted(dirs))
    ref_name, ref = sorted(maps.items())[0]
    for name, mp in sorted(maps.items()):
        chk.expect(mp == ref, "R-C12-2", "[RULES] %s uses the same attribute -> unit map as %s" % (name, ref_name), loc(IO, rule),
                   "the six sibling blocks that print and parse rule thresholds/settings must agree on which attribute carries which unit (else a rule's value changes on a round trip)",
                   expected=sorted((str(k), v) for k, v in ref.items()), found=sorted((str(k), v) for k, v in mp.items()))
    want_keys = {("demand", ()), ("head", ()), ("level", ()), ("flow", ()), ("pressure", ()), ("setting", ("PBV", "PRV", "PSV")), ("setting", ("FCV",))}
    chk.expect(set(ref) == want_keys, "R-C12-2", "[RULES] the unit map covers demand, head, level, flow, pressure and valve settings (PRV/PSV/PBV pressure, FCV flow)", loc(IO, rule), found=sorted(map(str, ref)))
    chk.sample({"rule": "R-C12-2", "rules attribute->unit map": {str(k): v for k, v in ref.items()}})

    # ---------------------------------------------------------------- R-C12-6 version 2.0 guards
    wo = repo.func(IO, "InpFile._write_options")
    guarded = set()
    for n in walk(wo):
        if isinstance(n, ast.If) and "version" in unparse(n.test):
            for c in calls(n, attr="format"):
                if c.args and isinstance(const(c.args[0]), str) and re.fullmatch(r"[A-Z][A-Z ]*[A-Z]", const(c.args[0])):
                    guarded.add(const(c.args[0]))
                fs = c.func.value
                if isinstance(fs, ast.Constant) and isinstance(fs.value, str):
                    m = re.match(r"\s*([A-Z][A-Z ]*[A-Z])\s\s", fs.value)
                    if m:
                        guarded.add(m.group(1))
    want_g = {"HEADERROR", "FLOWCHANGE", "DEMAND MODEL", "MINIMUM PRESSURE", "REQUIRED PRESSURE", "PRESSURE EXPONENT"}
    chk.expect(want_g <= guarded and not (guarded - want_g), "R-C12-6", "only the EPANET 2.2-specific options are omitted from 2.0-format files", loc(wo), expected=sorted(want_g), found=sorted(guarded))
    wt = repo.func(IO, "InpFile._write_tanks")
    chk.expect("if version == 2.2:" in unparse(wt) and "E['overflow'] = 'YES'" in unparse(wt), "R-C12-6", "the tank overflow column is written for 2.2 only", loc(wt))

    # ---------------------------------------------------------------- R-C12-5 pressure options
    ro = repo.func(IO, "InpFile._read_options")
    for key, attr in (("MINIMUM PRESSURE", "minimum_pressure"), ("REQUIRED PRESSURE", "required_pressure")):
        w_ok = re.search(r"from_si\(self\.flow_units, wn\.options\.hydraulic\.%s, HydParam\.Pressure\)" % attr, unparse(wo)) is not None
        r_ok = re.search(r"%s = to_si\(self\.flow_units, float\(words\[2\]\), HydParam\.Pressure\)\s*opts\.hydraulic\.%s = %s" % (attr, attr, attr), unparse(ro)) is not None
        chk.expect(w_ok and r_ok, "R-C12-5", "[OPTIONS] %s is written with from_si(Pressure) and read with to_si(Pressure)" % key, loc(wo), found=(w_ok, r_ok))

    # ---------------------------------------------------------------- R-C12-7 time helpers
    s2s = repo.func(IO, "_sec_to_string")
    t2s = repo.func(IO, "_str_time_to_sec")
    src = unparse(s2s)
    chk.expect("int(sec / 3600.0)" in src.replace("3600.", "3600.0").replace("3600.00", "3600.0") or "sec / 3600" in src, "R-C12-7", "_sec_to_string splits seconds into hours, minutes, seconds", loc(s2s))
    weights = sorted(set(re.findall(r"groups\(\)\[(\d)\]\) \* (60 \* 60|60)\b", unparse(t2s))))
    chk.expect(("0", "60 * 60") in weights and ("1", "60") in weights, "R-C12-7", "_str_time_to_sec weighs hours by 3600 and minutes by 60", loc(t2s), found=weights)
    # exact inverse on the token level: partial evaluation of _sec_to_string's arithmetic for sample seconds
    import math

    def hk(name, n, ev):
        if name == "int":
            return int(ev.ev(n.args[0]))
        return NotImplemented
    okinv = True
    bad = None
    for sec in (0, 59, 60, 3599, 3600, 3661, 43200, 86399, 90061, 360000):
        try:
            e = Evaluator({"sec": sec}, None, hk)
            r = e.run(s2s.body)
            if not (isinstance(r, list) and len(r) == 3 and r[0] * 3600 + r[1] * 60 + r[2] == sec and 0 <= r[1] < 60 and 0 <= r[2] < 60):
                okinv, bad = False, (sec, r)
        except Unknown as ex_:
            okinv, bad = False, (sec, str(ex_))
    chk.expect(okinv, "R-C12-7", "_sec_to_string(sec) = (h, m, s) with h*3600 + m*60 + s = sec and 0 <= m, s < 60", loc(s2s), found=bad)
    # simple time controls: the token written for `AT TIME t` reads back as t for every whole second
    from ._shared import control_time_round_trip, rule_clock_round_trip
    rows_, wcf, rcf = control_time_round_trip(repo)
    chk.fn(wcf, rcf)
    chk.sample({"rule": "R-C12-8", "time_control_round_trip": [(t, tok, back) for t, tok, back in rows_[:8]]})
    for t, tok, back in rows_:
        chk.expect(back == t, "R-C12-8", "a simple control AT TIME %d s is written as a token that reads back as %d s" % (t, t), loc(wcf),
                   "finite evaluation of the 'time' value and format spec of _write_controls composed with the reader's conversion of that token",
                   expected=t, found="%r reads back as %s" % (tok, back))
    # rule clock times: _sec_to_clock (writer side of SYSTEM CLOCKTIME clauses) composed with _parse_value (reader side)
    rows_, s2cf, pvf = rule_clock_round_trip(repo)
    chk.fn(s2cf, pvf)
    for hour in range(24):
        hb = [(t, txt, back) for t, txt, back in rows_ if t // 3600 == hour and back != t]
        chk.expect(not hb, "R-C12-8", "a rule's SYSTEM CLOCKTIME threshold in hour %02d reads back as the same instant" % hour, loc(pvf),
                   "finite evaluation of ControlCondition._sec_to_clock composed with ControlCondition._parse_value",
                   expected=hb[0][0] if hb else None, found=("%r reads back as %s" % (hb[0][1], hb[0][2])) if hb else None)
    chk.floor("R-C12-8", 16 + 24)
    # ---------------------------------------------------------------- R-C12-9 the writer converts with the units it announces
    wfn = repo.func(IO, "InpFile.write")
    wopt = repo.func(IO, "InpFile._write_options")
    chk.fn(wfn, wopt)
    announces = [c for c in calls(wopt) if "'QUALITY'" in unparse(c) and "inpfile_units" in unparse(c)]
    if not announces:
        raise ExtractError("_write_options: QUALITY line with the mass units not found")
    # names that carry options.quality.inpfile_units inside write()
    carriers = {"wn.options.quality.inpfile_units"}
    for a in walk(wfn):
        if isinstance(a, ast.Assign) and isinstance(a.targets[0], ast.Name) and "options.quality.inpfile_units" in unparse(a.value):
            carriers.add(a.targets[0].id)
    mu = [a for a in walk(wfn) if isinstance(a, ast.Assign) and unparse(a.targets[0]) == "self.mass_units"]
    from_opt = [a for a in mu if any(c in unparse(a.value) for c in carriers)]
    # ... and that assignment is not conditional on self.mass_units being unset (a reader that ran before must not win over the option)
    def guarded_by_unset(a):
        q = a
        while q is not None and q is not wfn:
            pq = getattr(q, "_parent", None)
            if isinstance(pq, ast.If) and q in pq.body and "self.mass_units is None" in unparse(pq.test):
                return True
            q = pq
        return False
    chk.expect(bool(from_opt) and not all(guarded_by_unset(a) for a in from_opt), "R-C12-9",
               "the mass unit the writer converts concentrations with is taken from options.quality.inpfile_units, which the QUALITY line announces", loc(wfn),
               "the [OPTIONS] QUALITY line prints options.quality.inpfile_units while the conversions use self.mass_units: if the two have different sources a ug/L model is "
               "written with mg/L numbers and read back 1000 times too small", expected="self.mass_units = f(wn.options.quality.inpfile_units)", found=[norm(a) for a in mu])
    fu_src = [a for a in walk(wfn) if isinstance(a, ast.Assign) and unparse(a.targets[0]) == "self.flow_units"]
    chk.expect(any("options.hydraulic.inpfile_units" in unparse(a.value) or any(isinstance(x, ast.Name) and x.id == "units" for x in ast.walk(a.value)) for a in fu_src), "R-C12-9",
               "the flow unit system the writer converts with comes from the `units` argument / options.hydraulic.inpfile_units", loc(wfn))
    uo = [c for c in calls(wopt) if "'UNITS'" in unparse(c)]
    chk.expect(bool(uo) and "self.flow_units.name" in unparse(uo[0]), "R-C12-9", "the UNITS line announces the flow unit system the writer converts with", loc(wopt), found=[norm(c) for c in uo])

    # ---------------------------------------------------------------- R-C12-10 every demand entry's category is written
    wdm = repo.func(IO, "InpFile._write_demands")
    chk.fn(wdm)
    gd = [n for n in walk(wdm) if isinstance(n, ast.If) and "len(demands)" in unparse(n.test)]
    if not gd:
        raise ExtractError("_write_demands: guard on the number of demands not found")
    from ..peval import Evaluator as _Ev, Obj as _Obj, Unknown as _Unk

    class _E(_Ev):
        def e_Subscript(self, n):
            return self.ev(n.value)[self.ev(n.slice)]

    def _hk(name, n, ev):
        if name == "len":
            return len(ev.ev(n.args[0]))
        return NotImplemented
    for ndem, cat in ((1, None), (1, "fire"), (2, None), (2, "fire")):
        demands = [_Obj("d%d" % i, {"category": cat if i == 0 else None, "base_value": 1.0, "pattern_name": None}) for i in range(ndem)]
        try:
            e = _E({"demands": demands}, None, _hk)
            written = bool(e.truth(e.ev(gd[0].test)))
        except _Unk as ex:
            raise ExtractError("_write_demands guard not evaluable: %s" % ex)
        must = ndem > 1 or cat is not None
        chk.expect(written or not must, "R-C12-10", "a junction with %d demand(s), first category %r, gets its [DEMANDS] lines" % (ndem, cat), loc(wdm, gd[0]),
                   "the [JUNCTIONS] line has no place for a demand category: a junction whose only demand has a category must be written to [DEMANDS] or the category is lost",
                   expected="written", found="skipped by `%s`" % unparse(gd[0].test))

    # ---------------------------------------------------------------- R-C12-11 rule conditions: grouping of AND / OR
    acc = repo.func(IO, "_EpanetRule.add_control_condition")
    chk.fn(acc)
    rec = [n for n in walk(acc) if isinstance(n, ast.If) and "OrCondition" in unparse(n.test) or (isinstance(n, ast.If) and "AndCondition" in unparse(n.test))]
    handles_mixed = any(isinstance(n, (ast.Raise,)) for n in walk(acc)) and "AndCondition" in unparse(acc) and "OrCondition" in unparse(acc) and \
        any(isinstance(n, ast.Call) and unparse(n.func) == "isinstance" and "_condition_" in unparse(n.args[0]) for n in walk(acc))
    chk.expect(handles_mixed, "R-C12-11", "the rule writer keeps the grouping of nested AND / OR conditions (or refuses what the flat rule grammar cannot express)", loc(acc),
               "add_control_condition flattens the condition tree into IF/AND/OR clauses in visiting order; the reader groups them as an AND of OR-groups, so "
               "`a or (b and c)` and `(a and b) or c` come back as different conditions", expected="normalisation to an AND of OR-groups, or a refusal", found="children are emitted in order without looking at their type")

    # START CLOCKTIME: the 12-hour writer composed with _clock_time_to_sec is the identity on every hour of the day
    from ._shared import clocktime_round_trip
    rows, wtf, rdf = clocktime_round_trip(repo)
    chk.fn(wtf, rdf)
    badrows = [(t, txt, back) for t, txt, back in rows if back != t]
    for hour in range(24):
        hb = [b for b in badrows if b[0] // 3600 == hour]
        chk.expect(not hb, "R-C12-7", "START CLOCKTIME written for an instant in hour %02d reads back as the same instant" % hour, loc(wtf),
                   "finite evaluation of the AM/PM writer in _write_times composed with _clock_time_to_sec (as _read_times calls it)",
                   expected="%d s" % hb[0][0] if hb else None, found=("%r reads back as %s" % (hb[0][1], hb[0][2])) if hb else None)


WITNESSES = [
    dict(name="mass-units-only-from-previous-read", file=IO, old="        if isinstance(quality_units, str) and quality_units.split('/')[0] in ('mg', 'ug'):\n            self.mass_units = MassUnits[quality_units.split('/')[0]]\n        elif self.mass_units is None:",
         new="        if self.mass_units is None:", rule="R-C12-9"),
    dict(name="single-demand-category-dropped", file=IO, old="            if len(demands) > 1 or (len(demands) == 1 and demands[0].category):", new="            if len(demands) > 1:", rule="R-C12-10"),
    dict(name="control-time-as-decimal-hours", file=IO, old="'time': '{:d}:{:02d}:{:02d}'.format(*_sec_to_string(all_control._condition._threshold))}", new="'time': '{:g}'.format(all_control._condition._threshold / 3600.0)}", rule="R-C12-8"),
    dict(name="rule-clock-12am-not-mapped", file="wntr/network/controls.py", old="            if len(words) > 1 and words[1] in ('AM', 'PM') and hours == 12:\n                hours = 0", new="            if False:\n                hours = 0", rule="R-C12-8"),
    dict(name="noon-hour-written-as-am", file=IO, old="        if hrs < 12:\n            time_format = ' AM'\n        else:\n            hrs -= 12\n            time_format = ' PM'",
         new="        time_format = ' AM'\n        if hrs > 12:\n            hrs -= 12\n            time_format = ' PM'", rule="R-C12-7"),
    dict(name="pipe-length-class", file=IO, old="                        to_si(self.flow_units, float(current[3]), HydParam.Length),\n                        to_si(self.flow_units, float(current[4]), HydParam.PipeDiameter),", new="                        to_si(self.flow_units, float(current[3]), HydParam.PipeDiameter),\n                        to_si(self.flow_units, float(current[4]), HydParam.PipeDiameter),", rule="R-C12-2"),
    dict(name="reader-from-si", file=IO, old="                                to_si(self.flow_units, float(current[1]), HydParam.Elevation),\n                                demand_category=None)", new="                                from_si(self.flow_units, float(current[1]), HydParam.Elevation),\n                                demand_category=None)", rule="R-C12-2"),
    dict(name="writer-drops-conversion", file=IO, old="                 'diam': from_si(self.flow_units, tank.diameter, HydParam.TankDiameter),", new="                 'diam': tank.diameter,", rule="R-C12-2"),
    dict(name="valve-type-list", file=IO, old="            if valve_type in ['PRV', 'PSV', 'PBV']:\n                valve_set = to_si(self.flow_units, float(current[5]), HydParam.Pressure)\n            elif valve_type == 'FCV':", new="            if valve_type in ['PRV', 'PSV']:\n                valve_set = to_si(self.flow_units, float(current[5]), HydParam.Pressure)\n            elif valve_type in ['FCV', 'PBV']:", rule="R-C12-2"),
    dict(name="tank-coeff-order", file=IO, old="                                                   tank.bulk_coeff,\n                                                   QualParam.BulkReactionCoeff,\n                                                   mass_units=self.mass_units,\n                                                   reaction_order=wn.options.reaction.bulk_order)",
         new="                                                   tank.bulk_coeff,\n                                                   QualParam.BulkReactionCoeff,\n                                                   mass_units=self.mass_units,\n                                                   reaction_order=wn.options.reaction.tank_order)", rule="R-C12-2"),
    dict(name="rule-setting-not-converted-on-read", file=IO, old="            elif attr.lower() in ['setting']:\n                if isinstance(link, Valve):\n                    if link.valve_type.upper() in ['PRV', 'PBV', 'PSV']:\n                        value = to_si(self.inp_units, value, HydParam.Pressure)\n                    elif link.valve_type.upper() in ['FCV']:\n                        value = to_si(self.inp_units, value, HydParam.Flow)\n            then_acts.append",
         new="            elif attr.lower() in ['setting']:\n                if isinstance(link, Valve):\n                    if link.valve_type.upper() in ['PRV', 'PBV', 'PSV']:\n                        value = to_si(self.inp_units, value, HydParam.Pressure)\n            then_acts.append", rule="R-C12-2"),
    dict(name="control-threshold-class", file=IO, old="                        vals['thresh'] = from_si(self.flow_units, threshold, HydParam.Pressure) ", new="                        vals['thresh'] = from_si(self.flow_units, threshold, HydParam.HydraulicHead) ", rule="R-C12-2"),
    dict(name="curve-headloss", file=IO, old="                    y = from_si(self.flow_units, point[1], HydParam.HeadLoss)", new="                    y = from_si(self.flow_units, point[1], HydParam.HydraulicHead)", rule="R-C12-2"),
    dict(name="length-vs-head-preserving", file=IO, old="                        to_si(self.flow_units, float(current[2]), HydParam.Length),\n                        to_si(self.flow_units, float(current[3]), HydParam.Length),", new="                        to_si(self.flow_units, float(current[2]), HydParam.HydraulicHead),\n                        to_si(self.flow_units, float(current[3]), HydParam.Elevation),", silent=True),
]
