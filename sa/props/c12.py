"""C12 -- writing a model to an EPANET INP file and reading it back preserves it (writer/reader agreement).

Techniques (DESIGN 2b): T2 symbolic path enumeration of the section writers / readers (R-C12-2, -3, -4, -5, -6, -9, -12, and the
format-spec location of -13; facts come from path conditions, events and values, some of them matched by regex / substring on the event
text); T3 finite evaluation on fixtures, bounded to them (R-C12-7, -8, -10, -14, -15, -16 and the probe values of -13): sa/concrete.py
Interp, except _sec_to_string / _str_time_to_sec which run in _shared._string_evaluator (sa/peval based); T1 (R-C12-1 call-name tables;
R-C12-11 a PRESENCE / TEXT match only: a raise, the substrings AndCondition and OrCondition, an isinstance call on `.._condition_..` in
add_control_condition -- the grouping of nested AND/OR is not analysed).  R-C12-14 and -15 are reader-only / constructor-only fixture
checks, R-C12-16 is a clause of C03 (WNTRSimulator._setup_sim_options) hosted here; none of the three is a write/read round trip.
"""
import ast
import copy
import re

from ..src import walk, calls, call_name, loc, unparse, AnchorError, ExtractError, last_attr, parent
from ..symx import SymExec, Opaque, State
from ..peval import Evaluator, Lin, Obj, Unknown
from ..inpx import Conv, IO, UTIL, find_convs, discriminators, placeholders, make_hook

EXPLANATION = (
    "R-C12-17 (T3, bounded to one fixture model; 5 unit-system / version combinations in the quick tier, all 20 in the thorough tier): the fixture model of C13 is written by "
    "InpFile.write into an in-memory file, read back by InpFile.read, written and read again, all by the repository's code run by the in-house interpreter; elements, patterns, used "
    "curves, sources, options, controls and rules are compared through the part of the model dictionary the INP format carries, numbers to file precision; the second cycle changes nothing. "
    "Writer / reader agreement of InpFile._write_X / _read_X. T1: R-C12-1 every section written is read and vice versa (call-name tables). T2, symbolic "
    "path enumeration (locals substituted, helpers stepped into; some events matched by regex on their text): R-C12-2 every to_si/from_si site is "
    "followed into the file column it is printed in / parsed from; matched sites are inverse conversions of the same class (C17's evaluator over "
    "all flow units) and flags, incl. simple controls and the six rule blocks; R-C12-3 the reader tests the discriminator in the column the writer "
    "prints it in; R-C12-4 reaction coefficients are written after their ORDER line; R-C12-5 MINIMUM / REQUIRED PRESSURE convert as Pressure; "
    "R-C12-6 version 2.0 omits only the 2.2-only options (compared with a list of six labels in the module) and the overflow column; R-C12-9 mass "
    "and flow units come from the options; R-C12-12 a tank's volume curve is printed in its column. T3, finite evaluation by the in-house "
    "interpreter on fixtures, bounded to them: R-C12-7 time-string helpers (10 values, 27 strings) and [TIMES] round trip (72 clock times); R-C12-8 "
    "simple time controls (16 instants) and rule clock times (72); R-C12-10 [DEMANDS] lines for 4 mock junctions; R-C12-14 _read_times on 64 "
    "lines (reader only); R-C12-15 time-condition constructors on 11 strings each; R-C12-16 _setup_sim_options on 6 triples (a C03 clause). "
    "R-C12-13 (T2 then T3): each converted number's format spec keeps as many significant digits as its sibling fields, on 7 probe values. "
    "R-C12-11 (T1, presence / text match only): add_control_condition contains a raise, the names AndCondition / OrCondition and an isinstance on "
    "_condition_; whether nested AND/OR grouping survives is NOT analysed. Decides unit/field/keyword agreement of the two halves, not idempotence.")
RULE_TEXT = "one instance = one (section, column/keyword, discriminator) conversion pair, one discriminator, one ordering or one map entry"
ASSUMPTIONS = ["[REPORT], [BACKDROP], [LABELS] are outside the statement", "write guards that omit default-valued lines rely on EPANET's defaults (inventoried only)"]

SECTIONS = ["junctions", "reservoirs", "tanks", "pipes", "pumps", "valves", "emitters", "demands", "quality", "sources", "reactions", "energy"]


# ------------------------------------------------------------------ conversion classes (reuse of C17's evaluator)
def conversion_classes(repo):
    from . import c17
    fu, mu = repo.cls(UTIL, "FlowUnits"), repo.cls(UTIL, "MassUnits")
    flow = {n: c17.fold(v) for n, v, _ in c17.enum_members(fu)}
    mass = {n: float(c17.fold(v)[1]) for n, v, _ in c17.enum_members(mu)}
    trad, _ = c17.membership_list(repo, "is_traditional")
    metric, _ = c17.membership_list(repo, "is_metric")
    hyd = [m[0] for m in c17.enum_members(repo.cls(UTIL, "HydParam"))]
    qual = [m[0] for m in c17.enum_members(repo.cls(UTIL, "QualParam"))]

    def unit_obj(n):
        return Obj("FlowUnits." + n, {"factor": float(flow[n][1]), "is_traditional": n in trad, "is_metric": n in metric, "name": n})

    def class_attr(d):
        p = d.split(".")
        if len(p) == 2 and p[0] in ("HydParam", "QualParam", "FlowUnits", "MassUnits"):
            if p[0] == "FlowUnits":
                return unit_obj(p[1])
            if p[0] == "MassUnits":
                return Obj(d, {"factor": mass[p[1]]})
            return Obj(d, {})
        if "." not in d:
            # a module-level table of util.py (a literal display keyed by enum members), evaluated with the same resolver
            try:
                v = repo.module_assign(UTIL, d)
            except AnchorError:
                v = None
            if isinstance(v, (ast.Dict, ast.List, ast.Tuple, ast.Set, ast.Constant, ast.BinOp)):
                return Evaluator({}, class_attr, hook).ev(v)
        raise Unknown(d)

    def hook(name, n, ev):
        if name == "isinstance":
            v = ev.ev(n.args[0])
            if isinstance(v, Lin):
                return False
        return NotImplemented
    out = {}
    fh, fq = repo.func(UTIL, "HydParam._to_si"), repo.func(UTIL, "QualParam._to_si")
    for p in hyd:
        sig = []
        for u in sorted(flow):
            for dw in (False, True):
                ev = Evaluator({"self": Obj("HydParam." + p, {}), "flow_units": unit_obj(u), "data": Lin(1.0, 0.0), "darcy_weisbach": dw}, class_attr, hook)
                r = ev.run(fh.body)
                sig.append(round(r.k, 15) if isinstance(r, Lin) else None)
        out["HydParam." + p] = tuple(sig)
    for p in qual:
        sig = []
        for u in sorted(flow):
            for m in sorted(mass):
                for o in (0, 1, 2):
                    ev = Evaluator({"self": Obj("QualParam." + p, {}), "flow_units": unit_obj(u), "data": Lin(1.0, 0.0), "mass_units": Obj("MassUnits." + m, {"factor": mass[m]}), "reaction_order": o}, class_attr, hook)
                    r = ev.run(fq.body)
                    sig.append(round(r.k, 18) if isinstance(r, Lin) else None)
        out["QualParam." + p] = tuple(sig)
    return out


PARAM_ALIAS = {"BulkReactionCoeff": "QualParam.BulkReactionCoeff", "WallReactionCoeff": "QualParam.WallReactionCoeff"}


def pclass(classes, param):
    return classes.get(PARAM_ALIAS.get(param, param))


# ------------------------------------------------------------------ module-level format templates
def module_string(repo, name, depth=0):
    """text of a module-level string constant of io.py, folding the ways such a template is assembled from other constants:
    'a' + B, 'a' * 3, '%s' % B, 'x{}'.format(B), f'...{B}...' (B another module-level constant, string or number) -- None if it is not one"""
    def fold(e, d):
        if d > 8:
            return None
        if isinstance(e, ast.Constant) and isinstance(e.value, (str, int, float)) and not isinstance(e.value, bool):
            return e.value
        if isinstance(e, ast.Name):
            try:
                return fold(repo.module_assign(IO, e.id), d + 1)
            except AnchorError:
                return None
        if isinstance(e, ast.BinOp):
            a, b = fold(e.left, d + 1), (tuple(fold(x, d + 1) for x in e.right.elts) if isinstance(e.right, ast.Tuple) else fold(e.right, d + 1))
            if a is None or b is None or (isinstance(b, tuple) and None in b):
                return None
            try:
                if isinstance(e.op, ast.Add):
                    return a + b
                if isinstance(e.op, ast.Mult):
                    return a * b
                if isinstance(e.op, ast.Mod) and isinstance(a, str):
                    return a % b
            except TypeError:
                return None
            return None
        if isinstance(e, ast.JoinedStr):
            out = ""
            for part in e.values:
                if isinstance(part, ast.Constant):
                    out += str(part.value)
                elif isinstance(part, ast.FormattedValue) and part.format_spec is None and part.conversion == -1:
                    v = fold(part.value, d + 1)
                    if v is None:
                        return None
                    out += str(v)
                else:
                    return None
            return out
        if isinstance(e, ast.Call) and isinstance(e.func, ast.Attribute) and e.func.attr == "format" and not any(k.arg is None for k in e.keywords):
            base, args, kw = fold(e.func.value, d + 1), [fold(a, d + 1) for a in e.args], {k.arg: fold(k.value, d + 1) for k in e.keywords}
            if isinstance(base, str) and None not in args and None not in kw.values():
                try:
                    return base.format(*args, **kw)
                except (IndexError, KeyError, ValueError):
                    return None
        return None
    try:
        v = fold(repo.module_assign(IO, name), depth)
    except AnchorError:
        return None
    return v if isinstance(v, str) else None


def format_specs(fmt):
    """placeholder (name or auto / explicit index) -> format spec text"""
    import string
    out, auto = {}, 0
    for lit, field, spec, conv in string.Formatter().parse(fmt):
        if field is None:
            continue
        field = re.split(r"[.\[]", field)[0]
        if field == "":
            k, auto = auto, auto + 1
        elif field.isdigit():
            k = int(field)
        else:
            k = field
        out[k] = spec or ""
    return out


PROBES = (1.2345678901234e-4, 0.012345678901234, 1.2345678901234, 30.480000000001, 123.45678901234, 2831.6846592123, 123456.78901234)


def digits_kept(spec):
    """significant decimal digits a format spec keeps for every magnitude a converted quantity takes (worst case over probe values from 1e-4 to
    1e5): the spec is APPLIED to the probes and the text read back, so width / type / precision are judged by their effect, not by their spelling.
    A string spec (the value went through str(): shortest repr, exact) or an empty spec keeps everything (17)."""
    import math
    worst = 17
    for v in PROBES:
        try:
            txt = format(v, spec)
        except ValueError:
            try:
                txt = format(str(v), spec)
            except ValueError:
                return None
        try:
            back = float(txt)
        except ValueError:
            return None
        err = abs(back - v) / abs(v)
        worst = min(worst, 17 if err == 0 else int(math.floor(-math.log10(err))))
    return worst


# ------------------------------------------------------------------ row extraction
def file_columns(fmt):
    """placeholder (name or auto index) -> whitespace token position in the line; plus literal keyword tokens."""
    try:
        list(placeholders(fmt))
    except ValueError:
        return None, set()
    cols = {}
    lits = set()
    auto = 0
    for i, tok in enumerate(fmt.split()):
        m = re.findall(r"\{([^{}:!]*)[^{}]*\}", tok)
        if m:
            for f in m:
                if f == "":
                    cols[auto] = i
                    auto += 1
                elif f.isdigit():
                    cols[int(f)] = i
                else:
                    cols[f] = i
        elif re.fullmatch(r"[A-Za-z][A-Za-z_\-]*", tok):
            lits.add(tok.upper())
    return cols, lits


class Row(object):
    def __init__(self, section, side, conv, col, clauses, neg, where, sink=None, plain=None):
        self.section, self.side, self.conv, self.col, self.where, self.sink, self.plain = section, side, conv, col, where, sink, plain
        self.spec = None                   # writer rows: format spec of the placeholder the value is printed with
        self.clauses = frozenset(frozenset(c) for c in clauses)
        self.neg = frozenset(neg)
        self.disc = frozenset(t for c in self.clauses for t in c)

    def key(self):
        return (self.section, self.side, repr(self.conv) if self.conv else self.plain, self.col, self.clauses)

    def slotkey(self):
        return (repr(self.conv) if self.conv else self.plain, self.col)


def compatible(a, b):
    for x, y in ((a, b), (b, a)):
        for c in x.clauses:
            if c <= y.neg:
                return False                       # x requires a keyword that y's path excluded
            if y.clauses and not any(c & d for d in y.clauses):
                return False                       # x requires a keyword y's path does not have
    return True


def same_slot(w, r):
    if w.col is not None and r.col is not None:
        return w.col == r.col
    return bool(w.disc & r.disc)          # keyword-addressed fields (e.g. pump HEAD/POWER/SPEED pairs)


def drop_shadowed(rows):
    """a row without positive discriminator is dropped when the same (conversion, column) also occurs with one (else-of-everything paths)."""
    keyed = {}
    for r in rows:
        keyed.setdefault(r.slotkey(), []).append(r)
    out = []
    for k, rs in keyed.items():
        pos = [r for r in rs if r.clauses]
        out.extend(pos if pos else rs)
    return out


def is_point(conv):
    """the converted value is a coordinate of a curve point (an indexed element of something that is not the split line): curves are joined separately"""
    v = conv.value
    return conv.column() is None and isinstance(v, Opaque) and v.base is not None and isinstance(v.key, int) and not isinstance(v.key, bool)


def writer_rows(repo, section, qual=None):
    fn, outs, ex = run_paths(repo, qual or ("InpFile._write_" + section))
    rows = {}
    for o in outs:
        d, neg = discriminators(o.conds)
        for e in o.events:
            if e[0] != "format":
                continue
            args, kw = e[2]
            fmt = e[1]
            if fmt and "{" not in fmt:
                fmt = module_string(repo, fmt) or fmt
            cols, lits = file_columns(fmt) if fmt and "{" in fmt else (None, set())
            try:
                specs = format_specs(fmt) if cols else {}
            except ValueError:
                specs = {}
            strs = {a.upper() for a in args if isinstance(a, str) and re.fullmatch(r"[A-Za-z][A-Za-z_\-]*", a)}
            items = [(i, a) for i, a in enumerate(args)] + list(kw.items())
            cl = list(d) + [frozenset([x]) for x in sorted(lits | strs)]
            for k, v in items:
                col = cols.get(k) if cols else (k if isinstance(k, int) else None)
                for c, path in find_convs(v):
                    r = Row(section, "w", c, col, cl, neg, loc(IO, fn) + ":%d" % c.lineno)
                    r.spec = specs.get(k)
                    if r.key() in rows and rows[r.key()].spec != r.spec:
                        r.spec_also = (getattr(rows[r.key()], "spec_also", ()) + (rows[r.key()].spec,))
                    rows[r.key()] = r
                if not list(find_convs(v)) and col is not None and isinstance(v, Opaque) and v.text not in ("<formatted>",) and re.search(r"\.\w+$", v.text):
                    r = Row(section, "w", None, col, cl, neg, loc(IO, fn), plain=v.text)
                    rows[r.key()] = r
    return fn, drop_shadowed(list(rows.values()))


class CompExec(SymExec):
    """SymExec with two summaries that make the form of a dispatch / collection irrelevant:
    * a list comprehension with one generator whose element converts units is summarised like a loop body executed once: [element];
    * `if x in TABLE:` for an undecided x and a dict TABLE with string keys splits into one path per key (recorded as the condition
      `x == 'key'`), and TABLE[x] on such a path is the entry of that key -- a lookup table behaves like the if/elif chain it replaces."""

    def e_ListComp(self, n, st):
        if len(n.generators) == 1 and not n.generators[0].ifs and any(isinstance(c, ast.Call) and call_name(c) in ("to_si", "from_si") for c in ast.walk(n.elt)):
            sub = st.fork()
            self.bind_loop_target(n.generators[0].target, sub)
            return [self.ev(n.elt, sub)]
        return SymExec.e_ListComp(self, n, st)

    # f-strings and %-formatting produce the same text as str.format: they are recorded as the same `format` event (format string with
    # one auto-numbered placeholder per value, positional arguments)
    def _format_event(self, fmt, args, node, st):
        st.events.append(("format", fmt, (list(args), {}), getattr(node, "lineno", 0), tuple(l[1] for l in st.loops)))
        return Opaque("<formatted>")

    def e_JoinedStr(self, n, st):
        fmt, args = "", []
        for part in n.values:
            if isinstance(part, ast.Constant):
                fmt += str(part.value).replace("{", "{{").replace("}", "}}")
            elif isinstance(part, ast.FormattedValue):
                spec = ""
                if part.format_spec is not None:
                    if not all(isinstance(x, ast.Constant) for x in part.format_spec.values):
                        return SymExec.e_JoinedStr(self, n, st)
                    spec = ":" + "".join(str(x.value) for x in part.format_spec.values)
                fmt += "{" + spec + "}"
                args.append(self.ev(part.value, st))
            else:
                return SymExec.e_JoinedStr(self, n, st)
        if not args:
            return fmt.replace("{{", "{").replace("}}", "}")
        return self._format_event(fmt, args, n, st)

    def e_BinOp(self, n, st):
        if isinstance(n.op, ast.Mod):
            left = self.ev(n.left, st)
            if isinstance(left, str) and "%" in left:
                pieces = re.split(r"(%%|%[-+ #0]*\d*(?:\.\d+)?[sdifgGeErx])", left)
                fmt, k = "", 0
                for pc in pieces:
                    m = re.fullmatch(r"%([-+ #0]*)(\d*)((?:\.\d+)?)([sdifgGeErx])", pc or "")
                    if pc == "%%":
                        fmt += "%"
                    elif m:
                        fl, width, prec, typ = m.groups()
                        typ = {"i": "d", "r": "s"}.get(typ, typ)
                        spec = ("<" if "-" in fl else "") + ("+" if "+" in fl else (" " if " " in fl else "")) + ("#" if "#" in fl else "") \
                            + ("0" if "0" in fl and "-" not in fl else "") + width + prec + ("" if typ == "s" and not (width or prec) else typ)
                        fmt += "{" + (":" + spec if spec else "") + "}"
                        k += 1
                    else:
                        fmt += (pc or "").replace("{", "{{").replace("}", "}}")
                right = self.ev(n.right, st)
                args = list(right) if isinstance(right, tuple) else [right]
                if k == len(args) and k:
                    return self._format_event(fmt, args, n, st)
                return self.binop(n.op, left, right, n)
            return self.binop(n.op, left, self.ev(n.right, st), n)
        return SymExec.e_BinOp(self, n, st)

    def bind_loop_target(self, t, st):
        # `for x, y in points`: x and y keep their names but remember which component of the iterated item they are
        if isinstance(t, (ast.Tuple, ast.List)) and all(isinstance(e, ast.Name) for e in t.elts):
            item = Opaque(unparse(t))
            for i, e in enumerate(t.elts):
                st.env[e.id] = Opaque(e.id, item, i)
            return
        SymExec.bind_loop_target(self, t, st)

    @staticmethod
    def _table(node, st, ex):
        """the abstract dict a Name or a dict display denotes (both are free of effects), else None"""
        if isinstance(node, ast.Name) and isinstance(st.env.get(node.id), dict):
            return st.env[node.id]
        if isinstance(node, ast.Dict) and all(isinstance(k, ast.Constant) for k in node.keys):
            return ex.ev(node, st)
        return None

    def branch(self, test, body, orelse, st):
        if isinstance(test, ast.Compare) and len(test.ops) == 1 and isinstance(test.ops[0], ast.In):
            table = self._table(test.comparators[0], st, self)
            if table and all(isinstance(k, str) for k in table):
                left = self.ev(test.left, st)
                if isinstance(left, Opaque):
                    outs = []
                    for k in table:
                        s2 = st.fork()
                        s2.conds.append(("%s == %r" % (left.text, k), True))
                        outs.extend(self.block(body, [s2]))
                    st.conds.append(("%s in %r" % (left.text, tuple(table)), False))
                    return outs + self.block(orelse, [st])
        return SymExec.branch(self, test, body, orelse, st)

    def e_Subscript(self, n, st):
        table = self._table(n.value, st, self)
        if table is not None:
            key = self.ev(n.slice, st)
            if isinstance(key, Opaque):
                for t, v in reversed(st.conds):
                    m = re.fullmatch(re.escape(key.text) + r" == '([^']*)'", t)
                    if v and m and m.group(1) in table:
                        return table[m.group(1)]
        return SymExec.e_Subscript(self, n, st)


def run_paths(repo, qual, env=None, hook_extra=None, body=None):
    """symbolically execute InpFile.<qual> (or a given statement list) -> (fn, states, executor)."""
    fn = repo.func(IO, qual) if isinstance(qual, str) else qual
    ex = CompExec(call_hook=make_hook(hook_extra))
    e = {a.arg: Opaque(a.arg) for a in fn.args.args}
    e.update(env or {})
    return fn, ex.block(body if body is not None else fn.body, [State(e)]), ex


def reader_line_body(fn):
    """the reader's per-line loop: -> (loop, statements before it, name of the variable holding the split line, statements of the body after
    that variable is bound and the empty-line test).  The variable is recognised by what it is bound to (`<text>.split()`), not by its name."""
    loops = [n for n in fn.body if isinstance(n, ast.For)]
    if not loops:
        raise ExtractError("%s: no per-line loop" % fn.name)
    lp = loops[0]
    body = list(lp.body)
    tok, k = None, 0
    for i, s in enumerate(body):
        if isinstance(s, ast.Assign) and len(s.targets) == 1 and isinstance(s.targets[0], ast.Name) and isinstance(s.value, ast.Call) \
                and isinstance(s.value.func, ast.Attribute) and s.value.func.attr == "split" and not s.value.args and not s.value.keywords:
            tok, k = s.targets[0].id, i + 1
    if tok is None:
        # the split line is bound elsewhere (e.g. the loop variable of `for lnum, tokens in <helper>(...)`): the name whose elements are picked
        # by position most often in the body
        cnt = {}
        for x in ast.walk(lp):
            if isinstance(x, ast.Subscript) and isinstance(x.value, ast.Name) and isinstance(x.slice, ast.Constant) and isinstance(x.slice.value, int):
                cnt[x.value.id] = cnt.get(x.value.id, 0) + 1
        tok = max(sorted(cnt), key=lambda k_: cnt[k_]) if cnt else "current"
    # the empty-line guard: an `if` on the token list whose body only continues
    if k < len(body) and isinstance(body[k], ast.If) and not body[k].orelse and all(isinstance(x, ast.Continue) for x in body[k].body) \
            and tok in {x.id for x in ast.walk(body[k].test) if isinstance(x, ast.Name)}:
        k += 1
    pre = [s for s in fn.body if s.lineno < lp.lineno]
    return lp, pre, tok, body[k:]


def reader_paths(repo, section, qual=None, fn=None):
    """abstract execution of the per-line loop body of InpFile._read_<section> with the split line bound to `current` -> (fn, path states)"""
    rf = fn or repo.func(IO, qual or ("InpFile._read_" + section))
    lp, pre, tok, body = reader_line_body(rf)
    ex = CompExec(call_hook=make_hook())
    st = State({"self": Opaque("self"), "line": Opaque("line"), "lnum": Opaque("lnum")})
    st0 = ex.block(pre, [st])[0]
    st0.env[tok] = Opaque("current")          # canonical name of the split line in every text derived from it
    st0.done = False
    return rf, ex.block(body, [st0])


def reader_rows(repo, section, qual=None, fn=None):
    rf, outs = reader_paths(repo, section, qual, fn)
    rows = {}
    for o in outs:
        d, neg = discriminators(o.conds)
        for e in o.events:
            vals = []
            if e[0] == "call":
                nm, args, kw = e[2]
                vals = [(e[1].split("(")[0], (i,), a) for i, a in enumerate(args)] + [(e[1].split("(")[0], (k,), a) for k, a in kw.items()]
            elif e[0] == "store":
                vals = [(e[1], (), e[2])]
            for sink, p0, v in vals:
                for c, path in find_convs(v):
                    r = Row(section, "r", c, c.column(), d, neg, loc(IO, rf) + ":%d" % c.lineno, sink="%s%s" % (sink, list(p0 + path)))
                    rows[r.key()] = r
    return rf, drop_shadowed(list(rows.values()))


def inverse(classes, w, r):
    """-> (ok, reason)"""
    cw, cr = w.conv, r.conv
    if cw.direction == cr.direction:
        return False, "both sides convert in the same direction (%s)" % cw.direction
    a, b = pclass(classes, cw.param), pclass(classes, cr.param)
    if a is None or b is None:
        return False, "unknown parameter %s / %s" % (cw.param, cr.param)
    if a != b:
        return False, "different conversion classes: writer %s, reader %s" % (cw.param, cr.param)
    if cw.flags != cr.flags:
        return False, "different flags: writer %s, reader %s" % (cw.flags, cr.flags)
    return True, ""


# ------------------------------------------------------------------ simple controls: whole-function facts
def inline_table(repo, fn, clsname=None):
    """callees the abstract execution of fn steps into: the defs nested in fn and (clsname given) the methods of that class that fn
    calls through self -- so it does not matter whether a sub-computation is written in place, as a closure or as a private method."""
    tab = {n.name: n for n in ast.walk(fn) if isinstance(n, ast.FunctionDef) and n is not fn}
    if clsname:
        meths = {m.name: m for m in repo.cls(IO, clsname).body if isinstance(m, ast.FunctionDef)}
        for c in ast.walk(fn):
            if isinstance(c, ast.Call) and isinstance(c.func, ast.Attribute) and isinstance(c.func.value, ast.Name) and c.func.value.id == "self" and meths.get(c.func.attr) not in (None, fn):
                m = meths[c.func.attr]
                if any(isinstance(d, ast.Name) and d.id == "staticmethod" for d in m.decorator_list):
                    tab["self." + m.name] = m
                    continue
                cc = copy.copy(m)
                cc.args = copy.copy(m.args)
                cc.args.args = list(m.args.args[1:])
                tab["self." + m.name] = cc
    return tab


def _isinstance_class(t):
    m = re.search(r"isinstance\(.*,\s*\(?([\w\.]+)\)?\)$", t)
    return m.group(1).split(".")[-1] if m else None


def controls_writer_facts(repo, wctl, vts):
    """-> (valve type -> set of conversion params (None = unconverted) the writer prints in file column 2 for a `setting` action,
           node class -> set of params printed in file column 7 (threshold))"""
    wmap, thr = {}, {}
    inl = inline_table(repo, wctl, "InpFile")
    for vt in vts:
        def ah(base, attr, st, vt=vt):
            if isinstance(base, Opaque) and attr == "valve_type":
                return vt
            if isinstance(base, Opaque) and attr == "_attribute":
                return "setting"
            return NotImplemented
        ex = CompExec(call_hook=make_hook(), attr_hook=ah, inline=inl, test_hook=lambda t, n, s: True if ("isinstance(" in t and _isinstance_class(t) == "Valve") else None)
        res = set()
        for o in ex.run(wctl):
            if o.raised:
                continue
            for e in o.events:
                if e[0] != "format" or not isinstance(e[1], str) or "{" not in e[1]:
                    continue
                cols, _ = file_columns(e[1])
                if not cols:
                    continue
                args, kw = e[2]
                for k, v in [(i, a) for i, a in enumerate(args)] + list(kw.items()):
                    cs = [c.param for c, _ in find_convs(v)]
                    if cols.get(k) == 2:
                        res.add(cs[0] if cs else None)
                    elif cols.get(k) == 7:
                        for t, val in o.conds:
                            if val and "isinstance(" in t and "_source_obj" in t and _isinstance_class(t):
                                thr.setdefault(_isinstance_class(t), set()).add(cs[0] if cs else None)
                            elif val and "node_type" in t and "_source_obj" in t:
                                for nt in re.findall(r"'(\w+)'", t):
                                    thr.setdefault(nt, set()).add(cs[0] if cs else None)
        if not res:
            raise ExtractError("_write_controls: no line with a value in the setting column (2) found for a %s" % vt)
        wmap[vt] = res
    return wmap, thr


def controls_reader_facts(repo, rctl, vts):
    """-> (valve type -> set of params the `setting` of the ControlAction is converted with (None = unconverted),
           node type -> set of (attribute, param, column) of the conditional control's threshold, {'setting': columns converted})"""
    rmap, thr, cols = {}, {}, {"setting": set()}

    def th(t, n, s):
        if re.search(r"'(OPEN|OPENED|CLOSED|ACTIVE)'", t):
            return False                      # the action is a numeric setting, not a status keyword
        if "isinstance(" in t and _isinstance_class(t) == "Pump":
            return False
        if "isinstance(" in t and _isinstance_class(t) == "Valve":
            return True
        return None
    for vt in vts:
        def ah(base, attr, st, vt=vt):
            if isinstance(base, Opaque) and attr == "valve_type":
                return vt
            return NotImplemented
        ex = CompExec(call_hook=make_hook(), attr_hook=ah, test_hook=th, inline=inline_table(repo, rctl))
        res = set()
        for o in ex.run(rctl):
            if o.raised:
                continue
            for e in o.events:
                if e[0] != "call":
                    continue
                nm, args, kw = e[2]
                last = (nm or "").split(".")[-1]
                if last == "ControlAction" and len(args) >= 3 and args[1] == "setting":
                    cs = [c for c, _ in find_convs(args[2])]
                    res.add(cs[0].param if cs else None)
                    if cs:
                        cols["setting"].add(cs[0].column())
                elif last == "_conditional_control" and len(args) >= 4 and isinstance(args[1], str):
                    cs = [c for c, _ in find_convs(args[3])]
                    nts = {x for t, v in o.conds if v and "node_type" in t for x in re.findall(r"'(\w+)'", t)}
                    for nt in nts:
                        thr.setdefault(nt, set()).add((args[1], cs[0].param if cs else None, cs[0].column() if cs else None))
        if not res:
            raise ExtractError("_read_control_line: no ControlAction(..., 'setting', value) found for a %s" % vt)
        rmap[vt] = res
    return rmap, thr, cols


# ------------------------------------------------------------------ version differential
def _exec_with(repo, fn, env, test_hook=None, max_paths=40000):
    ex = CompExec(call_hook=make_hook(), test_hook=test_hook, inline=inline_table(repo, fn, "InpFile"))
    ex.MAX_PATHS = max_paths
    e = {a.arg: Opaque(a.arg) for a in fn.args.args}
    for k in env:
        if k not in e:
            raise AnchorError("%s has no parameter %r" % (fn.name, k))
    e.update(env)
    return [o for o in ex.block(fn.body, [State(e)]) if not o.raised]


def _line_events(repo, o):
    """(format string, {file column -> value}) of every formatted line on a path"""
    for e in o.events:
        if e[0] != "format" or not e[1]:
            continue
        fmt = e[1]
        if "{" not in fmt:
            fmt = module_string(repo, fmt) or fmt
        if not isinstance(fmt, str) or "{" not in fmt:
            continue
        cols, _ = file_columns(fmt)
        if cols is None:
            continue
        args, kw = e[2]
        yield fmt, args, {cols[k]: v for k, v in list(enumerate(args)) + list(kw.items()) if k in cols}


def option_lines(repo, wo, version):
    """[(keyword, format arguments)] of the [OPTIONS] lines _write_options can write for the given INP version (keyword = first format
    argument or leading literal of the format string), over all paths"""
    out = []
    for o in _exec_with(repo, wo, {"version": version}):
        for fmt, args, vals in _line_events(repo, o):
            lab = args[0] if args and isinstance(args[0], str) else None
            if lab is None:
                m = re.match(r"\s*([A-Za-z][A-Za-z ]*[A-Za-z])\s", fmt)
                lab = m.group(1) if m else None
            if lab and re.fullmatch(r"[A-Za-z][A-Za-z ]*", lab.strip()):
                out.append((lab.strip().upper(), args))
    return out


def option_reader_convs(repo, ro):
    """option attribute -> {(direction, param, index of the converted token, keywords true on the path)} for every converted value _read_options stores"""
    fn, outs, ex = run_paths(repo, ro)
    res = {}
    for o in outs:
        if o.raised:
            continue
        d, neg = discriminators(o.conds)
        toks = frozenset(t for c in d for t in c)
        for e in o.events:
            if e[0] == "store":
                for c, p in find_convs(e[2]):
                    res.setdefault(e[1].split(".")[-1], set()).add((c.direction, c.param, c.value.key if isinstance(c.value, Opaque) else None, toks))
    return res


def tank_lines(repo, wt, version):
    """[(value in the curve column 7, value in the overflow column 8)] over the paths of _write_tanks for a tank that HAS a volume curve"""
    def th(t, n, s):
        m = re.fullmatch(r"(\S*vol_curve(?:_name)?)( is not None| is None)?", t)
        if m:
            return m.group(2) != " is None"
        return None
    out = []
    for o in _exec_with(repo, wt, {"version": version}, th):
        for fmt, args, vals in _line_events(repo, o):
            if isinstance(vals.get(0), str) and vals[0].lstrip().startswith(";"):
                continue                                  # column header
            if 7 in vals:
                out.append((vals.get(7), vals.get(8)))
    if not out:
        raise ExtractError("_write_tanks: no data line with a curve column found (version %s)" % version)
    return out


# ------------------------------------------------------------------ concrete run of a section writer on a mock model
class _Mock(object):
    _sa_mock = True

    def __init__(self, **kw):
        self.__dict__.update(kw)


class _MockFile(_Mock):
    def __init__(self):
        self.chunks = []

    def write(self, b):
        self.chunks.append(b.decode("utf-8") if isinstance(b, bytes) else str(b))


def concrete_world(repo, identity_units=True):
    """a world of the concrete evaluator (sa/concrete.py) for running reader / writer methods of InpFile on mock objects; stdlib `re` is the real one
    (it only ever sees concrete strings), unit conversion is the identity when the unit is not the subject"""
    import re as _re
    from ..concrete import World, Namespace, stdlib_overrides
    ov, _state = stdlib_overrides()
    ov["sys"] = Namespace("sys", getdefaultencoding=lambda: "utf-8", version_info=(3, 10), platform="linux")
    ov["re"] = _re
    ov["six"] = Namespace("six", with_metaclass=lambda meta, *bases: (bases[0] if bases else object), string_types=(str,), PY3=True, PY2=False)
    import operator as _op
    for nm, f_ in (("equal", _op.eq), ("not_equal", _op.ne), ("greater", _op.gt), ("greater_equal", _op.ge), ("less", _op.lt), ("less_equal", _op.le)):
        setattr(ov["numpy"], nm, f_)
    if identity_units:
        ov["wntr.epanet.util.from_si"] = lambda fu, v, p, *a, **k: v
        ov["wntr.epanet.util.to_si"] = lambda fu, v, p, *a, **k: v
    return World(repo, ov)


def concrete_demand_lines(repo, ndem, cat):
    """the [DEMANDS] data lines InpFile._write_demands writes for a junction 'J1' with ndem demands, the first of category cat"""
    from ..concrete import ProgramError
    world = concrete_world(repo)
    dem = [_Mock(category=(cat if i == 0 else None), base_value=1.0 + i, pattern_name=None) for i in range(ndem)]
    junction = _Mock(demand_timeseries_list=dem, name="J1")
    wn = _Mock(junction_name_list=["J1"], pattern_name_list=[], get_node=lambda n: junction, nodes={"J1": junction})
    f = _MockFile()
    try:
        inp = world.interp.call(world.function(IO, "InpFile"), [], {})
        world.interp.call(world.interp.getattr_(inp, "_write_demands"), [f, wn], {})
    except ProgramError as e:
        raise ExtractError("_write_demands could not be run on the mock model: %s" % e)
    return [l for l in "".join(f.chunks).splitlines() if l.split() and l.split()[0] == "J1"]


TIME_OPTIONS = dict(duration=86400, hydraulic_timestep=3600, quality_timestep=360, pattern_timestep=7200, pattern_start=1800, report_timestep=3600, report_start=7200,
                    start_clocktime=0, rule_timestep=360, statistic="NONE")


def concrete_times_round_trip(repo, world, values):
    """InpFile._write_times run on mock options.time holding `values`, the text handed to InpFile._read_times of a fresh reader with empty
    mock options -> (text written, {option: value read back}); 'raises: ...' instead of the dict when the reader rejects the text"""
    from ..concrete import ProgramError
    cls = world.function(IO, "InpFile")
    f = _MockFile()
    try:
        w = world.interp.call(cls, [], {})
        world.interp.call(world.interp.getattr_(w, "_write_times"), [f, _Mock(options=_Mock(time=_Mock(**values)))], {})
    except ProgramError as e:
        raise ExtractError("_write_times could not be run on the mock options: %s" % e)
    text = "".join(f.chunks)
    lines = [(i + 1, l) for i, l in enumerate(text.splitlines()) if l.strip() and not l.lstrip().startswith("[")]
    back = _Mock()
    try:
        r = world.interp.call(cls, [], {})
        world.interp.setattr_(r, "wn", _Mock(options=_Mock(time=back)))
        world.interp.setattr_(r, "sections", {"[TIMES]": lines})
        world.interp.call(world.interp.getattr_(r, "_read_times"), [], {})
    except ProgramError as e:
        return text, "raises: %s" % e
    return text, dict(back.__dict__)


def concrete_read_times(world, lines):
    """InpFile._read_times run on the given [TIMES] lines with empty mock options -> {option: value read} or 'raises: ...'"""
    from ..concrete import ProgramError
    back = _Mock()
    try:
        r = world.interp.call(world.function(IO, "InpFile"), [], {})
        world.interp.setattr_(r, "wn", _Mock(options=_Mock(time=back)))
        world.interp.setattr_(r, "sections", {"[TIMES]": [(i + 1, l) for i, l in enumerate(lines)]})
        world.interp.call(world.interp.getattr_(r, "_read_times"), [], {})
    except ProgramError as e:
        return "raises: %s" % e
    return dict(back.__dict__)


def concrete_condition_threshold(world, clsname, text):
    """the threshold (seconds) a time condition of controls.py holds after being constructed from the text of a rule clause -- its __init__ is run"""
    from ..concrete import ProgramError
    try:
        o = world.interp.call(world.function("wntr/network/controls.py", clsname), [None, None, text], {})
        return world.interp.getattr_(o, "_threshold")
    except ProgramError as e:
        return "raises: %s" % e


def concrete_sim_steps(world, hydraulic, pattern, report):
    """(hydraulic step, report step) WNTRSimulator._setup_sim_options settles on for the given time options (run on an uninitialised instance)"""
    from ..concrete import ProgramError, Instance
    CORE = "wntr/sim/core.py"
    sim = Instance(world.function(CORE, "WNTRSimulator"))
    sim._wn = _Mock(options=_Mock(time=_Mock(hydraulic_timestep=hydraulic, pattern_timestep=pattern, report_timestep=report)))
    sim._model = None
    try:
        world.interp.call(world.interp.getattr_(sim, "_setup_sim_options"), ["solver", None, None, None, False], {})
        return world.interp.getattr_(sim, "_hydraulic_timestep"), world.interp.getattr_(sim, "_report_timestep")
    except ProgramError as e:
        return "raises: %s" % e, None


def concrete_time_control_round_trip(repo, instants):
    """a simple control `set pump speed AT TIME t`, written by InpFile._write_controls (run on instances of the repository's own Control /
    ControlAction / SimTimeCondition / Pump classes whose fields are set directly) and the written line parsed by _read_control_line (run with
    Control / ControlAction replaced by recorders) -> [(t, line written, time read back)]"""
    import re as _re
    from ..concrete import World, Namespace, Instance, ProgramError, stdlib_overrides
    CTRL, ELEM = "wntr/network/controls.py", "wntr/network/elements.py"
    ww = concrete_world(repo)
    ov, _s = stdlib_overrides()
    ov["sys"] = Namespace("sys", getdefaultencoding=lambda: "utf-8", version_info=(3, 10), platform="linux")
    ov["re"] = _re
    ov["wntr.epanet.util.to_si"] = lambda fu, v, p, *a, **k: v
    ov["wntr.network.controls.Control"] = Namespace("Control", _time_control=lambda wn, t, kind, daily, act, name: ("time", t, kind, daily, act),
                                                    _conditional_control=lambda node, attr, oper, thr, act, name: ("cond", node, attr, oper, thr, act))
    ov["wntr.network.controls.ControlAction"] = lambda obj, attr, val: ("action", obj, attr, val)
    rw = World(repo, ov)

    def inst(world, rel, cls, **attrs):
        o = Instance(world.function(rel, cls))
        for k, v in attrs.items():
            setattr(o, k, v)
        return o
    rows = []
    for t in instants:
        pump = inst(ww, ELEM, "Pump", _link_name="P1", name="P1", link_type="Pump")
        act = inst(ww, CTRL, "ControlAction", _target_obj=pump, _attribute="base_speed", _value=1.5, _private_attribute="base_speed")
        ctl = inst(ww, CTRL, "Control", _then_actions=[act], _else_actions=[], _control_type="simple (not a rule)", _condition=inst(ww, CTRL, "SimTimeCondition", _threshold=t),
                   _name="c1", _priority=3)
        f = _MockFile()
        try:
            w = ww.interp.call(ww.function(IO, "InpFile"), [], {})
            ww.interp.call(ww.interp.getattr_(w, "_write_controls"), [f, _Mock(controls=lambda: [("c1", ctl)])], {})
        except ProgramError as e:
            raise ExtractError("_write_controls could not be run on the mock time control: %s" % e)
        lines = [l for l in "".join(f.chunks).splitlines() if l.strip() and not l.lstrip().startswith("[")]
        if len(lines) != 1:
            raise ExtractError("_write_controls wrote %d lines for one time control: %r" % (len(lines), lines))
        p2 = inst(rw, ELEM, "Pump", _link_name="P1", name="P1", link_type="Pump")
        try:
            r = rw.interp.call(rw.function(IO, "_read_control_line"), [lines[0], _Mock(get_link=lambda n: p2, get_node=lambda n: None), None, "c1"], {})
            back = r[1] if isinstance(r, tuple) and r and r[0] == "time" else "not a time control: %r" % (r,)
        except ProgramError as e:
            back = "raises: %s" % e
        rows.append((t, lines[0].strip(), back))
    return rows


def concrete_rule_clock_round_trip(repo, instants):
    """ControlCondition._sec_to_clock (the rule writer's text of a SYSTEM CLOCKTIME threshold) composed with ControlCondition._parse_value
    (what TimeOfDayCondition makes of that text when the rule is read), both run by the concrete evaluator -> [(t, text, value read back)]"""
    from ..concrete import ProgramError
    CTRL = "wntr/network/controls.py"
    world = concrete_world(repo)
    cc = world.function(CTRL, "ControlCondition")
    rows = []
    for t in instants:
        try:
            txt = world.interp.call(world.interp.getattr_(cc, "_sec_to_clock"), [t], {})
        except ProgramError as e:
            raise ExtractError("ControlCondition._sec_to_clock(%d) could not be run: %s" % (t, e))
        try:
            back = world.interp.call(world.interp.getattr_(cc, "_parse_value"), [txt], {})
        except ProgramError as e:
            back = "raises: %s" % e
        rows.append((t, txt, back))
    return rows


QUICK_COMBOS = [("LPS", 2.2), ("GPM", 2.2), ("GPM", 2.0), ("AFD", 2.2), ("CMH", 2.0)]
QUICK_COMBOS_B = [("MGD", 2.2), ("LPM", 2.0)]          # fixture variant B (Hazen-Williams, demand-driven, trace, statistic ...) in the quick tier
ALL_UNITS = ("CFS", "GPM", "MGD", "IMGD", "AFD", "LPS", "LPM", "MLD", "CMH", "CMD")


def run_thorough(repo, chk):
    # R-C12-17 on every flow-unit system and both INP versions (the quick tier ran five of the twenty combinations)
    from .c12_roundtrip import round_trip_rules
    rest = [(u, v) for u in ALL_UNITS for v in (2.2, 2.0) if (u, v) not in QUICK_COMBOS]
    rest_b = [(u, v) for u in ALL_UNITS for v in (2.2, 2.0) if (u, v) not in QUICK_COMBOS_B]
    try:
        round_trip_rules(repo, chk, rest)
        round_trip_rules(repo, chk, rest_b, variant="B")
    except AnchorError as e:
        chk.error("R-C12-17: %s: %s" % (type(e).__name__, e))
    chk.extra["exhaustive_over_unit_systems_and_versions"] = True


def reader_state_reset(repo, chk):
    """R-C12-18 (T1, effects + CFG).  InpFile keeps per-file state on the object (section lines, curve points, comments ...) that the section readers fill IN PLACE
    (`self.X[k] = ..`, `self.X[k].append(..)`, `self.X.append(..)`).  `read()` may be called again on the same object (io.write(..); io.read(..); io.write(..);
    io.read(..) is the round trip of the statement): every such container must be made fresh in `read` before anything fills it -- rebound (`self.X = ..`),
    cleared (`self.X.clear()`), or, for a container whose fillers never create keys, given a fresh value under every key by a loop (`for k in T: self.X[k] = []`).
    Otherwise the second file read through the object is the union of both files."""
    from ..cfg import CFG
    cls = repo.cls(IO, "InpFile")
    meths = {n.name: n for n in cls.body if isinstance(n, ast.FunctionDef)}
    rd = repo.func(IO, "InpFile.read")
    chk.fn(rd)
    MUT = {"append", "extend", "insert", "add", "update", "setdefault", "pop", "remove", "clear", "appendleft"}

    def self_attr(e):
        return e.attr if isinstance(e, ast.Attribute) and isinstance(e.value, ast.Name) and e.value.id == "self" else None

    def fills(fnode):
        """attribute -> list of (node, creates_key) for in-place fills of self.<attribute> in a function"""
        out = {}
        for n in walk(fnode):
            if isinstance(n, ast.Subscript) and isinstance(n.ctx, ast.Store):
                a = self_attr(n.value)
                if a:
                    out.setdefault(a, []).append((n, True))
            if isinstance(n, ast.Call) and isinstance(n.func, ast.Attribute) and n.func.attr in MUT and n.func.attr != "clear":
                b = n.func.value
                a = self_attr(b)
                if a:
                    out.setdefault(a, []).append((n, n.func.attr in ("setdefault", "update")))
                elif isinstance(b, ast.Subscript) and self_attr(b.value):
                    out.setdefault(self_attr(b.value), []).append((n, False))
        return out
    readers = {nm: f for nm, f in meths.items() if nm.startswith("_read")}
    filled = {}
    for nm, f in list(readers.items()) + [("read", rd)]:
        for a, sites in fills(f).items():
            filled.setdefault(a, []).extend((nm, n_, ck) for n_, ck in sites)
    if len(filled) < 2:
        raise ExtractError("InpFile: fewer than two containers filled in place by the readers (%s)" % sorted(filled))
    g = CFG(rd)
    for a, sites in sorted(filled.items()):
        creates = any(ck for _m, _n, ck in sites)

        def is_reset(node, d, a=a, creates=creates):
            if isinstance(node, ast.Assign) and any(self_attr(t) == a for t in node.targets):
                return True
            for c in walk(node) if not isinstance(node, (ast.For, ast.While, ast.If)) else []:
                if isinstance(c, ast.Call) and isinstance(c.func, ast.Attribute) and c.func.attr == "clear" and self_attr(c.func.value) == a:
                    return True
            # `self.X[k] = <fresh>` as the body of a loop over a key table: a reset only when no filler creates keys of its own
            if not creates and isinstance(node, ast.Assign) and len(node.targets) == 1 and isinstance(node.targets[0], ast.Subscript) and self_attr(node.targets[0].value) == a \
                    and isinstance(node.value, (ast.List, ast.Dict, ast.Set, ast.Call)):
                par = parent(node)
                return isinstance(par, ast.For)
            return False
        resets = g.nodes_where(is_reset)
        # where the container is filled, seen from read(): its own filling statements and the calls of the section readers that fill it
        users = [m for m, _n, _ck in sites]
        targets = []
        for m in sorted(set(users)):
            if m == "read":
                own = {id(n_) for mm, n_, _ck in sites if mm == "read"}
                targets += [i for i in g.nodes_where(lambda node, d: any(id(x) in own for x in walk(node))) if i not in resets]
            else:
                targets += g.calling("self." + m)
        targets = sorted(set(targets) - set(resets))
        if not targets:
            continue
        ok, w = g.must_pass(g.entry, targets, resets, drop_back=True)
        chk.expect(bool(resets) and ok, "R-C12-18", "InpFile.read makes self.%s fresh before anything fills it" % a, loc(rd),
                   "filled in place by %s; a second read through the same object otherwise adds the new file's entries to the previous file's" % ", ".join(sorted(set(users))[:4]),
                   expected="self.%s rebound / cleared on every path from the entry of read() to its first filler" % a,
                   found=("no reset in read()" if not resets else ("path without a reset: " + g.path_text(w)) if w else None))
    chk.floor("R-C12-18", 2)


def run(repo, chk):
    # R-C12-17: the write -> read -> write -> read round trip of the fixture model, interpreted (see sa/props/c12_roundtrip.py); decides on its own
    from .c12_roundtrip import round_trip_rules
    try:
        round_trip_rules(repo, chk, QUICK_COMBOS)
        round_trip_rules(repo, chk, QUICK_COMBOS_B, variant="B")
        chk.floor("R-C12-17", 9 * (len(QUICK_COMBOS) + len(QUICK_COMBOS_B)))
    except AnchorError as e:
        chk.error("R-C12-17: %s: %s" % (type(e).__name__, e))
    classes = conversion_classes(repo)
    chk.sample({"rule": "R-C12-2", "conversion classes equal to HydParam.Length": sorted(k for k, v in classes.items() if v == classes["HydParam.Length"])})
    rd, wr = repo.func(IO, "InpFile.read"), repo.func(IO, "InpFile.write")
    chk.fn(rd, wr)

    # ---------------------------------------------------------------- R-C12-1 section pairing
    with chk.part("R-C12-1 section pairing"):
        inp_methods = set(repo.methods(repo.cls(IO, "InpFile")))

        def sections_called(fn, prefix):
            """sections whose _read_X / _write_X method fn calls: directly, or through a table of names (`getattr(self, '_read_' + name)()` over
        a literal sequence -- the names are the string constants of fn that complete the prefix to an existing method)"""
            out = {last_attr(c)[len(prefix):] for c in calls(fn) if (last_attr(c) or "").startswith(prefix)}
            strs = [x.value for x in ast.walk(fn) if isinstance(x, ast.Constant) and isinstance(x.value, str) and len(x.value) < 40]
            if any(x.startswith(prefix) for x in strs) and any(isinstance(c, ast.Call) and call_name(c) == "getattr" for c in ast.walk(fn)):
                for x in strs:
                    nm = x[len(prefix):] if x.startswith(prefix) else x.strip("[]").lower()
                    if nm and prefix + nm in inp_methods:
                        out.add(nm)
            return out
        reads, writes = sections_called(rd, "_read_"), sections_called(wr, "_write_")
        for s in sorted(reads | writes):
            chk.expect(s in reads and s in writes, "R-C12-1", "section %s is both written by InpFile.write and read by InpFile.read" % s, loc(wr),
                       found="read=%s write=%s" % (s in reads, s in writes))
        chk.floor("R-C12-1", 25)

    # ---------------------------------------------------------------- R-C12-2 field conversion table
    with chk.part("R-C12-2 field conversion table"):
        matched = 0
        allrows = {}
        for sec in SECTIONS:
            wf, W = writer_rows(repo, sec)
            rf, R = reader_rows(repo, sec)
            chk.fn(wf, rf)
            allrows[sec] = (W, R)
            Wc = [w for w in W if w.conv is not None and not is_point(w.conv)]
            Rc = [r for r in R if r.conv is not None and (r.col is not None or r.disc) and not is_point(r.conv)]
            for w in Wc:
                if w.col is None and not w.disc:
                    continue
                cands = [r for r in Rc if same_slot(w, r) and compatible(w, r)]
                if not cands:
                    plain_r = True
                    chk.bad("R-C12-2", "[%s] column %s %s: the reader converts back what the writer converted (%s)" % (sec.upper(), w.col, sorted(w.disc), w.conv.param), w.where,
                            "the writer prints this field in file units but the reader has no conversion for the same column / keyword: the value comes back scaled",
                            expected="a to_si/from_si on current[%s] in _read_%s" % (w.col, sec), found="writer: %r" % w.conv)
                    continue
                for r in cands:
                    good, why = inverse(classes, w, r)
                    matched += 1
                    chk.expect(good, "R-C12-2", "[%s] column %s %s: reader and writer conversions are inverse" % (sec.upper(), w.col, sorted(w.disc | r.disc)), w.where, why,
                               expected="inverse of writer %r" % w.conv, found="reader %r at %s" % (r.conv, r.where))
            for r in Rc:
                cands = [w for w in Wc if same_slot(w, r) and compatible(w, r)]
                if not cands:
                    plainw = [w for w in W if w.conv is None and w.col is not None and w.col == r.col and compatible(w, r)]
                    if plainw:
                        chk.bad("R-C12-2", "[%s] column %s %s: the writer converts what the reader converts (%s)" % (sec.upper(), r.col, sorted(r.disc), r.conv.param), r.where,
                                "the reader converts this column from file units but the writer prints the SI value unconverted", expected="from_si in _write_%s" % sec, found="writer prints %s" % plainw[0].plain)
                    else:
                        chk.note("[%s] reader conversion %r (column %s, %s) has no writer counterpart (field not written)" % (sec.upper(), r.conv, r.col, sorted(r.disc)))
        chk.floor("R-C12-2", 30, count=matched)

        # curves: writer by curve type, readers via add_curve(name, TYPE, points); a point coordinate is identified by its index in the
        # (x, y) pair, whatever the loop variable is called and whether the points are collected by a loop or a comprehension
        def coord(v):
            v = v.value if isinstance(v, Conv) else v
            return v.key if isinstance(v, Opaque) and isinstance(v.key, int) and not isinstance(v.key, bool) else None
        wf, W = writer_rows(repo, "curves")
        wcur = {}
        for w in W:
            if w.conv is not None and coord(w.conv) is not None:
                t = [x for x in w.disc if x in ("VOLUME", "HEAD", "EFFICIENCY", "HEADLOSS")]
                if t:
                    wcur[(t[0], "point[%d]" % coord(w.conv))] = w
        rcur = {}
        for qual in ("InpFile._read_tanks", "InpFile._read_pumps", "InpFile._read_valves", "InpFile._read_energy"):
            fn = repo.func(IO, qual)
            chk.fn(fn)
            states = list(reader_paths(repo, None, fn=fn)[1])
            for sub in [n for n in ast.walk(fn) if isinstance(n, ast.FunctionDef) and n is not fn]:      # e.g. the create_curve closure of _read_pumps
                states += CompExec(call_hook=make_hook()).run(sub)
            for o in states:
                for e in o.events:
                    if e[0] != "call" or (e[2][0] or "").split(".")[-1] != "add_curve" or len(e[2][1]) < 3 or not isinstance(e[2][1][1], str):
                        continue
                    ctype, pts = e[2][1][1], e[2][1][2]
                    for pt in (pts if isinstance(pts, list) else []):
                        for v in (pt if isinstance(pt, (tuple, list)) else []):
                            if coord(v) is not None:
                                if isinstance(v, Conv):
                                    rcur[(ctype, "point[%d]" % coord(v))] = v
                                else:
                                    rcur.setdefault((ctype, "point[%d]" % coord(v)), None)
        for (ctype, pt), w in sorted(wcur.items()):
            r = rcur.get((ctype, pt))
            if r is None:
                chk.bad("R-C12-2", "[CURVES] %s curve %s: the reader converts back what the writer converted" % (ctype, pt), w.where, found="writer %r, reader %s" % (w.conv, "none" if (ctype, pt) not in rcur else "unconverted"))
            else:
                good, why = inverse(classes, w, Row("curves", "r", r, None, [], [], ""))
                chk.expect(good, "R-C12-2", "[CURVES] %s curve %s: reader and writer conversions are inverse" % (ctype, pt), w.where, why, expected="inverse of %r" % w.conv, found=repr(r))
        for (ctype, pt), r in sorted(rcur.items(), key=str):
            if r is not None and (ctype, pt) not in wcur:
                chk.bad("R-C12-2", "[CURVES] %s curve %s: the writer converts what the reader converts" % (ctype, pt), "%s:%d" % (IO, r.lineno), found="reader %r, writer unconverted" % r)
        chk.expect(len(wcur) >= 7, "R-C12-2", "curve conversions located for VOLUME, HEAD, EFFICIENCY, HEADLOSS", loc(wf), found=sorted(wcur))

    # ---------------------------------------------------------------- R-C12-13 the element tables and the curves keep the same digits
    with chk.part("R-C12-13 the element tables and the curves keep the same digits"):
        # A tank's maximum level and the last point of its volume curve, a pump's design point and its curve ... are the same model number
        # printed in two sections; EPANET cross-checks them (error 225).  Every unit-converted number of the element sections and of [CURVES]
        # must therefore survive formatting with the digits its siblings keep.  The spec of each placeholder is applied to probe values.
        fields = []
        for sec in ("junctions", "reservoirs", "tanks", "pipes", "pumps", "valves"):
            fields += [w for w in allrows[sec][0] if w.conv is not None and w.spec is not None]
        fields += [w for w in W if w.conv is not None and w.spec is not None]          # W: the [CURVES] writer rows
        kept = {}
        for w in fields:
            for sp in (w.spec,) + tuple(x for x in getattr(w, "spec_also", ()) if x is not None):
                dg = digits_kept(sp)
                if dg is None:
                    raise ExtractError("format spec %r of [%s] column %s cannot be applied to a number" % (sp, w.section.upper(), w.col))
                key = (w.section, w.col if w.col is not None else "/".join(sorted(w.disc)))
                if key not in kept or dg < kept[key][0]:
                    kept[key] = (dg, sp, w)
        if len(kept) < 15:
            raise ExtractError("only %d formatted unit-converted fields found in the element and curve writers" % len(kept))
        counts = {}
        for dg, sp, w in kept.values():
            counts[dg] = counts.get(dg, 0) + 1
        required = min(10, max(counts, key=lambda d_: (counts[d_], d_)))
        for (sec, col), (dg, sp, w) in sorted(kept.items(), key=str):
            chk.expect(dg >= required, "R-C12-13", "[%s] column %s: the unit-converted number keeps the significant digits its siblings keep" % (sec.upper(), col), w.where,
                       "numbers that are the same in the model (tank level / volume-curve point, ...) must not come out different after conversion and formatting; "
                       "the format spec is applied to values from 1e-4 to 1e5 and the text read back", expected=">= %d significant digits" % required,
                       found="spec %r keeps %d (%s)" % (sp, dg, w.conv.param))
        chk.floor("R-C12-13", 15)
        low = sorted({(r_.section, r_.spec, digits_kept(r_.spec)) for sec_ in SECTIONS for r_ in allrows[sec_][0] if r_.conv is not None and r_.spec and (digits_kept(r_.spec) or 0) < required and (r_.section, r_.col) not in kept})
        if low:
            chk.note("unit-converted fields outside the element / curve tables written with fewer digits (inventoried, not decided): %s" % low)

    # ---------------------------------------------------------------- R-C12-3 discriminators
    with chk.part("R-C12-3 discriminators"):
        # the reader's discriminant column is the column the writer prints the discriminator in
        for sec, disc_attr, tokens in (("sources", "source_type", {"MASS"}), ("valves", "valve_type", {"PRV", "FCV", "TCV", "GPV"})):
            wf = repo.func(IO, "InpFile._write_" + sec)
            rf = repo.func(IO, "InpFile._read_" + sec)
            W, R = allrows[sec]
            wcol = None
            fn_, outs, ex = run_paths(repo, "InpFile._write_" + sec)
            for o in outs:
                for e in o.events:
                    if e[0] == "format":
                        args, kw = e[2]
                        fmt = e[1]
                        if fmt and "{" not in fmt:
                            fmt = module_string(repo, fmt) or fmt
                        cols, _ = file_columns(fmt) if fmt and "{" in fmt else (None, set())
                        for k, v in [(i, a) for i, a in enumerate(args)] + list(kw.items()):
                            if isinstance(v, Opaque) and v.text.endswith("." + disc_attr):
                                wcol = cols.get(k) if cols else k
            # the reader's tests as the path conditions of its abstract execution (locals are substituted by what they hold): the column(s)
            # of `current` that are compared with the type keywords
            rcols = set()
            for o in reader_paths(repo, sec)[1]:
                for t, v in o.conds:
                    if {x.upper() for x in re.findall(r"'([A-Za-z]+)'", t)} & tokens:
                        rcols.update(int(x) for x in re.findall(r"current\[(\d+)\]", t))
            chk.expect(wcol is not None and rcols == {wcol}, "R-C12-3", "[%s] the reader selects the conversion by the column the writer prints the %s in" % (sec.upper(), disc_attr), loc(rf),
                       "testing another column (e.g. the node name) for the type keyword applies the wrong unit conversion", expected="column %s" % wcol, found="column(s) %s" % sorted(rcols))
        # quality parameter discriminator is an option on both sides (path conditions of the abstract execution of both)
        for side, q, outs_ in (("write", "InpFile._write_quality", run_paths(repo, "InpFile._write_quality")[1]), ("read", "InpFile._read_quality", reader_paths(repo, "quality")[1])):
            f = repo.func(IO, q)
            toks = {x.upper() for o in outs_ for t, v in o.conds if "options.quality.parameter" in t for x in re.findall(r"'([A-Za-z]+)'", t)}
            chk.expect({"CHEMICAL", "AGE"} <= toks, "R-C12-3", "[QUALITY] %s selects the unit by options.quality.parameter" % side, loc(f), found=sorted(toks))

    # ---------------------------------------------------------------- R-C12-4 order dependence
    with chk.part("R-C12-4 order dependence"):
        rf = repo.func(IO, "InpFile._read_reactions")
        wf = repo.func(IO, "InpFile._write_reactions")
        W, R = allrows["reactions"]
        needs = set()
        for r in R:
            for k, v in r.conv.flags.items():
                m = re.search(r"options\.reaction\.(\w+_order)", v)
                if m:
                    needs.add(m.group(1))
        # on every path of the writer, in the order the lines are written: the ORDER lines announced so far when a coefficient line is written
        announced_any = set()
        coeff = {}      # (keyword, order) -> [ok on every path, line]
        for o in run_paths(repo, wf)[1]:
            if o.raised:
                continue
            announced = set()
            for e in o.events:
                if e[0] != "format":
                    continue
                args, kw = e[2]
                vals = list(args) + list(kw.values())
                strs = [a_ for a_ in vals if isinstance(a_, str)]
                if "ORDER" in [x.upper() for x in strs]:
                    for a_ in vals:
                        m = re.search(r"options\.reaction\.(\w+_order)$", a_.text) if isinstance(a_, Opaque) else None
                        if m:
                            announced.add(m.group(1))
                            announced_any.add(m.group(1))
                    continue
                for c, p_ in find_convs(vals):
                    m = re.search(r"options\.reaction\.(\w+_order)", c.flags.get("reaction_order", ""))
                    if m:
                        ent = coeff.setdefault((strs[0] if strs else "?", m.group(1)), [True, c.lineno])
                        ent[0] = ent[0] and m.group(1) in announced
        for (kw, order), (ok_, ln) in sorted(coeff.items()):
            chk.expect(ok_, "R-C12-4", "[REACTIONS] the %s line is written after the ORDER line its conversion depends on (%s)" % (kw, order), "%s:%d" % (IO, ln),
                       "the reader converts each coefficient with the reaction order it has parsed SO FAR; a coefficient written before its ORDER line is read back with the default order",
                       expected="ORDER %s line first" % order, found="a path writes the %s coefficient before (or without) the ORDER line of %s" % (kw, order))
        chk.floor("R-C12-4", 4)
        chk.expect(needs <= announced_any, "R-C12-4", "[REACTIONS] every order the reader's conversions depend on is written", loc(wf), found=(sorted(needs), sorted(announced_any)))

    # ---------------------------------------------------------------- controls
    with chk.part("controls"):
        # Whole-function abstract execution of the writer and of the reader (helpers the setting / threshold is computed in -- a nested def,
        # a method reached through self -- are stepped into); the facts compared are WHERE a converted value lands: the writer's value for
        # the placeholder in file column 2 / 7 of a [CONTROLS] line, the reader's ControlAction(..., 'setting', v) / threshold argument.
        wctl = repo.func(IO, "InpFile._write_controls")
        rctl = repo.func(IO, "_read_control_line")
        chk.fn(wctl, rctl)
        VTS = ("PRV", "PSV", "PBV", "FCV", "TCV", "GPV")
        wmap, th_w = controls_writer_facts(repo, wctl, VTS)
        rmap, th_r, rcols = controls_reader_facts(repo, rctl, VTS)

        def pcs(ps):
            return {pclass(classes, p) if p else None for p in ps}
        for vt in VTS:
            chk.expect(len(wmap[vt]) == 1 and len(rmap[vt]) == 1 and pcs(wmap[vt]) == pcs(rmap[vt]), "R-C12-2", "[CONTROLS] %s setting: writer and reader use the same unit class" % vt, loc(rctl),
                       expected="writer %s" % sorted(map(str, wmap[vt])), found="reader %s" % sorted(map(str, rmap[vt])))
        chk.expect(rcols["setting"] <= {2}, "R-C12-2", "[CONTROLS] the reader converts the setting it finds in the column the writer prints it in (column 2)", loc(rctl), found=sorted(rcols["setting"], key=str))
        # thresholds
        for nt in ("Tank", "Junction"):
            w_, r_ = th_w.get(nt, set()), {p for a_, p, c_ in th_r.get(nt, set())}
            chk.expect(len(w_) == 1 and len(r_) == 1 and None not in w_ and pcs(w_) == pcs(r_) and {c_ for a_, p, c_ in th_r[nt]} == {7}, "R-C12-2",
                       "[CONTROLS] %s threshold: writer and reader use the same unit class (column 7)" % nt, loc(rctl),
                       expected=sorted(map(str, w_)), found=sorted(map(str, th_r.get(nt, set()))))
        attr_r = {nt: sorted({a_ for a_, p, c_ in v}) for nt, v in th_r.items()}
        chk.expect(attr_r == {"Junction": ["pressure"], "Tank": ["level"]}, "R-C12-2", "[CONTROLS] junction thresholds are pressures, tank thresholds are levels", loc(rctl), found=attr_r)
    # (the time token of simple time controls is decided by R-C12-8: finite evaluation of writer and reader, any text format accepted)

    # ---------------------------------------------------------------- rules: six sibling attribute -> unit maps
    with chk.part("rules: six sibling attribute -> unit maps"):
        rule = repo.cls(IO, "_EpanetRule")
        meths = repo.methods(rule)
        ATTRS = ["demand", "head", "level", "flow", "pressure", "setting", "status"]
        RVTS = ("PRV", "PSV", "PBV", "FCV", "TCV", "GPV")
        maps = {}

        def eval_block(fn, stmts, env, test_hook, sinks):
            """attribute (and, for `setting`, kind of link / valve type) -> conversion of the value that reaches a sink: the arguments of a
        `.format` call (writer: sinks=None) or of a constructor call named in `sinks` (reader).  The attribute is injected where the code
        reads it (the action's / condition's attribute field, the 4th token of a clause), the valve type where it reads valve_type;
        names of locals, the form of the dispatch and the place of the code (in line / helper) do not matter."""
            out = {}
            for a, vt in [(a, None) for a in ATTRS if a != "setting"] + [("setting", v) for v in RVTS]:
                def ah(base, attr, st, a=a, vt=vt):
                    if isinstance(base, Opaque) and attr in ("_source_attr", "_attribute"):
                        return a
                    if isinstance(base, Opaque) and attr == "valve_type" and vt is not None:
                        return vt
                    return NotImplemented

                def ch(name, node, args, kwargs, st, ex, recv, a=a):
                    meth = node.func.attr if isinstance(node.func, ast.Attribute) else None
                    if meth == "lower" and isinstance(recv, Opaque) and (recv.key == 3 or (recv.key is None and re.search(r"\[3\]$", recv.text))):
                        return a                       # clause grammar: CONJ TYPE ID ATTRIBUTE ... -- the 4th token is the attribute
                    if meth == "upper" and isinstance(recv, Opaque):
                        return recv
                    if name and name.endswith("_parse_value"):
                        return args[0]
                    if name and name.endswith("_repr_value"):
                        return Opaque("val_si")
                    return NotImplemented
                ex = CompExec(call_hook=make_hook(ch), attr_hook=ah, test_hook=test_hook, inline=inline_table(repo, fn))
                st = State(dict(env))
                res = out.setdefault(a, set())
                for o in ex.block(stmts, [st]):
                    if o.raised:
                        continue
                    conv, sunk = None, False
                    for e in o.events:
                        if sinks is None and e[0] == "format":
                            sunk = True
                            for c, p in find_convs(e[2][0]):
                                conv = c
                        elif sinks is not None and e[0] == "call" and (e[2][0] or "").split(".")[-1] in sinks:
                            sunk = True
                            for c, p in find_convs(e[2][1]):
                                conv = c
                    if not sunk:
                        continue
                    isvalve = [vv for t, vv in o.conds if "isinstance(" in t and _isinstance_class(t) == "Valve"]
                    ispump = [vv for t, vv in o.conds if "isinstance(" in t and _isinstance_class(t) == "Pump"]
                    kind = vt if (isvalve and isvalve[-1]) else ("pump" if (ispump and ispump[-1]) else "other")
                    if a != "setting":
                        kind = ""
                    res.add((kind, pclass(classes, conv.param) and conv.param.split(".")[-1] if conv else None, conv.direction if conv else None))
            return out

        def norm_map(m):
            """collapse to (attr, kind) -> class name; entries without conversion are left out."""
            out = {}
            for a, res in m.items():
                for kind, p, direction in res:
                    if p is None:
                        continue
                    out[(a, kind)] = classes_name(p)
            return out

        def classes_name(p):
            c = pclass(classes, "HydParam." + p)
            for k, v in sorted(classes.items()):
                if v == c:
                    return k
            return p
        # writer blocks
        def th_w(t, n, s):
            c = _isinstance_class(t) if "isinstance(" in t else None
            if c in ("ValueCondition", "ControlAction"):
                return True
            if c in ("OrCondition", "AndCondition", "TimeOfDayCondition", "SimTimeCondition"):
                return False
            return None
        for mname in ("add_control_condition", "add_action_on_true", "add_action_on_false"):
            fn = meths[mname]
            chk.fn(fn)
            m = eval_block(fn, fn.body, {a.arg: Opaque(a.arg) for a in fn.args.args}, th_w, None)
            maps["write:" + mname] = norm_map(m)
            dirs = {x[2] for res in m.values() for x in res if x[2]}
            chk.expect(dirs == {"from_si"}, "R-C12-2", "[RULES] %s converts SI values to file units" % mname, loc(fn), found=sorted(dirs))
        gen = meths["generate_control"]
        chk.fn(gen)

        def clause_block(kind):
            """the statements generate_control executes once per clause of the given kind (the body of the loop -- or the element of the
        comprehension -- that iterates over self._<kind>_clauses), with the iteration variable(s)."""
            key = "_%s_clauses" % kind
            for n in walk(gen):
                if isinstance(n, ast.For) and key in unparse(n.iter):
                    return n, n.target, list(n.body)
            for n in walk(gen):
                if isinstance(n, (ast.ListComp, ast.GeneratorExp)) and len(n.generators) == 1 and key in unparse(n.generators[0].iter):
                    elt = n.elt
                    # an element that is a call of a sibling method: continue in that method's body
                    if isinstance(elt, ast.Call) and isinstance(elt.func, ast.Attribute) and isinstance(elt.func.value, ast.Name) and elt.func.value.id in ("self", "cls") \
                            and elt.func.attr in meths and not elt.keywords:
                        callee = meths[elt.func.attr]
                        params = [a.arg for a in callee.args.args][1:]
                        if len(params) == len(elt.args):
                            pre = [ast.Assign(targets=[ast.Name(id=p_, ctx=ast.Store())], value=a_) for p_, a_ in zip(params, elt.args) if not (isinstance(a_, ast.Name) and a_.id == p_)]
                            for x in pre:
                                ast.copy_location(x, elt)
                                ast.fix_missing_locations(x)
                            return n, n.generators[0].target, pre + list(callee.body)
                    st_ = ast.Expr(value=elt)
                    ast.copy_location(st_, elt)
                    return n, n.generators[0].target, [st_]
            raise AnchorError("generate_control: no iteration over self.%s found" % key)
        for nm, sinks in (("if", ("ValueCondition",)), ("then", ("ControlAction",)), ("else", ("ControlAction",))):
            lp, tgt, body = clause_block(nm)
            th = (lambda t, n, s: (False if "'SYSTEM'" in t else None))
            env = {"self": Opaque("self")}
            for x in ast.walk(tgt):
                if isinstance(x, ast.Name):
                    env[x.id] = Opaque(x.id)
            m = eval_block(gen, body, env, th, sinks)
            maps["read:" + nm] = norm_map(m)
            dirs = {x[2] for res in m.values() for x in res if x[2]}
            chk.expect(dirs == {"to_si"}, "R-C12-2", "[RULES] generate_control (%s clauses) converts file units to SI" % nm, loc(gen, lp), found=sorted(dirs))
        ref_name, ref = sorted(maps.items())[0]
        for name, mp in sorted(maps.items()):
            chk.expect(mp == ref, "R-C12-2", "[RULES] %s uses the same attribute -> unit map as %s" % (name, ref_name), loc(IO, rule),
                       "the six sibling blocks that print and parse rule thresholds/settings must agree on which attribute carries which unit (else a rule's value changes on a round trip)",
                       expected=sorted((str(k), v) for k, v in ref.items()), found=sorted((str(k), v) for k, v in mp.items()))
        want_keys = {("demand", ""), ("head", ""), ("level", ""), ("flow", ""), ("pressure", ""), ("setting", "PRV"), ("setting", "PSV"), ("setting", "PBV"), ("setting", "FCV")}
        chk.expect(set(ref) == want_keys, "R-C12-2", "[RULES] the unit map covers demand, head, level, flow, pressure and valve settings (PRV/PSV/PBV pressure, FCV flow)", loc(IO, rule), found=sorted(map(str, ref)))
        chk.sample({"rule": "R-C12-2", "rules attribute->unit map": {str(k): v for k, v in ref.items()}})

    # ---------------------------------------------------------------- R-C12-6 version 2.0 (differential: the writer is executed abstractly for version=2.0 and =2.2)
    with chk.part("R-C12-6 version 2.0 (differential: the writer is executed abstractly for version=2.0 and ="):
        wo = repo.func(IO, "InpFile._write_options")
        wt = repo.func(IO, "InpFile._write_tanks")
        chk.fn(wo, wt)
        ol20, ol22 = option_lines(repo, wo, 2.0), option_lines(repo, wo, 2.2)
        lab20, lab22 = {l for l, a_ in ol20}, {l for l, a_ in ol22}
        want_g = {"HEADERROR", "FLOWCHANGE", "DEMAND MODEL", "MINIMUM PRESSURE", "REQUIRED PRESSURE", "PRESSURE EXPONENT"}
        chk.expect(lab22 - lab20 == want_g and lab20 <= lab22 and len(lab20) >= 10, "R-C12-6", "only the EPANET 2.2-specific options are omitted from 2.0-format files", loc(wo),
                   expected=sorted(want_g), found="2.2 only: %s; 2.0 only: %s" % (sorted(lab22 - lab20), sorted(lab20 - lab22)))
        tl20, tl22 = tank_lines(repo, wt, 2.0), tank_lines(repo, wt, 2.2)
        chk.expect(all(o in ("", None) for c_, o in tl20) and any(o not in ("", None) for c_, o in tl22), "R-C12-6", "the tank overflow column is written for 2.2 only", loc(wt),
                   found="overflow column: 2.0 %s, 2.2 %s" % (sorted({str(o) for c_, o in tl20}), sorted({str(o) for c_, o in tl22})))
        # R-C12-12: whatever else the line carries, a tank that has a volume curve is written with that curve's name (the reader maps any other token to "no curve")
        for ver, tl in ((2.0, tl20), (2.2, tl22)):
            wrong = [c_ for c_, o in tl if not (isinstance(c_, Opaque) and "vol_curve" in c_.text)]
            chk.expect(not wrong, "R-C12-12", "[TANKS] a tank that has a volume curve is written with the curve's name in the curve column (format %s)" % ver, loc(wt),
                       "the curve column of a tank with a volume curve must carry the curve name on every path; a placeholder there makes the tank cylindrical on read",
                       expected="<tank>.vol_curve.name", found=[str(x) for x in wrong[:3]])

    # ---------------------------------------------------------------- R-C12-5 pressure options
    with chk.part("R-C12-5 pressure options"):
        ro = repo.func(IO, "InpFile._read_options")
        chk.fn(ro)
        rconv = option_reader_convs(repo, ro)
        for key, attr in (("MINIMUM PRESSURE", "minimum_pressure"), ("REQUIRED PRESSURE", "required_pressure")):
            wcs = [c for l, a_ in ol22 if l == key for c, p_ in find_convs(a_)]
            w_ok = bool(wcs) and all(c.direction == "from_si" and pclass(classes, c.param) == classes["HydParam.Pressure"] and c.vtext().endswith("hydraulic." + attr) for c in wcs)
            rcs = rconv.get(attr, set())
            r_ok = bool(rcs) and all(d_ == "to_si" and pclass(classes, p_) == classes["HydParam.Pressure"] and k_ == len(key.split()) and key.split()[0] in t_ for d_, p_, k_, t_ in rcs)
            chk.expect(w_ok and r_ok, "R-C12-5", "[OPTIONS] %s is written with from_si(Pressure) and read with to_si(Pressure)" % key, loc(wo),
                       found=("writer %s" % sorted(map(repr, wcs)), "reader %s" % sorted((d_, p_, k_) for d_, p_, k_, t_ in rcs)))

    # ---------------------------------------------------------------- R-C12-7 time helpers
    with chk.part("R-C12-7 time helpers"):
        s2s = repo.func(IO, "_sec_to_string")
        t2s = repo.func(IO, "_str_time_to_sec")
        chk.fn(s2s, t2s)
        # finite evaluation of both helpers (stdlib str / re calls modelled, nothing from the repository runs): any way of writing the
        # arithmetic is accepted, only the values count
        from ._shared import _string_evaluator
        from ..peval import Raised
        SEv, shook = _string_evaluator(repo)

        def call_fn(fn, *vals):
            try:
                return SEv({a.arg: v for a, v in zip(fn.args.args, vals)}, None, shook).run(fn.body)
            except Raised:
                return "raises"
            except Unknown as ex_:
                raise ExtractError("%s not evaluable: %s" % (fn.name, ex_))
        bad = None
        for sec in (0, 59, 60, 3599, 3600, 3661, 43200, 86399, 90061, 360000):
            r = call_fn(s2s, sec)
            if not (isinstance(r, (list, tuple)) and len(r) == 3 and all(isinstance(x, int) for x in r) and r[0] * 3600 + r[1] * 60 + r[2] == sec and 0 <= r[1] < 60 and 0 <= r[2] < 60):
                bad = bad or (sec, r)
        chk.expect(bad is None, "R-C12-7", "_sec_to_string(sec) = (h, m, s) with h*3600 + m*60 + s = sec and 0 <= m, s < 60", loc(s2s), found=bad)
        bad = None
        for h, m_, s_ in ((0, 0, 0), (0, 0, 59), (0, 59, 0), (1, 1, 1), (9, 30, 0), (12, 0, 0), (23, 59, 59), (25, 1, 1), (100, 0, 0)):
            for txt, want in (("%d:%02d:%02d" % (h, m_, s_), h * 3600 + m_ * 60 + s_), ("%d:%02d" % (h, m_), h * 3600 + m_ * 60), ("%d" % h, h * 3600)):
                back = call_fn(t2s, txt)
                if back != want:
                    bad = bad or (txt, back, want)
        chk.expect(bad is None, "R-C12-7", "_str_time_to_sec weighs hours by 3600 and minutes by 60 (HH:MM:SS, HH:MM, HH)", loc(t2s),
                   expected=bad[2] if bad else None, found=("%r reads as %s" % (bad[0], bad[1])) if bad else None)
        # simple time controls: the token written for `AT TIME t` reads back as t for every whole second
        from ._shared import forced
        wcf, rcf = repo.func(IO, "InpFile._write_controls"), repo.func(IO, "_read_control_line")
        chk.fn(wcf, rcf)
        rows_ = concrete_time_control_round_trip(repo, (0, 1, 59, 60, 1199, 1200, 3599, 3600, 3661, 4800, 8400, 43200, 86399, 90061, 604860, 1000000))
        chk.sample({"rule": "R-C12-8", "time_control_round_trip": [(t, tok, back) for t, tok, back in rows_[:8]]})
        for t, tok, back in rows_:
            chk.expect(back == t, "R-C12-8", "a simple control AT TIME %d s is written as a token that reads back as %d s" % (t, t), loc(wcf),
                       "InpFile._write_controls run on a mock time control, the written line parsed by _read_control_line (concrete evaluation of both)",
                       expected=t, found="%r reads back as %s" % (tok, back))
        # rule clock times: _sec_to_clock (writer side of SYSTEM CLOCKTIME clauses) composed with _parse_value (reader side)
        CTRL_ = "wntr/network/controls.py"
        s2cf, pvf = repo.func(CTRL_, "ControlCondition._sec_to_clock"), repo.func(CTRL_, "ControlCondition._parse_value")
        chk.fn(s2cf, pvf)
        rows_ = concrete_rule_clock_round_trip(repo, [h * 3600 + m_ * 60 + s_ for h in range(24) for m_, s_ in ((0, 0), (30, 0), (59, 59))])
        for hour in range(24):
            hb = [(t, txt, back) for t, txt, back in rows_ if t // 3600 == hour and back != t]
            chk.expect(not hb, "R-C12-8", "a rule's SYSTEM CLOCKTIME threshold in hour %02d reads back as the same instant" % hour, loc(pvf),
                       "concrete evaluation of ControlCondition._sec_to_clock composed with ControlCondition._parse_value",
                       expected=hb[0][0] if hb else None, found=("%r reads back as %s" % (hb[0][1], hb[0][2])) if hb else None)
        chk.floor("R-C12-8", 16 + 24)
    # ---------------------------------------------------------------- R-C12-9 the writer converts with the units it announces
    with chk.part("R-C12-9 the writer converts with the units it announces"):
        wfn = repo.func(IO, "InpFile.write")
        wopt = repo.func(IO, "InpFile._write_options")
        chk.fn(wfn, wopt)
        def argtexts(args):
            return [x.text if isinstance(x, Opaque) else str(x) for x in args]
        if not any(l == "QUALITY" and any(t.endswith("quality.inpfile_units") for t in argtexts(a_)) for l, a_ in ol22):
            raise ExtractError("_write_options: QUALITY line with the mass units not found")
        # abstract execution of write(): which values are stored to self.mass_units / self.flow_units on which paths (temporaries are followed)
        wex = CompExec(call_hook=make_hook(), inline=inline_table(repo, wfn))
        mu_stores, fu_stores = [], []
        for o in wex.run(wfn):
            for e in o.events:
                if e[0] == "store" and e[1] in ("self.mass_units", "self.flow_units"):
                    txt = wex.text(e[2])
                    # ... an assignment that only happens when self.mass_units is still unset does not count (a reader that ran before must not win over the option)
                    cd = dict(o.conds)
                    unset = forced("self.mass_units is None", cd) is True or forced("self.mass_units is not None", cd) is False or forced("self.mass_units", cd) is False
                    (mu_stores if e[1] == "self.mass_units" else fu_stores).append((txt, unset))
        from_opt = [u for t, u in mu_stores if "options.quality.inpfile_units" in t]
        chk.expect(bool(from_opt) and not all(from_opt), "R-C12-9",
                   "the mass unit the writer converts concentrations with is taken from options.quality.inpfile_units, which the QUALITY line announces", loc(wfn),
                   "the [OPTIONS] QUALITY line prints options.quality.inpfile_units while the conversions use self.mass_units: if the two have different sources a ug/L model is "
                   "written with mg/L numbers and read back 1000 times too small", expected="self.mass_units = f(wn.options.quality.inpfile_units)", found=sorted({t for t, u in mu_stores}))
        chk.expect(any("options.hydraulic.inpfile_units" in t or re.search(r"\bunits\b", t.replace("inpfile_units", "")) for t, u in fu_stores), "R-C12-9",
                   "the flow unit system the writer converts with comes from the `units` argument / options.hydraulic.inpfile_units", loc(wfn), found=sorted({t for t, u in fu_stores}))
        uo = [argtexts(a_) for l, a_ in ol22 if l == "UNITS"]
        chk.expect(bool(uo) and all(any(t.startswith("self.flow_units") for t in a_) for a_ in uo), "R-C12-9", "the UNITS line announces the flow unit system the writer converts with", loc(wopt), found=uo[:2])

    # ---------------------------------------------------------------- R-C12-10 every demand entry's category is written
    with chk.part("R-C12-10 every demand entry's category is written"):
        wdm = repo.func(IO, "InpFile._write_demands")
        chk.fn(wdm)
        # the writer is RUN (sa/concrete.py: tree-walking evaluator over the parsed source, nothing is imported) on a mock model with one
        # junction; what counts is which lines reach the file, not how the guard is written
        for ndem, cat in ((1, None), (1, "fire"), (2, None), (2, "fire")):
            lines = concrete_demand_lines(repo, ndem, cat)
            must = ndem > 1 or cat is not None
            ok_ = (not must) or (len(lines) == ndem and (cat is None or cat in lines[0]))
            chk.expect(ok_, "R-C12-10", "a junction with %d demand(s), first category %r, gets its [DEMANDS] lines" % (ndem, cat), loc(wdm),
                       "the [JUNCTIONS] line has no place for a demand category: a junction whose only demand has a category must be written to [DEMANDS] or the category is lost",
                       expected="%d line(s)%s" % (ndem, ", the first with category %s" % cat if cat else ""), found=lines)

    # ---------------------------------------------------------------- R-C12-11 rule conditions: grouping of AND / OR
    with chk.part("R-C12-11 rule conditions: grouping of AND / OR"):
        # PRESENCE / TEXT MATCH ONLY: a Raise node somewhere in the function, the substrings AndCondition and OrCondition in its unparsed source and an
        # isinstance call on an expression containing `_condition_`.  The grouping itself is never analysed (`rec` below is computed and not used), so the
        # message of the instance says more than the rule decides.
        acc = repo.func(IO, "_EpanetRule.add_control_condition")
        chk.fn(acc)
        rec = [n for n in walk(acc) if isinstance(n, ast.If) and "OrCondition" in unparse(n.test) or (isinstance(n, ast.If) and "AndCondition" in unparse(n.test))]
        handles_mixed = any(isinstance(n, (ast.Raise,)) for n in walk(acc)) and "AndCondition" in unparse(acc) and "OrCondition" in unparse(acc) and \
            any(isinstance(n, ast.Call) and unparse(n.func) == "isinstance" and "_condition_" in unparse(n.args[0]) for n in walk(acc))
        chk.expect(handles_mixed, "R-C12-11", "the rule writer keeps the grouping of nested AND / OR conditions (or refuses what the flat rule grammar cannot express)", loc(acc),
                   "add_control_condition flattens the condition tree into IF/AND/OR clauses in visiting order; the reader groups them as an AND of OR-groups, so "
                   "`a or (b and c)` and `(a and b) or c` come back as different conditions", expected="normalisation to an AND of OR-groups, or a refusal", found="children are emitted in order without looking at their type")

        # [TIMES]: the writer and the reader are RUN (concrete evaluator, mock options) -- every option, and START CLOCKTIME for instants in
        # every hour of the day, must come back as written; how either side computes or formats the text does not matter
        wtf, rdf = repo.func(IO, "InpFile._write_times"), repo.func(IO, "InpFile._read_times")
        chk.fn(wtf, rdf, repo.func(IO, "_clock_time_to_sec"))
        world = concrete_world(repo)
        diffs = {}
        for hour in range(24):
            hb = None
            for m_, s_ in ((0, 0), (30, 0), (59, 59)):
                vals = dict(TIME_OPTIONS, start_clocktime=hour * 3600 + m_ * 60 + s_)
                text, back = concrete_times_round_trip(repo, world, vals)
                line = [l.strip() for l in text.splitlines() if "CLOCKTIME" in l.upper()]
                got = back.get("start_clocktime") if isinstance(back, dict) else back
                if got != vals["start_clocktime"]:
                    hb = hb or (vals["start_clocktime"], line[0] if line else "(no START CLOCKTIME line)", got)
                if isinstance(back, dict):
                    for k, v in vals.items():
                        if k != "start_clocktime" and back.get(k) != v:
                            diffs.setdefault(k, (v, back.get(k)))
            chk.expect(hb is None, "R-C12-7", "START CLOCKTIME written for an instant in hour %02d reads back as the same instant" % hour, loc(wtf),
                       "InpFile._write_times run on mock time options, its text read by InpFile._read_times (concrete evaluation of both)",
                       expected="%d s" % hb[0] if hb else None, found=("%r reads back as %s" % (hb[1], hb[2])) if hb else None)
        chk.expect(not diffs, "R-C12-7", "[TIMES] duration, time steps, pattern / report start and statistic read back as written", loc(wtf),
                   expected={k: v[0] for k, v in diffs.items()}, found={k: v[1] for k, v in diffs.items()})

    # ---------------------------------------------------------------- R-C12-14 [TIMES] values with a units word (EPANET: SECONDS(SEC), MINUTES(MIN), HOURS, DAYS; hours when omitted)
    with chk.part("R-C12-14 [TIMES] values with a units word (EPANET: SECONDS(SEC), MINUTES(MIN), HOURS, DAYS"):
        # _read_times is RUN on one line per option and spelling; files written by EPANET / other tools use these forms, and a model read from
        # them must be the model they describe before it can be written back
        TIME_FORMS = (("30 MIN", 1800), ("90 SEC", 90), ("2 HOURS", 7200), ("1 DAY", 86400), ("1.5", 5400), ("1:30", 5400), ("45 MINUTES", 2700), ("120 SECONDS", 120))
        for label, attr in (("DURATION", "duration"), ("HYDRAULIC TIMESTEP", "hydraulic_timestep"), ("QUALITY TIMESTEP", "quality_timestep"), ("PATTERN TIMESTEP", "pattern_timestep"),
                            ("PATTERN START", "pattern_start"), ("REPORT TIMESTEP", "report_timestep"), ("REPORT START", "report_start"), ("RULE TIMESTEP", "rule_timestep")):
            wrong = []
            for txt, want in TIME_FORMS:
                got = concrete_read_times(world, ["%s %s" % (label, txt)])
                got = got.get(attr, "(option not set)") if isinstance(got, dict) else got
                if got != want:
                    wrong.append(("%s %s" % (label, txt), want, got))
            chk.expect(not wrong, "R-C12-14", "[TIMES] %s is read in the units the line names (seconds, minutes, hours, days; hours by default; H:MM)" % label, loc(rdf),
                       "InpFile._read_times run (concrete evaluation) on `<option> 30 MIN`, `90 SEC`, `2 HOURS`, `1 DAY`, `1.5`, `1:30`, ...",
                       expected=[(l, w_) for l, w_, g in wrong[:3]], found=[(l, g) for l, w_, g in wrong[:3]])
        chk.floor("R-C12-14", 8)

    # ---------------------------------------------------------------- R-C12-15 rule clause times in every spelling the INP grammar has
    with chk.part("R-C12-15 rule clause times in every spelling the INP grammar has"):
        # `IF SYSTEM CLOCKTIME >= 8 AM` (the EPANET manual's own example), `8:00 AM`, `14:00`, decimal hours: the condition's constructor is RUN
        CLOCK_FORMS = (("8 AM", 28800), ("6 PM", 64800), ("12 AM", 0), ("12 PM", 43200), ("8:00 AM", 28800), ("8:30 PM", 73800), ("14:00", 50400), ("6", 21600), ("6.5", 23400),
                       ("8 am", 28800), ("11:59:59 PM", 86399))
        for clsname in ("TimeOfDayCondition", "SimTimeCondition"):
            cf = repo.func("wntr/network/controls.py", clsname + ".__init__")
            chk.fn(cf)
            wrong = []
            for txt, want in CLOCK_FORMS:
                got = concrete_condition_threshold(world, clsname, txt)
                if isinstance(got, str) or got != want:
                    wrong.append((txt, want, got))
            chk.expect(not wrong, "R-C12-15", "%s accepts a rule clause time as `H AM/PM`, `H:MM[:SS] [AM/PM]` or decimal hours and holds it in seconds" % clsname, loc(cf),
                       "the constructor is run (concrete evaluation) on '8 AM', '6 PM', '12 AM', '12 PM', '8:00 AM', '8:30 PM', '14:00', '6', '6.5'",
                       expected=[(t, w_) for t, w_, g in wrong[:3]], found=[(t, g) for t, w_, g in wrong[:3]])

    # ---------------------------------------------------------------- R-C12-18 a reader object can be used again: what one read accumulates is reset by the next
    with chk.part("R-C12-18 a reader object can be used again: what one read accumulates is reset by the next"):
        reader_state_reset(repo, chk)

    # ---------------------------------------------------------------- R-C12-16 the time steps the simulator settles on (clause of C03 decided with this module's
    with chk.part("R-C12-16 the time steps the simulator settles on (clause of C03 decided with this module's"):
        # time-option machinery): as EPANET, the hydraulic step is shortened to the pattern step and to the report step, so that no pattern period is skipped
        sso = repo.func("wntr/sim/core.py", "WNTRSimulator._setup_sim_options")
        chk.fn(sso)
        for hyd, pat, rep in ((3600, 1800, 3600), (3600, 3600, 3600), (1800, 3600, 3600), (3600, 900, 1800), (3600, 1800, "ALL"), (900, 3600, 3600)):
            want = min([hyd, pat] + ([rep] if not isinstance(rep, str) else []))
            got, rep_got = concrete_sim_steps(world, hyd, pat, rep)
            chk.expect(got == want, "R-C12-16", "hydraulic %s s, pattern %s s, report %s: the simulator's hydraulic step is the shortest of them" % (hyd, pat, rep), loc(sso),
                       "WNTRSimulator._setup_sim_options run (concrete evaluation) on mock time options; EPANET never lets a hydraulic step skip a pattern period",
                       expected=want, found=got)


WITNESSES = [
    dict(name="reader-keeps-the-curves-of-the-previous-file", file=IO, old="        self.curves = OrderedDict()\n        self.top_comments = []\n        self.sections = OrderedDict()\n",
         new="        self.top_comments = []\n        self.sections = OrderedDict()\n", rule="R-C12-18"),
    dict(name="reader-state-cleared-in-place-preserving", file=IO, old="        self.curves = OrderedDict()\n        self.top_comments = []\n        self.sections = OrderedDict()\n",
         new="        self.curves.clear()\n        del self.top_comments[:]\n        self.top_comments = []\n        self.sections = OrderedDict()\n", silent=True),
    # fixture variant B: options and elements the base fixture does not have
    dict(name="round-trip-statistic-not-written", file=IO, old="        f.write(entry.format('STATISTIC', wn.options.time.statistic).encode(sys_default_enc))\n", new="", rule="R-C12-17"),
    dict(name="round-trip-unbalanced-count-dropped", file=IO, old="            f.write('{:20s} {:s} {:d}\\n'.format('UNBALANCED', wn.options.hydraulic.unbalanced, wn.options.hydraulic.unbalanced_value).encode(sys_default_enc))\n",
         new="            f.write(entry_string.format('UNBALANCED', wn.options.hydraulic.unbalanced).encode(sys_default_enc))\n", rule="R-C12-17"),
    dict(name="round-trip-trace-node-dropped", file=IO, old="            f.write('{:20s} {} {}\\n'.format('QUALITY', wn.options.quality.parameter, wn.options.quality.trace_node).encode(sys_default_enc))\n",
         new="            f.write(entry_string.format('QUALITY', wn.options.quality.parameter).encode(sys_default_enc))\n", rule="R-C12-17"),
    dict(name="round-trip-tank-minimum-volume-written-as-a-length", file=IO, old="                 'minvol': from_si(self.flow_units, tank.min_vol, HydParam.Volume),\n",
         new="                 'minvol': from_si(self.flow_units, tank.min_vol, HydParam.Length),\n", rule="R-C12-17"),
    dict(name="round-trip-valve-setting-written-unconverted", file=IO, old="                valve_set = from_si(self.flow_units, valve.initial_setting, HydParam.Flow)\n", new="                valve_set = valve.initial_setting\n", rule="R-C12-17"),
    dict(name="round-trip-rule-priority-dropped-by-the-writer", file=IO, old="        if self.priority >= 0:\n", new="        if self.priority >= 99:\n", rule="R-C12-17"),
    dict(name="mass-units-only-from-previous-read", file=IO, old="        if isinstance(quality_units, str) and quality_units.split('/')[0] in ('mg', 'ug'):\n            self.mass_units = MassUnits[quality_units.split('/')[0]]\n        elif self.mass_units is None:",
         new="        if self.mass_units is None:", rule="R-C12-9"),
    dict(name="single-demand-category-dropped", file=IO, old="            if len(demands) > 1 or (len(demands) == 1 and demands[0].category):", new="            if len(demands) > 1:", rule="R-C12-10"),
    dict(name="control-time-as-decimal-hours", file=IO, old="'time': '{:d}:{:02d}:{:02d}'.format(*_sec_to_string(all_control._condition._threshold))}", new="'time': '{:g}'.format(all_control._condition._threshold / 3600.0)}", rule="R-C12-8"),
    dict(name="rule-clock-12am-not-mapped", file="wntr/network/controls.py", old="            if len(words) > 1 and words[1] in ('AM', 'PM') and hours == 12:\n                hours = 0", new="            if False:\n                hours = 0", rule="R-C12-8"),
    dict(name="noon-hour-written-as-am", file=IO, old="        if hrs < 12:\n            time_format = ' AM'\n        else:\n            hrs -= 12\n            time_format = ' PM'",
         new="        time_format = ' AM'\n        if hrs > 12:\n            hrs -= 12\n            time_format = ' PM'", rule="R-C12-7"),
    dict(name="pipe-length-class", file=IO, old="                        to_si(self.flow_units, float(current[3]), HydParam.Length),\n                        to_si(self.flow_units, float(current[4]), HydParam.PipeDiameter),", new="                        to_si(self.flow_units, float(current[3]), HydParam.PipeDiameter),\n                        to_si(self.flow_units, float(current[4]), HydParam.PipeDiameter),", rule="R-C12-2"),
    dict(name="reader-from-si", file=IO, old="                                to_si(self.flow_units, float(current[1]), HydParam.Elevation),\n                                demand_category=None)", new="                                from_si(self.flow_units, float(current[1]), HydParam.Elevation),\n                                demand_category=None)", rule="R-C12-2"),
    dict(name="writer-drops-conversion", file=IO, old="                 'diam': from_si(self.flow_units, tank.diameter, HydParam.TankDiameter),", new="                 'diam': tank.diameter,", rule="R-C12-2"),
    dict(name="valve-type-list", file=IO, old="            if valve_type in ['PRV', 'PSV', 'PBV']:\n                valve_set = to_si(self.flow_units, float(current[5]), HydParam.Pressure)\n            elif valve_type == 'FCV':", new="            if valve_type in ['PRV', 'PSV']:\n                valve_set = to_si(self.flow_units, float(current[5]), HydParam.Pressure)\n            elif valve_type in ['FCV', 'PBV']:", rule="R-C12-2"),
    dict(name="tank-coeff-order", file=IO, old="                                                   tank.bulk_coeff,\n                                                   QualParam.BulkReactionCoeff,\n                                                   mass_units=self.mass_units,\n                                                   reaction_order=wn.options.reaction.bulk_order)",
         new="                                                   tank.bulk_coeff,\n                                                   QualParam.BulkReactionCoeff,\n                                                   mass_units=self.mass_units,\n                                                   reaction_order=wn.options.reaction.tank_order)", rule="R-C12-2"),
    dict(name="rule-setting-not-converted-on-read", file=IO, old="            elif attr.lower() in ['setting']:\n                if isinstance(link, Valve):\n                    if link.valve_type.upper() in ['PRV', 'PBV', 'PSV']:\n                        value = to_si(self.inp_units, value, HydParam.Pressure)\n                    elif link.valve_type.upper() in ['FCV']:\n                        value = to_si(self.inp_units, value, HydParam.Flow)\n            then_acts.append",
         new="            elif attr.lower() in ['setting']:\n                if isinstance(link, Valve):\n                    if link.valve_type.upper() in ['PRV', 'PBV', 'PSV']:\n                        value = to_si(self.inp_units, value, HydParam.Pressure)\n            then_acts.append", rule="R-C12-2"),
    dict(name="control-threshold-class", file=IO, old="                        vals['thresh'] = from_si(self.flow_units, threshold, HydParam.Pressure) ", new="                        vals['thresh'] = from_si(self.flow_units, threshold, HydParam.HydraulicHead) ", rule="R-C12-2"),
    dict(name="curve-headloss", file=IO, old="                    y = from_si(self.flow_units, point[1], HydParam.HeadLoss)", new="                    y = from_si(self.flow_units, point[1], HydParam.HydraulicHead)", rule="R-C12-2"),
    dict(name="length-vs-head-preserving", file=IO, old="                        to_si(self.flow_units, float(current[2]), HydParam.Length),\n                        to_si(self.flow_units, float(current[3]), HydParam.Length),", new="                        to_si(self.flow_units, float(current[2]), HydParam.HydraulicHead),\n                        to_si(self.flow_units, float(current[3]), HydParam.Elevation),", silent=True),
    # --- behaviour-preserving rewrites the rules must stay quiet on (shape tolerance, one per kind of refactoring) and further mutations that
    #     must fire; generated from the current source text, every `old` occurs exactly once
    dict(name='silent-rule-else-loop-as-helper-and-comprehension', file=IO, old="        else_acts = []\n        for act in self._else_clauses:\n            words = act.strip().split()\n            if len(words) < 6:\n                # TODO: raise error\n                pass\n            if words[1].upper() in ('NODE', 'JUNCTION', 'TANK', 'RESERVOIR'):\n                # a leak action targets a node (as in _read_control_line)\n                link = model.get_node(words[2])\n            else:\n                link = model.get_link(words[2])\n            attr = words[3].lower()\n            if attr == 'leak_status':\n                value = words[5].upper() == 'TRUE'\n            else:\n                value = ValueCondition._parse_value(words[5])\n            if attr.lower() in ['demand']:\n                value = to_si(self.inp_units, value, HydParam.Demand)\n            elif attr.lower() in ['head', 'level']:\n                value = to_si(self.inp_units, value, HydParam.HydraulicHead)\n            elif attr.lower() in ['flow']:\n                value = to_si(self.inp_units, value, HydParam.Flow)\n            elif attr.lower() in ['pressure']:\n                value = to_si(self.inp_units, value, HydParam.Pressure)\n            elif attr.lower() in ['setting']:\n                if isinstance(link, Valve):\n                    if link.valve_type.upper() in ['PRV', 'PBV', 'PSV']:\n                        value = to_si(self.inp_units, value, HydParam.Pressure)\n                    elif link.valve_type.upper() in ['FCV']:\n                        value = to_si(self.inp_units, value, HydParam.Flow)\n            else_acts.append(ControlAction(link, attr, value))\n", new='        else_acts = [self._parse_action_clause(model, act) for act in self._else_clauses]\n', also=[('    def generate_control(self, model):\n', "    def _parse_action_clause(self, model, act):\n        words = act.strip().split()\n        if len(words) < 6:\n            # TODO: raise error\n            pass\n        if words[1].upper() in ('NODE', 'JUNCTION', 'TANK', 'RESERVOIR'):\n            # a leak action targets a node (as in _read_control_line)\n            link = model.get_node(words[2])\n        else:\n            link = model.get_link(words[2])\n        attr = words[3].lower()\n        if attr == 'leak_status':\n            value = words[5].upper() == 'TRUE'\n        else:\n            value = ValueCondition._parse_value(words[5])\n        if attr.lower() in ['demand']:\n            value = to_si(self.inp_units, value, HydParam.Demand)\n        elif attr.lower() in ['head', 'level']:\n            value = to_si(self.inp_units, value, HydParam.HydraulicHead)\n        elif attr.lower() in ['flow']:\n            value = to_si(self.inp_units, value, HydParam.Flow)\n        elif attr.lower() in ['pressure']:\n            value = to_si(self.inp_units, value, HydParam.Pressure)\n        elif attr.lower() in ['setting']:\n            if isinstance(link, Valve):\n                if link.valve_type.upper() in ['PRV', 'PBV', 'PSV']:\n                    value = to_si(self.inp_units, value, HydParam.Pressure)\n                elif link.valve_type.upper() in ['FCV']:\n                    value = to_si(self.inp_units, value, HydParam.Flow)\n        return ControlAction(link, attr, value)\n\n    def generate_control(self, model):\n")], silent=True),
    dict(name='silent-control-setting-closure-as-method-with-early-returns', file=IO, old="    def _write_controls(self, f, wn):\n        def get_setting(control_action, control_name):\n            value = control_action._value\n            attribute = control_action._attribute.lower()\n            if attribute == 'status':\n                setting = LinkStatus(value).name\n            elif attribute == 'base_speed':\n                setting = str(value)\n            elif attribute == 'setting' and isinstance(control_action._target_obj, Valve):\n                valve = control_action._target_obj\n                valve_type = valve.valve_type\n                if valve_type == 'PRV' or valve_type == 'PSV' or valve_type == 'PBV':\n                    setting = str(from_si(self.flow_units, value, HydParam.Pressure))\n                elif valve_type == 'FCV':\n                    setting = str(from_si(self.flow_units, value, HydParam.Flow))\n                elif valve_type == 'TCV':\n                    setting = str(value)\n                elif valve_type == 'GPV':\n                    setting = value\n                else:\n                    raise ValueError('Valve type not recognized' + str(valve_type))\n            elif attribute == 'setting':\n                setting = value\n            else:\n                setting = None\n                logger.warning('Could not write control '+str(control_name)+' - skipping')\n\n            return setting\n\n", new="    def _control_setting(self, control_action, control_name):\n        value = control_action._value\n        attribute = control_action._attribute.lower()\n        if attribute == 'status':\n            return LinkStatus(value).name\n        if attribute == 'base_speed':\n            return str(value)\n        if attribute == 'setting' and isinstance(control_action._target_obj, Valve):\n            valve_type = control_action._target_obj.valve_type\n            if valve_type in ('PRV', 'PSV', 'PBV'):\n                return str(from_si(self.flow_units, value, HydParam.Pressure))\n            if valve_type == 'FCV':\n                return str(from_si(self.flow_units, value, HydParam.Flow))\n            if valve_type == 'TCV':\n                return str(value)\n            if valve_type == 'GPV':\n                return value\n            raise ValueError('Valve type not recognized' + str(valve_type))\n        if attribute == 'setting':\n            return value\n        logger.warning('Could not write control '+str(control_name)+' - skipping')\n        return None\n\n    def _write_controls(self, f, wn):\n", also=[("                            'setting': get_setting(control_action, text),\n                            'compare': 'TIME',", "                            'setting': self._control_setting(control_action, text),\n                            'compare': 'TIME',"), ("                            'setting': get_setting(control_action, text),\n                            'ntype':", "                            'setting': self._control_setting(control_action, text),\n                            'ntype':")], silent=True),
    dict(name='silent-sec-to-clock-shared-static-split-helper', file='wntr/network/controls.py', old='    @classmethod\n    def _sec_to_clock(cls, value):\n        sec = float(value)\n        hours = int(sec/3600.)\n        sec -= hours*3600\n        mm = int(sec/60.)\n        sec -= mm*60\n        if hours >= 12:', new='    @staticmethod\n    def _split_hms(sec):\n        hours = int(sec/3600.)\n        sec -= hours*3600\n        mm = int(sec/60.)\n        sec -= mm*60\n        return hours, mm, sec\n\n    @classmethod\n    def _sec_to_clock(cls, value):\n        hours, mm, sec = cls._split_hms(float(value))\n        if hours >= 12:', silent=True),
    dict(name='silent-reader-token-variable-renamed', file=IO, old="    def _read_emitters(self):\n        for lnum, line in self.sections['[EMITTERS]']: # Private attribute on junctions\n            line = line.split(';')[0]\n            current = line.split()\n            if current == []:\n                continue\n            junction = self.wn.get_node(current[0])\n            junction.emitter_coefficient = to_si(self.flow_units, float(current[1]), HydParam.EmitterCoeff)\n\n", new="    def _read_emitters(self):\n        for lnum, line in self.sections['[EMITTERS]']: # Private attribute on junctions\n            line = line.split(';')[0]\n            tokens = line.split()\n            if tokens == []:\n                continue\n            junction = self.wn.get_node(tokens[0])\n            junction.emitter_coefficient = to_si(self.flow_units, float(tokens[1]), HydParam.EmitterCoeff)\n\n", silent=True),
    dict(name='silent-junction-elevation-hoisted-into-temporaries', file=IO, old='                self.wn.add_junction(current[0],\n                                base_demand,\n                                pat,\n                                to_si(self.flow_units, float(current[1]), HydParam.Elevation),\n                                demand_category=None)', new='                elev_file = float(current[1])\n                elev = to_si(self.flow_units, elev_file, HydParam.Elevation)\n                self.wn.add_junction(current[0], base_demand, pat, elev, demand_category=None)', silent=True),
    dict(name='silent-pipe-entry-keyword-arguments-and-conditional-expression', file=IO, old="            E = {'name': pipe_name,\n                 'node1': pipe.start_node_name,\n                 'node2': pipe.end_node_name,\n                 'len': from_si(self.flow_units, pipe.length, HydParam.Length),\n                 'diam': from_si(self.flow_units, pipe.diameter, HydParam.PipeDiameter),\n                 'rough': from_si(self.flow_units, pipe.roughness, \n                                  HydParam.RoughnessCoeff, \n                                  darcy_weisbach=darcy_weisbach),\n                 'mloss': pipe.minor_loss,\n                 'status': str(pipe.initial_status),\n                 'com': ';'}\n            if pipe.check_valve:\n                E['status'] = 'CV'\n            f.write(_PIPE_ENTRY.format(**E).encode(sys_default_enc))", new="            length = from_si(self.flow_units, pipe.length, HydParam.Length)\n            diameter = from_si(self.flow_units, pipe.diameter, HydParam.PipeDiameter)\n            roughness = from_si(self.flow_units, pipe.roughness, HydParam.RoughnessCoeff, darcy_weisbach=darcy_weisbach)\n            status = 'CV' if pipe.check_valve else str(pipe.initial_status)\n            f.write(_PIPE_ENTRY.format(name=pipe_name, node1=pipe.start_node_name, node2=pipe.end_node_name, len=length, diam=diameter,\n                                       rough=roughness, mloss=pipe.minor_loss, status=status, com=';').encode(sys_default_enc))", silent=True),
    dict(name='silent-valve-setting-lookup-table', file=IO, old="            valve_type = current[4].upper()\n            if valve_type in ['PRV', 'PSV', 'PBV']:\n                valve_set = to_si(self.flow_units, float(current[5]), HydParam.Pressure)\n            elif valve_type == 'FCV':\n                valve_set = to_si(self.flow_units, float(current[5]), HydParam.Flow)\n            elif valve_type == 'TCV':\n                valve_set = float(current[5])\n            elif valve_type == 'GPV':", new="            valve_type = current[4].upper()\n            setting_param = {'PRV': HydParam.Pressure, 'PSV': HydParam.Pressure, 'PBV': HydParam.Pressure, 'FCV': HydParam.Flow}\n            if valve_type in setting_param:\n                valve_set = to_si(self.flow_units, float(current[5]), setting_param[valve_type])\n            elif valve_type == 'TCV':\n                valve_set = float(current[5])\n            elif valve_type == 'GPV':", silent=True),
    dict(name='silent-valve-chain-reordered-and-spelled-with-or', file=IO, old="            if valve_type in ['PRV', 'PSV', 'PBV']:\n                valve_set = to_si(self.flow_units, float(current[5]), HydParam.Pressure)\n            elif valve_type == 'FCV':\n                valve_set = to_si(self.flow_units, float(current[5]), HydParam.Flow)\n            elif valve_type == 'TCV':\n                valve_set = float(current[5])", new="            if valve_type == 'TCV':\n                valve_set = float(current[5])\n            elif valve_type == 'FCV':\n                valve_set = to_si(self.flow_units, float(current[5]), HydParam.Flow)\n            elif valve_type == 'PRV' or valve_type == 'PSV' or valve_type == 'PBV':\n                valve_set = to_si(self.flow_units, float(current[5]), HydParam.Pressure)", silent=True),
    dict(name='silent-tank-overflow-guards-flattened', file=IO, old="            if version ==2.2:\n                if tank.overflow:\n                    E['overflow'] = 'YES'\n                    if tank.vol_curve is None:\n                        E['curve'] = '*'", new="            if version == 2.2 and tank.overflow:\n                E['overflow'] = 'YES'\n                if tank.vol_curve is None:\n                    E['curve'] = '*'", silent=True),
    dict(name='silent-sec-to-string-renamed-parameter-and-temporaries', file=IO, old='def _sec_to_string(sec):\n    hours = int(sec/3600.)\n    sec -= hours*3600\n    mm = int(sec/60.)\n    sec -= mm*60\n    return (hours, mm, int(sec))', new='def _sec_to_string(seconds):\n    hours = int(seconds/3600.)\n    rest = seconds - hours*3600\n    mm = int(rest/60.)\n    return (hours, mm, int(rest - mm*60))', silent=True),
    dict(name='silent-volume-curve-points-as-comprehension', file=IO, old='                    curve_points = []\n                    for point in self.curves[curve_name]:\n                        x = to_si(self.flow_units, point[0], HydParam.Length)\n                        y = to_si(self.flow_units, point[1], HydParam.Volume)\n                        curve_points.append((x, y))\n', new='                    curve_points = [(to_si(self.flow_units, pt[0], HydParam.Length), to_si(self.flow_units, pt[1], HydParam.Volume)) for pt in self.curves[curve_name]]\n', silent=True),
    dict(name='silent-demand-guard-as-named-flag', file=IO, old='            demands = wn.get_node(node).demand_timeseries_list\n            # a single demand needs a [DEMANDS] line only to carry its category (the [JUNCTIONS] line has no place for it)\n            if len(demands) > 1 or (len(demands) == 1 and demands[0].category):\n                for ct, demand in enumerate(demands):', new='            dlist = wn.get_node(node).demand_timeseries_list\n            needs_lines = len(dlist) > 1 or (len(dlist) == 1 and bool(dlist[0].category))\n            if needs_lines:\n                for demand in dlist:', silent=True),
    dict(name='silent-options-22-guard-inverted', file=IO, old="        if version == 2.0:\n            pass\n        else:\n            if wn.options.hydraulic.headerror != 0: \n                f.write(entry_float.format('HEADERROR', wn.options.hydraulic.headerror).encode(sys_default_enc))\n\n            if wn.options.hydraulic.flowchange != 0:\n                f.write(entry_float.format('FLOWCHANGE', wn.options.hydraulic.flowchange).encode(sys_default_enc))\n", new="        epanet22 = version != 2.0\n        if epanet22 and wn.options.hydraulic.headerror != 0:\n            f.write(entry_float.format('HEADERROR', wn.options.hydraulic.headerror).encode(sys_default_enc))\n        if epanet22 and wn.options.hydraulic.flowchange != 0:\n            f.write(entry_float.format('FLOWCHANGE', wn.options.hydraulic.flowchange).encode(sys_default_enc))\n", silent=True),
    dict(name='silent-minimum-pressure-read-without-temporary', file=IO, old='                    minimum_pressure = to_si(self.flow_units, float(words[2]), HydParam.Pressure)\n                    opts.hydraulic.minimum_pressure = minimum_pressure\n', new='                    opts.hydraulic.minimum_pressure = to_si(self.flow_units, float(words[2]), HydParam.Pressure)\n', silent=True),
    dict(name='silent-mass-units-chain-as-early-assignment', file=IO, old="        quality_units = wn.options.quality.inpfile_units\n        if isinstance(quality_units, str) and quality_units.split('/')[0] in ('mg', 'ug'):\n            self.mass_units = MassUnits[quality_units.split('/')[0]]\n        elif self.mass_units is None:\n            self.mass_units = MassUnits.mg\n", new="        qunits = wn.options.quality.inpfile_units\n        prefix = qunits.split('/')[0] if isinstance(qunits, str) else None\n        if prefix in ('mg', 'ug'):\n            self.mass_units = MassUnits[prefix]\n        elif self.mass_units is None:\n            self.mass_units = MassUnits.mg\n", silent=True),
    dict(name='silent-reaction-order-lines-in-a-loop', file=IO, old="        f.write(entry_int.format('ORDER', 'BULK', int(wn.options.reaction.bulk_order)).encode(sys_default_enc))\n        f.write(entry_int.format('ORDER', 'TANK', int(wn.options.reaction.tank_order)).encode(sys_default_enc))\n        f.write(entry_int.format('ORDER', 'WALL', int(wn.options.reaction.wall_order)).encode(sys_default_enc))\n", new="        for label, order in (('BULK', wn.options.reaction.bulk_order), ('TANK', wn.options.reaction.tank_order), ('WALL', wn.options.reaction.wall_order)):\n            f.write(entry_int.format('ORDER', label, int(order)).encode(sys_default_enc))\n", silent=True),
    dict(name='minimum-pressure-read-as-head', file=IO, old='minimum_pressure = to_si(self.flow_units, float(words[2]), HydParam.Pressure)', new='minimum_pressure = to_si(self.flow_units, float(words[2]), HydParam.HydraulicHead)', rule='R-C12-5'),
    dict(name='required-pressure-written-unconverted', file=IO, old='required_pressure = from_si(self.flow_units, wn.options.hydraulic.required_pressure, HydParam.Pressure)', new='required_pressure = wn.options.hydraulic.required_pressure', rule='R-C12-5'),
    dict(name='headerror-written-to-2.0-files', file=IO, old='        if version == 2.0:\n            pass\n        else:\n            if wn.options.hydraulic.headerror != 0: ', new='        if False:\n            pass\n        else:\n            if wn.options.hydraulic.headerror != 0: ', rule='R-C12-6'),
    dict(name='overflow-column-written-to-2.0-files', file=IO, old='            if version ==2.2:\n                if tank.overflow:', new='            if True:\n                if tank.overflow:', rule='R-C12-6'),
    dict(name='overflow-placeholder-overwrites-volume-curve', file=IO, old="            if version ==2.2:\n                if tank.overflow:\n                    E['overflow'] = 'YES'\n                    if tank.vol_curve is None:\n                        E['curve'] = '*'", new="            if version == 2.2 and tank.overflow:\n                E['overflow'] = 'YES'\n                E['curve'] = '*'", rule='R-C12-12'),
    dict(name='minutes-weighed-by-six', file=IO, old='                int(time_tuple.groups()[1])*60 +\n                int(round(', new='                int(time_tuple.groups()[1])*6 +\n                int(round(', rule='R-C12-7'),
    dict(name='source-type-tested-in-name-column', file=IO, old="current[1].upper() == 'MASS'", new="current[0].upper() == 'MASS'", rule='R-C12-3'),
    dict(name='wall-order-line-after-coefficients', file=IO, old="        f.write(entry_int.format('ORDER', 'WALL', int(wn.options.reaction.wall_order)).encode(sys_default_enc))\n", new='', also=[('        if wn.options.reaction.limiting_potential is not None:\n', "        f.write(entry_int.format('ORDER', 'WALL', int(wn.options.reaction.wall_order)).encode(sys_default_enc))\n        if wn.options.reaction.limiting_potential is not None:\n")], rule='R-C12-4'),
    dict(name='mass-units-from-option-only-when-unset', file=IO, old="        if isinstance(quality_units, str) and quality_units.split('/')[0] in ('mg', 'ug'):\n            self.mass_units = MassUnits[quality_units.split('/')[0]]\n        elif self.mass_units is None:", new="        if self.mass_units is None and isinstance(quality_units, str) and quality_units.split('/')[0] in ('mg', 'ug'):\n            self.mass_units = MassUnits[quality_units.split('/')[0]]\n        elif self.mass_units is None:", rule='R-C12-9'),
    dict(name='units-line-announces-the-option-not-the-converting-unit', file=IO, old="f.write(entry_string.format('UNITS', self.flow_units.name)", new="f.write(entry_string.format('UNITS', wn.options.hydraulic.inpfile_units)", rule='R-C12-9'),
    dict(name='volume-curve-y-read-unconverted', file=IO, old='                        y = to_si(self.flow_units, point[1], HydParam.Volume)\n', new='                        y = point[1]\n', rule='R-C12-2'),
    dict(name='efficiency-curve-y-converted-on-read-only', file=IO, old='                        x = to_si(self.flow_units, point[0], HydParam.Flow)\n                        y = point[1]\n', new='                        x = to_si(self.flow_units, point[0], HydParam.Flow)\n                        y = to_si(self.flow_units, point[1], HydParam.Flow)\n', rule='R-C12-2'),
    dict(name='control-fcv-setting-read-as-pressure', file=IO, old="            elif element.valve_type == 'FCV':\n                setting = to_si(flow_units, float(current[2]), HydParam.Flow)", new="            elif element.valve_type == 'FCV':\n                setting = to_si(flow_units, float(current[2]), HydParam.Pressure)", rule='R-C12-2'),
    dict(name='control-setting-read-from-wrong-column', file=IO, old="            elif element.valve_type == 'FCV':\n                setting = to_si(flow_units, float(current[2]), HydParam.Flow)", new="            elif element.valve_type == 'FCV':\n                setting = to_si(flow_units, float(current[3]), HydParam.Flow)", rule='R-C12-2'),
    dict(name='control-tank-threshold-read-as-pressure', file=IO, old='                threshold = to_si(flow_units, \n                                  float(current[7]), HydParam.HydraulicHead)# + node.elevation', new='                threshold = to_si(flow_units, \n                                  float(current[7]), HydParam.Pressure)# + node.elevation', rule='R-C12-2'),
    dict(name='control-tcv-setting-written-as-pressure', file=IO, old="                elif valve_type == 'TCV':\n                    setting = str(value)", new="                elif valve_type == 'TCV':\n                    setting = str(from_si(self.flow_units, value, HydParam.Pressure))", rule='R-C12-2'),
    dict(name='silent-rule-actions-then-else-share-one-formatter', file=IO, old='    def add_action_on_true(self, action, prefix=\' THEN\'):\n        """Add a "then" action from an IfThenElseControl"""\n        if isinstance(action, ControlAction):\n            fmt = \'{} {} {} {} = {}\'\n            attr = action._attribute\n            val_si = action._repr_value()\n            if attr.lower() in [\'demand\']:\n                value = \'{:.6g}\'.format(from_si(self.inp_units, val_si, HydParam.Demand))\n            elif attr.lower() in [\'head\', \'level\']:\n                value = \'{:.6g}\'.format(from_si(self.inp_units, val_si, HydParam.HydraulicHead))\n            elif attr.lower() in [\'flow\']:\n                value = \'{:.6g}\'.format(from_si(self.inp_units, val_si, HydParam.Flow))\n            elif attr.lower() in [\'pressure\']:\n                value = \'{:.6g}\'.format(from_si(self.inp_units, val_si, HydParam.Pressure))\n            elif attr.lower() in [\'setting\']:\n                if isinstance(action.target()[0], Valve):\n                    if action.target()[0].valve_type.upper() in [\'PRV\', \'PBV\', \'PSV\']:\n                        value = from_si(self.inp_units, val_si, HydParam.Pressure)\n                    elif action.target()[0].valve_type.upper() in [\'FCV\']:\n                        value = from_si(self.inp_units, val_si, HydParam.Flow)\n                    else:\n                        value = val_si\n                else:\n                    value = val_si\n                value = \'{:.6g}\'.format(value)\n            else: # status\n                value = val_si\n            if isinstance(action.target()[0], Valve):\n                cls = \'Valve\'\n            elif isinstance(action.target()[0], Pump):\n                cls = \'Pump\'\n            else:\n                cls = action.target()[0].__class__.__name__\n            clause = fmt.format(prefix, cls,\n                                action.target()[0].name, action.target()[1],\n                                value)\n            self.add_then(clause)\n\n', new="    def _format_action(self, action, prefix):\n        if isinstance(action, ControlAction):\n            fmt = '{} {} {} {} = {}'\n            attr = action._attribute\n            val_si = action._repr_value()\n            if attr.lower() in ['demand']:\n                value = '{:.6g}'.format(from_si(self.inp_units, val_si, HydParam.Demand))\n            elif attr.lower() in ['head', 'level']:\n                value = '{:.6g}'.format(from_si(self.inp_units, val_si, HydParam.HydraulicHead))\n            elif attr.lower() in ['flow']:\n                value = '{:.6g}'.format(from_si(self.inp_units, val_si, HydParam.Flow))\n            elif attr.lower() in ['pressure']:\n                value = '{:.6g}'.format(from_si(self.inp_units, val_si, HydParam.Pressure))\n            elif attr.lower() in ['setting']:\n                if isinstance(action.target()[0], Valve):\n                    if action.target()[0].valve_type.upper() in ['PRV', 'PBV', 'PSV']:\n                        value = from_si(self.inp_units, val_si, HydParam.Pressure)\n                    elif action.target()[0].valve_type.upper() in ['FCV']:\n                        value = from_si(self.inp_units, val_si, HydParam.Flow)\n                    else:\n                        value = val_si\n                else:\n                    value = val_si\n                value = '{:.6g}'.format(value)\n            else: # status\n                value = val_si\n            if isinstance(action.target()[0], Valve):\n                cls = 'Valve'\n            elif isinstance(action.target()[0], Pump):\n                cls = 'Pump'\n            else:\n                cls = action.target()[0].__class__.__name__\n            clause = fmt.format(prefix, cls,\n                                action.target()[0].name, action.target()[1],\n                                value)\n            return clause\n        return None\n\n\n    def add_action_on_true(self, action, prefix=' THEN'):\n        clause = self._format_action(action, prefix)\n        if clause is not None:\n            self.add_then(clause)\n\n", also=[('    def add_action_on_false(self, action, prefix=\' ELSE\'):\n        """Add an "else" action from an IfThenElseControl"""\n        if isinstance(action, ControlAction):\n            fmt = \'{} {} {} {} = {}\'\n            attr = action._attribute\n            val_si = action._repr_value()\n            if attr.lower() in [\'demand\']:\n                value = \'{:.6g}\'.format(from_si(self.inp_units, val_si, HydParam.Demand))\n            elif attr.lower() in [\'head\', \'level\']:\n                value = \'{:.6g}\'.format(from_si(self.inp_units, val_si, HydParam.HydraulicHead))\n            elif attr.lower() in [\'flow\']:\n                value = \'{:.6g}\'.format(from_si(self.inp_units, val_si, HydParam.Flow))\n            elif attr.lower() in [\'pressure\']:\n                value = \'{:.6g}\'.format(from_si(self.inp_units, val_si, HydParam.Pressure))\n            elif attr.lower() in [\'setting\']:\n                if isinstance(action.target()[0], Valve):\n                    if action.target()[0].valve_type.upper() in [\'PRV\', \'PBV\', \'PSV\']:\n                        value = from_si(self.inp_units, val_si, HydParam.Pressure)\n                    elif action.target()[0].valve_type.upper() in [\'FCV\']:\n                        value = from_si(self.inp_units, val_si, HydParam.Flow)\n                    else:\n                        value = val_si\n                else:\n                    value = val_si\n                value = \'{:.6g}\'.format(value)\n            else: # status\n                value = val_si\n            if isinstance(action.target()[0], Valve):\n                cls = \'Valve\'\n            elif isinstance(action.target()[0], Pump):\n                cls = \'Pump\'\n            else:\n                cls = action.target()[0].__class__.__name__\n            clause = fmt.format(prefix, cls,\n                                action.target()[0].name, action.target()[1],\n                                value)\n            self.add_else(clause)\n\n', "    def add_action_on_false(self, action, prefix=' ELSE'):\n        clause = self._format_action(action, prefix)\n        if clause is not None:\n            self.add_else(clause)\n\n")], silent=True),
    dict(name='silent-rule-condition-attribute-lookup-table', file=IO, old="            if attr.lower() in ['demand']:\n                value = '{:.6g}'.format(from_si(self.inp_units, val_si, HydParam.Demand))\n            elif attr.lower() in ['head', 'level']:\n                value = '{:.6g}'.format(from_si(self.inp_units, val_si, HydParam.HydraulicHead))\n            elif attr.lower() in ['flow']:\n                value = '{:.6g}'.format(from_si(self.inp_units, val_si, HydParam.Flow))\n            elif attr.lower() in ['pressure']:\n                value = '{:.6g}'.format(from_si(self.inp_units, val_si, HydParam.Pressure))\n            elif attr.lower() in ['setting']:\n                if isinstance(condition._source_obj, Valve):", new="            attr_param = {'demand': HydParam.Demand, 'head': HydParam.HydraulicHead, 'level': HydParam.HydraulicHead, 'flow': HydParam.Flow, 'pressure': HydParam.Pressure}\n            if attr.lower() in attr_param:\n                value = '{:.6g}'.format(from_si(self.inp_units, val_si, attr_param[attr.lower()]))\n            elif attr.lower() in ['setting']:\n                if isinstance(condition._source_obj, Valve):", silent=True),
    dict(name='silent-time-control-line-positional-format-no-dict', file=IO, old="                    entry = '{ltype} {link} {setting} AT {compare} {time}\\n'\n                    vals = {'ltype': control_action._target_obj.link_type,\n                            'link': control_action._target_obj.name,\n                            'setting': get_setting(control_action, text),\n                            'compare': 'TIME',\n                            'time': '{:d}:{:02d}:{:02d}'.format(*_sec_to_string(all_control._condition._threshold))}\n                    if vals['setting'] is None:\n                        continue\n                    if isinstance(all_control._condition, TimeOfDayCondition):\n                        vals['compare'] = 'CLOCKTIME'\n                    f.write(entry.format(**vals).encode(sys_default_enc))", new="                    setting = get_setting(control_action, text)\n                    if setting is None:\n                        continue\n                    compare = 'CLOCKTIME' if isinstance(all_control._condition, TimeOfDayCondition) else 'TIME'\n                    hrs, mm, sec = _sec_to_string(all_control._condition._threshold)\n                    f.write('{} {} {} AT {} {:d}:{:02d}:{:02d}\\n'.format(control_action._target_obj.link_type, control_action._target_obj.name, setting, compare, hrs, mm, sec).encode(sys_default_enc))", silent=True),
    dict(name='silent-control-time-token-conditional-expression', file=IO, old="            if ':' in current[5]:\n                run_at_time = int(_str_time_to_sec(current[5]))\n            else:\n                run_at_time = int(float(current[5])*3600)\n            control_obj = Control._time_control(wn, run_at_time, 'SIM_TIME', False, action_obj, control_name)", new="            token = current[5]\n            run_at_time = int(_str_time_to_sec(token)) if ':' in token else int(float(token)*3600)\n            control_obj = Control._time_control(wn, run_at_time, 'SIM_TIME', False, action_obj, control_name)", silent=True),
    dict(name='silent-valve-setting-module-level-lookup-table', file=IO, old="            valve_type = current[4].upper()\n            if valve_type in ['PRV', 'PSV', 'PBV']:\n                valve_set = to_si(self.flow_units, float(current[5]), HydParam.Pressure)\n            elif valve_type == 'FCV':\n                valve_set = to_si(self.flow_units, float(current[5]), HydParam.Flow)\n            elif valve_type == 'TCV':\n                valve_set = float(current[5])\n            elif valve_type == 'GPV':", new="            valve_type = current[4].upper()\n            if valve_type in _VALVE_SETTING_PARAM:\n                valve_set = to_si(self.flow_units, float(current[5]), _VALVE_SETTING_PARAM[valve_type])\n            elif valve_type == 'TCV':\n                valve_set = float(current[5])\n            elif valve_type == 'GPV':", also=[('_TANK_ENTRY = ', "_VALVE_SETTING_PARAM = {'PRV': HydParam.Pressure, 'PSV': HydParam.Pressure, 'PBV': HydParam.Pressure, 'FCV': HydParam.Flow}\n_TANK_ENTRY = ")], silent=True),
    dict(name='valve-lookup-table-pbv-as-flow', file=IO, old="            valve_type = current[4].upper()\n            if valve_type in ['PRV', 'PSV', 'PBV']:\n                valve_set = to_si(self.flow_units, float(current[5]), HydParam.Pressure)\n            elif valve_type == 'FCV':\n                valve_set = to_si(self.flow_units, float(current[5]), HydParam.Flow)\n            elif valve_type == 'TCV':\n                valve_set = float(current[5])\n            elif valve_type == 'GPV':", new="            valve_type = current[4].upper()\n            if valve_type in _VALVE_SETTING_PARAM:\n                valve_set = to_si(self.flow_units, float(current[5]), _VALVE_SETTING_PARAM[valve_type])\n            elif valve_type == 'TCV':\n                valve_set = float(current[5])\n            elif valve_type == 'GPV':", also=[('_TANK_ENTRY = ', "_VALVE_SETTING_PARAM = {'PRV': HydParam.Pressure, 'PSV': HydParam.Pressure, 'PBV': HydParam.Flow, 'FCV': HydParam.Flow}\n_TANK_ENTRY = ")], rule='R-C12-2'),
    dict(name='silent-headloss-curve-points-renamed-inline-append', file=IO, old="                for point in self.curves[curve_name]:\n                    x = to_si(self.flow_units, point[0], HydParam.Flow)\n                    y = to_si(self.flow_units, point[1], HydParam.HeadLoss)\n                    curve_points.append((x, y))\n                self.wn.add_curve(curve_name, 'HEADLOSS', curve_points)", new="                for pt in self.curves[curve_name]:\n                    curve_points.append((to_si(self.flow_units, pt[0], HydParam.Flow), to_si(self.flow_units, pt[1], HydParam.HeadLoss)))\n                self.wn.add_curve(curve_name, 'HEADLOSS', curve_points)", silent=True),
    dict(name='silent-curve-writer-unpacks-point', file=IO, old="                for point in curve.points:\n                    x = from_si(self.flow_units, point[0], HydParam.Length)\n                    y = from_si(self.flow_units, point[1], HydParam.Volume)\n                    f.write(_CURVE_ENTRY.format(name=curve_name, x=x, y=y, com=';').encode(sys_default_enc))", new="                for px, py in curve.points:\n                    f.write(_CURVE_ENTRY.format(name=curve_name, x=from_si(self.flow_units, px, HydParam.Length), y=from_si(self.flow_units, py, HydParam.Volume), com=';').encode(sys_default_enc))", silent=True),
    dict(name='silent-reader-lines-from-generator-helper', file=IO, old="    def _read_emitters(self):\n        for lnum, line in self.sections['[EMITTERS]']: # Private attribute on junctions\n            line = line.split(';')[0]\n            current = line.split()\n            if current == []:\n                continue\n            junction = self.wn.get_node(current[0])\n            junction.emitter_coefficient = to_si(self.flow_units, float(current[1]), HydParam.EmitterCoeff)\n\n", new="    def _section_tokens(self, section):\n        for lnum, line in self.sections[section]:\n            words = line.split(';')[0].split()\n            if words:\n                yield lnum, words\n\n    def _read_emitters(self):\n        for lnum, words in self._section_tokens('[EMITTERS]'):\n            junction = self.wn.get_node(words[0])\n            junction.emitter_coefficient = to_si(self.flow_units, float(words[1]), HydParam.EmitterCoeff)\n\n", silent=True),
    dict(name='silent-emitters-written-with-f-strings', file=IO, old="        entry = '{:10s} {:10s}\\n'\n        label = '{:10s} {:10s}\\n'\n        f.write(label.format(';ID', 'Flow coefficient').encode(sys_default_enc))\n        njunctions = list(wn.junction_name_list)\n        # njunctions.sort()\n        for junction_name in njunctions:\n            junction = wn.nodes[junction_name]\n            if junction.emitter_coefficient:\n                val = from_si(self.flow_units, junction.emitter_coefficient, HydParam.EmitterCoeff)\n                f.write(entry.format(junction_name, str(val)).encode(sys_default_enc))", new='        f.write(f"{\';ID\':10s} {\'Flow coefficient\':10s}\\n".encode(sys_default_enc))\n        for junction_name in list(wn.junction_name_list):\n            junction = wn.nodes[junction_name]\n            if junction.emitter_coefficient:\n                val = from_si(self.flow_units, junction.emitter_coefficient, HydParam.EmitterCoeff)\n                f.write(f"{junction_name:10s} {str(val):10s}\\n".encode(sys_default_enc))', silent=True),
    dict(name='silent-pipe-line-as-f-string', file=IO, old="            E = {'name': pipe_name,\n                 'node1': pipe.start_node_name,\n                 'node2': pipe.end_node_name,\n                 'len': from_si(self.flow_units, pipe.length, HydParam.Length),\n                 'diam': from_si(self.flow_units, pipe.diameter, HydParam.PipeDiameter),\n                 'rough': from_si(self.flow_units, pipe.roughness, \n                                  HydParam.RoughnessCoeff, \n                                  darcy_weisbach=darcy_weisbach),\n                 'mloss': pipe.minor_loss,\n                 'status': str(pipe.initial_status),\n                 'com': ';'}\n            if pipe.check_valve:\n                E['status'] = 'CV'\n            f.write(_PIPE_ENTRY.format(**E).encode(sys_default_enc))", new='            length = from_si(self.flow_units, pipe.length, HydParam.Length)\n            diameter = from_si(self.flow_units, pipe.diameter, HydParam.PipeDiameter)\n            roughness = from_si(self.flow_units, pipe.roughness, HydParam.RoughnessCoeff, darcy_weisbach=darcy_weisbach)\n            status = \'CV\' if pipe.check_valve else str(pipe.initial_status)\n            f.write(f" {pipe_name:20s} {pipe.start_node_name:20s} {pipe.end_node_name:20s} {length:15.11g} {diameter:15.11g} {roughness:15.11g} {pipe.minor_loss:15.11g} {status:>20s} {\';\':>3s}\\n".encode(sys_default_enc))', silent=True),
    dict(name='pipe-f-string-length-and-diameter-swapped', file=IO, old="            E = {'name': pipe_name,\n                 'node1': pipe.start_node_name,\n                 'node2': pipe.end_node_name,\n                 'len': from_si(self.flow_units, pipe.length, HydParam.Length),\n                 'diam': from_si(self.flow_units, pipe.diameter, HydParam.PipeDiameter),\n                 'rough': from_si(self.flow_units, pipe.roughness, \n                                  HydParam.RoughnessCoeff, \n                                  darcy_weisbach=darcy_weisbach),\n                 'mloss': pipe.minor_loss,\n                 'status': str(pipe.initial_status),\n                 'com': ';'}\n            if pipe.check_valve:\n                E['status'] = 'CV'\n            f.write(_PIPE_ENTRY.format(**E).encode(sys_default_enc))", new='            length = from_si(self.flow_units, pipe.length, HydParam.Length)\n            diameter = from_si(self.flow_units, pipe.diameter, HydParam.PipeDiameter)\n            roughness = from_si(self.flow_units, pipe.roughness, HydParam.RoughnessCoeff, darcy_weisbach=darcy_weisbach)\n            status = \'CV\' if pipe.check_valve else str(pipe.initial_status)\n            f.write(f" {pipe_name:20s} {pipe.start_node_name:20s} {pipe.end_node_name:20s} {diameter:15.11g} {length:15.11g} {roughness:15.11g} {pipe.minor_loss:15.11g} {status:>20s} {\';\':>3s}\\n".encode(sys_default_enc))', rule='R-C12-2'),
    dict(name='silent-order-line-percent-formatting', file=IO, old="        f.write(entry_int.format('ORDER', 'BULK', int(wn.options.reaction.bulk_order)).encode(sys_default_enc))", new="        f.write((' %s %s %d\\n' % ('ORDER', 'BULK', int(wn.options.reaction.bulk_order))).encode(sys_default_enc))", silent=True),
    dict(name='silent-read-sections-dispatched-from-a-name-table', file=IO, old='            self._read_mixing()\n            self._read_report()\n            self._read_vertices()\n            self._read_labels()\n', new="            for section in ('mixing', 'report', 'vertices', 'labels'):\n                getattr(self, '_read_' + section)()\n", silent=True),
    dict(name='mixing-section-no-longer-read', file=IO, old='            self._read_mixing()\n            self._read_report()\n', new='            self._read_report()\n', rule='R-C12-1'),
    dict(name='silent-rule-then-clause-unpacked-tokens-param-selected-then-converted', file=IO, old="            if words[1].upper() in ('NODE', 'JUNCTION', 'TANK', 'RESERVOIR'):\n                # a leak action targets a node (as in _read_control_line)\n                link = model.get_node(words[2])\n            else:\n                link = model.get_link(words[2])\n            attr = words[3].lower()\n            if attr == 'leak_status':\n                value = words[5].upper() == 'TRUE'\n            else:\n                value = ValueCondition._parse_value(words[5])\n            if attr.lower() in ['demand']:\n                value = to_si(self.inp_units, value, HydParam.Demand)\n            elif attr.lower() in ['head', 'level']:\n                value = to_si(self.inp_units, value, HydParam.HydraulicHead)\n            elif attr.lower() in ['flow']:\n                value = to_si(self.inp_units, value, HydParam.Flow)\n            elif attr.lower() in ['pressure']:\n                value = to_si(self.inp_units, value, HydParam.Pressure)\n            elif attr.lower() in ['setting']:\n                if isinstance(link, Valve):\n                    if link.valve_type.upper() in ['PRV', 'PBV', 'PSV']:\n                        value = to_si(self.inp_units, value, HydParam.Pressure)\n                    elif link.valve_type.upper() in ['FCV']:\n                        value = to_si(self.inp_units, value, HydParam.Flow)\n            then_acts.append(ControlAction(link, attr, value))\n", new="            _kw, target_type, target_name, attr_txt, _eq, value_txt = words[:6]\n            if target_type.upper() in ('NODE', 'JUNCTION', 'TANK', 'RESERVOIR'):\n                link = model.get_node(target_name)\n            else:\n                link = model.get_link(target_name)\n            attr = attr_txt.lower()\n            raw = (value_txt.upper() == 'TRUE') if attr == 'leak_status' else ValueCondition._parse_value(value_txt)\n            param = None\n            if attr in ('demand',):\n                param = HydParam.Demand\n            elif attr in ('head', 'level'):\n                param = HydParam.HydraulicHead\n            elif attr == 'flow':\n                param = HydParam.Flow\n            elif attr == 'pressure':\n                param = HydParam.Pressure\n            elif attr == 'setting' and isinstance(link, Valve):\n                vt = link.valve_type.upper()\n                if vt in ('PRV', 'PBV', 'PSV'):\n                    param = HydParam.Pressure\n                elif vt == 'FCV':\n                    param = HydParam.Flow\n            value = raw if param is None else to_si(self.inp_units, raw, param)\n            then_acts.append(ControlAction(link, attr, value))\n", silent=True),
    # --- the four repaired reader / writer defects (R-C12-13 .. 16): the repair reverted in memory must fire, an equivalent correct spelling must not
    dict(name='curve-points-written-with-six-decimals', file=IO, old="_CURVE_ENTRY = ' {name:10s} {x:15.11g} {y:15.11g} {com:>3s}\\n'", new="_CURVE_ENTRY = ' {name:10s} {x:12f} {y:12f} {com:>3s}\\n'", rule='R-C12-13'),
    dict(name='silent-curve-template-assembled-from-a-shared-number-format', file=IO, old="_CURVE_ENTRY = ' {name:10s} {x:15.11g} {y:15.11g} {com:>3s}\\n'", new="_NUMBER_FORMAT = '15.11g'\n_CURVE_ENTRY = ' {name:10s} {x:' + _NUMBER_FORMAT + '} {y:' + _NUMBER_FORMAT + '} {com:>3s}\\n'", silent=True),
    dict(name='silent-curve-points-written-with-an-f-string', file=IO, old="                    x = from_si(self.flow_units, point[0], HydParam.Length)\n                    y = from_si(self.flow_units, point[1], HydParam.Volume)\n                    f.write(_CURVE_ENTRY.format(name=curve_name, x=x, y=y, com=';').encode(sys_default_enc))", new='                    x = from_si(self.flow_units, point[0], HydParam.Length)\n                    y = from_si(self.flow_units, point[1], HydParam.Volume)\n                    f.write(f" {curve_name:10s} {x:15.11g} {y:15.11g} {\';\':>3s}\\n".encode(sys_default_enc))', silent=True),
    dict(name='volume-curve-points-f-string-fixed-point', file=IO, old="                    x = from_si(self.flow_units, point[0], HydParam.Length)\n                    y = from_si(self.flow_units, point[1], HydParam.Volume)\n                    f.write(_CURVE_ENTRY.format(name=curve_name, x=x, y=y, com=';').encode(sys_default_enc))", new='                    x = from_si(self.flow_units, point[0], HydParam.Length)\n                    y = from_si(self.flow_units, point[1], HydParam.Volume)\n                    f.write(f" {curve_name:10s} {x:12.4f} {y:12.4f} {\';\':>3s}\\n".encode(sys_default_enc))', rule='R-C12-13'),
    dict(name='times-units-word-ignored', file=IO, old='_TIME_UNIT_SECONDS = {\'SEC\': 1.0, \'MIN\': 60.0, \'HOU\': 3600.0, \'DAY\': 86400.0}\n\n\ndef _time_entry_to_sec(words, value_index):\n    """\n    Seconds of a [TIMES] entry: a decimal number followed by an optional units word\n    (SECONDS, MINUTES, HOURS, DAYS; hours when omitted), or an H:MM[:SS] string.\n    """\n    value = words[value_index]\n    if not _is_number(value):\n        return int(_str_time_to_sec(value))\n    factor = 3600.0\n    if len(words) > value_index + 1:\n        factor = _TIME_UNIT_SECONDS.get(words[value_index + 1].upper()[:3], 3600.0)\n    return int(round(float(value) * factor))\n\n\n', new='', also=[('                opts.time.duration = _time_entry_to_sec(current, 1)\n', '                opts.time.duration = int(float(current[1]) * 3600) if _is_number(current[1]) else int(_str_time_to_sec(current[1]))\n'), ('                opts.time.hydraulic_timestep = _time_entry_to_sec(current, 2)\n', '                opts.time.hydraulic_timestep = int(float(current[2]) * 3600) if _is_number(current[2]) else int(_str_time_to_sec(current[2]))\n'), ('                opts.time.quality_timestep = _time_entry_to_sec(current, 2)\n', '                opts.time.quality_timestep = int(float(current[2]) * 3600) if _is_number(current[2]) else int(_str_time_to_sec(current[2]))\n'), ('                setattr(opts.time, key_string.lower(), _time_entry_to_sec(current, 2))\n', '                setattr(opts.time, key_string.lower(), int(float(current[2]) * 3600) if _is_number(current[2]) else int(_str_time_to_sec(current[2])))\n')], rule='R-C12-14'),
    dict(name='silent-times-units-as-if-chain-on-the-word', file=IO, old='_TIME_UNIT_SECONDS = {\'SEC\': 1.0, \'MIN\': 60.0, \'HOU\': 3600.0, \'DAY\': 86400.0}\n\n\ndef _time_entry_to_sec(words, value_index):\n    """\n    Seconds of a [TIMES] entry: a decimal number followed by an optional units word\n    (SECONDS, MINUTES, HOURS, DAYS; hours when omitted), or an H:MM[:SS] string.\n    """\n    value = words[value_index]\n    if not _is_number(value):\n        return int(_str_time_to_sec(value))\n    factor = 3600.0\n    if len(words) > value_index + 1:\n        factor = _TIME_UNIT_SECONDS.get(words[value_index + 1].upper()[:3], 3600.0)\n    return int(round(float(value) * factor))\n\n\n', new='def _time_entry_to_sec(words, value_index):\n    """Seconds of a [TIMES] entry (number with optional units word, or H:MM[:SS])"""\n    value = words[value_index]\n    if not _is_number(value):\n        return int(_str_time_to_sec(value))\n    unit = words[value_index + 1].upper() if len(words) > value_index + 1 else \'HOURS\'\n    if unit.startswith(\'SEC\'):\n        seconds = float(value)\n    elif unit.startswith(\'MIN\'):\n        seconds = float(value) * 60.0\n    elif unit.startswith(\'DAY\'):\n        seconds = float(value) * 86400.0\n    else:\n        seconds = float(value) * 3600.0\n    return int(round(seconds))\n\n\n', silent=True),
    dict(name='rule-clock-time-without-colon-sent-to-float', file='wntr/network/controls.py', old="    def __init__(self, model, relation, threshold, repeat=True, first_day=0):\n        self._model = model\n        if isinstance(threshold, str) and not ':' in threshold and threshold.split()[-1].upper() not in ('AM', 'PM'):\n            self._threshold = float(threshold) * 3600.\n        else:\n            self._threshold = self._parse_value(threshold)\n", new="    def __init__(self, model, relation, threshold, repeat=True, first_day=0):\n        self._model = model\n        if isinstance(threshold, str) and not ':' in threshold:\n            self._threshold = float(threshold) * 3600.\n        else:\n            self._threshold = self._parse_value(threshold)\n", also=[("    def __init__(self, model, relation, threshold, repeat=False, first_time=0):\n        self._model = model\n        if isinstance(threshold, str) and not ':' in threshold and threshold.split()[-1].upper() not in ('AM', 'PM'):\n            self._threshold = float(threshold) * 3600.\n        else:\n            self._threshold = self._parse_value(threshold)\n", "    def __init__(self, model, relation, threshold, repeat=False, first_time=0):\n        self._model = model\n        if isinstance(threshold, str) and not ':' in threshold:\n            self._threshold = float(threshold) * 3600.\n        else:\n            self._threshold = self._parse_value(threshold)\n")], rule='R-C12-15'),
    dict(name='silent-condition-threshold-as-conditional-expression', file='wntr/network/controls.py', old="    def __init__(self, model, relation, threshold, repeat=True, first_day=0):\n        self._model = model\n        if isinstance(threshold, str) and not ':' in threshold and threshold.split()[-1].upper() not in ('AM', 'PM'):\n            self._threshold = float(threshold) * 3600.\n        else:\n            self._threshold = self._parse_value(threshold)\n", new="    def __init__(self, model, relation, threshold, repeat=True, first_day=0):\n        self._model = model\n        decimal_hours = isinstance(threshold, str) and ':' not in threshold and threshold.split()[-1].upper() not in ('AM', 'PM')\n        self._threshold = float(threshold) * 3600. if decimal_hours else self._parse_value(threshold)\n", also=[("    def __init__(self, model, relation, threshold, repeat=False, first_time=0):\n        self._model = model\n        if isinstance(threshold, str) and not ':' in threshold and threshold.split()[-1].upper() not in ('AM', 'PM'):\n            self._threshold = float(threshold) * 3600.\n        else:\n            self._threshold = self._parse_value(threshold)\n", "    def __init__(self, model, relation, threshold, repeat=False, first_time=0):\n        self._model = model\n        decimal_hours = isinstance(threshold, str) and ':' not in threshold and threshold.split()[-1].upper() not in ('AM', 'PM')\n        self._threshold = float(threshold) * 3600. if decimal_hours else self._parse_value(threshold)\n")], silent=True),
    dict(name='hydraulic-step-not-shortened-to-the-pattern-step', file='wntr/sim/core.py', old="        pattern_timestep = self._wn.options.time.pattern_timestep\n        if pattern_timestep is not None and 0 < pattern_timestep < self._hydraulic_timestep:\n            # as EPANET: no hydraulic step may skip a pattern period\n            msg = 'The pattern timestep is shorter than the hydraulic timestep. Reducing the hydraulic timestep from {0} seconds to {1} seconds for this simulation.'.format(self._hydraulic_timestep, pattern_timestep)\n            logger.warning(msg)\n            warnings.warn(msg)\n            self._hydraulic_timestep = pattern_timestep\n", new='', rule='R-C12-16'),
    dict(name='silent-hydraulic-step-as-min-of-both', file='wntr/sim/core.py', old="        pattern_timestep = self._wn.options.time.pattern_timestep\n        if pattern_timestep is not None and 0 < pattern_timestep < self._hydraulic_timestep:\n            # as EPANET: no hydraulic step may skip a pattern period\n            msg = 'The pattern timestep is shorter than the hydraulic timestep. Reducing the hydraulic timestep from {0} seconds to {1} seconds for this simulation.'.format(self._hydraulic_timestep, pattern_timestep)\n            logger.warning(msg)\n            warnings.warn(msg)\n            self._hydraulic_timestep = pattern_timestep\n", new="        pattern_step = self._wn.options.time.pattern_timestep\n        if pattern_step is not None and pattern_step > 0:\n            shortest = min(self._hydraulic_timestep, pattern_step)\n            if shortest != self._hydraulic_timestep:\n                msg = 'The pattern timestep is shorter than the hydraulic timestep. Reducing the hydraulic timestep from {0} seconds to {1} seconds for this simulation.'.format(self._hydraulic_timestep, shortest)\n                logger.warning(msg)\n                warnings.warn(msg)\n            self._hydraulic_timestep = shortest\n", silent=True),
]
