"""C03 -- WNTRSimulator and EpanetSimulator agree on models both support.

Only one clause of this property is visible in the shape of the code and necessary for it: the exchange path with EPANET (INP out,
binary results in) is unit-system independent and dimensionally right.  Numerical agreement of the two solvers is not decided.
"""
import ast
import copy
import re

from ..symx import SymExec, State, Opaque
from ..src import walk, calls, call_name, last_attr, dotted, norm, loc, const, AnchorError, ExtractError, parent, unparse
from .c17 import ref_hyd, REF_FLOW

EIO = "wntr/epanet/io.py"
ESIM = "wntr/sim/epanet.py"
UTIL = "wntr/epanet/util.py"

EXPLANATION = (
    "Static analysis of the EPANET exchange path: (R-C03-1) BinFile.read's converting part is executed abstractly once per link-type code (0-8), status "
    "code (0-7), quality type and convert_status flag, and what reaches results.node / results.link must be: every result table converted to SI exactly once with a parameter of the "
    "conversion class of its physical dimension (demand/flow: flow; head: length; pressure: pressure; velocity; head loss: per-1000 for pipes, "
    "length for pumps and valves; settings: roughness for pipes with the Darcy-Weisbach flag, pressure for PRV/PSV/PBV, flow for FCV, none for "
    "TCV/GPV/pumps; quality by quality type), always with the flow-unit system read from the header of the same file; two parameters count as the "
    "same class when the harness's own reference factors (c17.ref_hyd) agree at GPM, LPS and SI only -- Length, HydraulicHead, Elevation, "
    "TankDiameter and Velocity share one signature, so converting velocity as a length would pass (T2, symbolic execution; FlowUnits(x[9]) by AST pattern); "
    "(R-C03-2, T2+T1: the calls of EpanetSimulator.run_sim read off its symbolic execution with locals resolved, arguments compared as values; order by CFG dominance / must-pass) "
    "EpanetSimulator.run_sim writes the INP in options.hydraulic.inpfile_units, opens EPANET on that file and reads the binary file of "
    "the same run, passing the Darcy-Weisbach flag from the head-loss option; START CLOCKTIME round-trips on 72 clock times (T3, bounded); "
    "(R-C03-3, exhaustive over the codes 0-7) the status codes of the binary file are mapped "
    "{0,1,2}->0 (closed), {3,5,6,7}->1 (open), {4}->2 (active), read off the same abstract execution for each of the eight codes. "
    "The writer's per-field conversions are decided under C12 and the conversion constants under C17. Decides only this clause.")
RULE_TEXT = "one instance = one result table, one (table, link-type code) or (table, quality type) pair, one argument of the exchange calls, one status code; distinct = distinct constructs"
ASSUMPTIONS = [
    "numerical agreement of the two hydraulic engines, control timing against EPANET's timeline and the INP reader versus the toolkit are run-time facts and are NOT decided (see MANIFEST level_note)",
    "conversion classes are computed from the reference table of C17, which C17 proves equal to wntr/epanet/util.py on every run",
]


def conv_class(param, dw=False):
    """signature of a HydParam member: its reference factor for a US unit, a metric unit and SI."""
    sig = []
    for unit in ("GPM", "LPS", "SI"):
        f = REF_FLOW[unit][1] if unit in REF_FLOW else 1.0
        sig.append(ref_hyd(param, unit, f, dw))
    if any(v is None for v in sig):
        return None
    return tuple(round(v, 15) for v in sig)


# ------------------------------------------------------------------ abstract reading of BinFile.read
# The converting part of BinFile.read is EXECUTED abstractly, once per sample (link-type code of the column looked at, status code of the
# cell looked at, quality type of the file, convert_status flag).  Under a sample every mask (`linktype < 2`, `status == 4`, np.isin(..),
# named or not, built in a loop or not) is a plain bool, a result table is the element of one column: (block of the file it came from,
# conversions applied to it so far), and a masked assignment updates that element iff its mask is true.  What the rules read is the value
# that finally reaches self.results.node / self.results.link, so the way the statements are spelled (named masks, loops over valve types,
# hoisted temporaries, lookup tables, helper functions inlined by the normaliser) does not matter.
BLOCKS = ("demand", "head", "pressure", "quality", "flow", "velocity", "headloss", "linkquality", "linkstatus", "linksetting", "reactionrate", "frictionfactor")
LINK_CODES = {0: "CVPIPE", 1: "PIPE", 2: "PUMP", 3: "PRV", 4: "PSV", 5: "PBV", 6: "FCV", 7: "TCV", 8: "GPV"}       # EPANET binary output file, link type codes
STATUS_NAMES = {0: "XHead", 1: "TempClosed", 2: "Closed", 3: "Open", 4: "Active", 5: "XFlow", 6: "XFCV", 7: "XPressure"}


class Arr(object):
    """one sampled element of an array / table: either a number (num) or the raw value of block `src` after the conversions in `chain`."""

    def __init__(self, src=None, chain=(), num=None):
        self.src, self.chain, self.num = src, tuple(chain), num

    def copy(self):
        return Arr(self.src, self.chain, self.num)

    def set(self, o):
        self.src, self.chain, self.num = o.src, o.chain, o.num

    def __repr__(self):
        if self.num is not None:
            return "<%r>" % (self.num,)
        return "<%s%s>" % (self.src, "".join(" -> %s.%s.%s" % (c[0], c[1], c[2]) for c in self.chain))


class Empty(object):
    """the selection of no column (a mask that is false for the sampled column)."""

    def __repr__(self):
        return "<nothing>"


class Frame(object):
    """the DataFrame of raw blocks read from the file."""

    def __repr__(self):
        return "<raw blocks>"


def _isnum(v):
    return isinstance(v, (int, float)) and not isinstance(v, bool)


class Reader(SymExec):
    def __init__(self, sample, en, sigs):
        SymExec.__init__(self, call_hook=self._call, attr_hook=self._attr)
        self.sample = sample       # {"linkstatus": code, "quality": member name, "convert_status": bool}
        self.en = en
        self.sigs = sigs           # parameter names of HydParam._to_si / QualParam._to_si / to_si (and the _from_si twins)
        self.problems = []

    # ---- values
    def conc(self, v):
        if isinstance(v, Arr):
            if v.num is not None:
                return v.num
            if not v.chain and v.src in self.sample:
                return self.sample[v.src]
            raise ExtractError("BinFile.read: a test on the values of %r is not interpreted" % (v,))
        return v

    def _attr(self, base, attr, st):
        if isinstance(base, Opaque) and base.text == "EN" and attr in self.en:
            return self.en[attr]
        if isinstance(base, Opaque) and base.text == "self" and attr == "convert_status":
            return self.sample["convert_status"]
        if isinstance(base, Opaque) and base.text == "self" and attr == "quality_type":
            return Opaque("QualType." + self.sample["quality"])
        if isinstance(base, Arr) and attr == "values":
            return base.copy()
        if isinstance(base, Empty) and attr == "values":
            return base
        return NotImplemented

    @staticmethod
    def _member(v):
        return isinstance(v, Opaque) and re.match(r"^QualType\.\w+$", v.text) is not None

    def compare(self, op, a, b):
        a, b = self.conc(a), self.conc(b)
        opn = type(op).__name__
        plain = lambda v: v is None or isinstance(v, (bool, int, float, str))
        if plain(a) and plain(b) and opn in ("Is", "Eq", "IsNot", "NotEq"):      # also for operands that cannot be ordered (None against None / a number)
            return (a is b or a == b) == (opn in ("Is", "Eq"))
        other = b if a is None else a
        if opn in ("Is", "IsNot") and (a is None or b is None) and (isinstance(other, (Arr, Frame)) or (isinstance(other, Opaque) and re.match(r"^(HydParam|QualParam|QualType)\.\w+$", other.text))):
            return opn == "IsNot"           # a member of an enumeration, a table: not None
        if self._member(a) and self._member(b) and opn in ("Is", "Eq", "IsNot", "NotEq"):
            return (a.text == b.text) == (opn in ("Is", "Eq"))
        if self._member(a) and isinstance(b, (list, tuple)) and all(self._member(x) for x in b) and opn in ("In", "NotIn"):
            return (a.text in [x.text for x in b]) == (opn == "In")
        return SymExec.compare(self, op, a, b)

    def binop(self, op, a, b, n=None):
        if isinstance(a, bool) and isinstance(b, bool) and isinstance(op, (ast.BitAnd, ast.BitOr, ast.BitXor)):
            return (a and b) if isinstance(op, ast.BitAnd) else (a or b) if isinstance(op, ast.BitOr) else (a != b)
        return SymExec.binop(self, op, a, b, n)

    def e_UnaryOp(self, n, st):
        if isinstance(n.op, ast.Invert):
            v = self.ev(n.operand, st)
            if isinstance(v, bool):
                return not v
            raise ExtractError("BinFile.read: ~ of %r is not interpreted" % (v,))
        return SymExec.e_UnaryOp(self, n, st)

    def selection(self, key):
        """index expression -> True / False (boolean mask under the sample) or None (everything)."""
        sel = None
        for k in (key if isinstance(key, tuple) else (key,)):
            if isinstance(k, bool):
                sel = k if sel is None else (sel and k)
            elif (isinstance(k, Opaque) and k.text == ":") or k is Ellipsis:
                continue
            else:
                raise ExtractError("BinFile.read: index %r of a result array is not interpreted" % (k,))
        return sel

    def e_Subscript(self, n, st):
        base = self.ev(n.value, st)
        if isinstance(base, (Frame, Arr, Empty)) or (isinstance(base, (list, tuple)) and base and all(_isnum(x) for x in base)):
            key = self.ev(n.slice, st)
            if isinstance(base, Frame):
                if isinstance(key, str):
                    return Arr(src=key)
                raise ExtractError("BinFile.read: block %r of the raw results is not interpreted" % (key,))
            if isinstance(base, Empty):
                return base
            if isinstance(base, Arr):
                sel = self.selection(key)
                return base if sel is None else (base.copy() if sel else Empty())
            if isinstance(key, Arr):          # lookup table indexed by the values of an array
                k = self.conc(key)
                if isinstance(k, int) and 0 <= k < len(base):
                    return Arr(num=base[k])
                raise ExtractError("BinFile.read: lookup table has no entry %r" % (k,))
        return SymExec.e_Subscript(self, n, st)

    def assign(self, t, v, st, stmt=None):
        if isinstance(t, ast.Subscript):
            base = self.ev(t.value, st)
            if isinstance(base, Frame):
                raise ExtractError("BinFile.read: the raw blocks are modified in place")
            if isinstance(base, Arr):
                sel = self.selection(self.ev(t.slice, st))
                ln = getattr(stmt, "lineno", 0)
                if sel is False:
                    if isinstance(v, Arr):
                        self.problems.append((ln, "a selection of other columns is stored into %s" % unparse(t)))
                    return
                if isinstance(v, Empty):
                    self.problems.append((ln, "%s is filled from a selection of other columns" % unparse(t)))
                elif isinstance(v, Arr):
                    base.set(v)
                elif _isnum(v):
                    base.set(Arr(num=v))
                else:
                    raise ExtractError("BinFile.read: value stored into %s is not interpreted: %r" % (unparse(t), v))
                return
            if isinstance(base, (dict, list)):
                return SymExec.assign(self, t, v, st, stmt)
        if isinstance(t, (ast.Attribute, ast.Subscript)):
            v = copy.deepcopy(v)          # what is published is the value at this moment
        return SymExec.assign(self, t, v, st, stmt)

    # ---- calls
    def convert(self, param, direction, names, args, kwargs, n):
        """one conversion call, its arguments bound by the parameter names of the callee (positional or keyword)"""
        m = re.match(r"^(HydParam|QualParam)\.(\w+)$", param.text) if isinstance(param, Opaque) else None
        if m is None:
            raise ExtractError("BinFile.read: conversion parameter %r is not resolved (line %s)" % (param, n.lineno))
        fam, member = m.groups()
        if names is None:
            names = self.sigs[(fam, direction)]
        if len(args) > len(names):
            raise ExtractError("BinFile.read: too many arguments in %s" % unparse(n))
        bound = dict(zip(names, args))
        bound.update(kwargs)
        data = bound.get("data")
        fu = bound.get(names[0])
        conv = (fam, member, direction, self.text(fu) if fu is not None else None,
                self.text(bound["darcy_weisbach"]) if "darcy_weisbach" in bound else None, self.text(bound["mass_units"]) if "mass_units" in bound else None, n.lineno)
        if isinstance(data, Empty):
            return data
        if isinstance(data, Arr) and data.num is None:
            return Arr(data.src, data.chain + (conv,))
        raise ExtractError("BinFile.read: converted value %r is not a block of the file (line %s)" % (data, n.lineno))

    def _call(self, name, n, args, kwargs, st, ex, recv):
        last = (name or "").split(".")[-1]
        meth = n.func.attr if isinstance(n.func, ast.Attribute) else None
        if meth in ("_to_si", "_from_si"):
            return self.convert(recv if recv is not None else self.ev(n.func.value, st), meth, None, args, kwargs, n)
        if last in ("to_si", "from_si") and dotted(n.func) is not None:
            names = self.sigs[("", last)]
            bound = dict(zip(names, args))
            bound.update(kwargs)
            if len(args) > len(names) or "param" not in bound:
                raise ExtractError("BinFile.read: arguments of %s are not interpreted" % unparse(n))
            p = bound.pop("param")
            return self.convert(p, "_" + last, names, [], bound, n)
        first = args[0] if args else kwargs.get("data")
        if name in ("np.array", "np.asarray", "np.asanyarray", "np.copy", "np.ascontiguousarray", "numpy.array", "numpy.asarray", "pd.DataFrame", "pandas.DataFrame"):
            if isinstance(first, Arr):
                return first.copy()
            if isinstance(first, Empty) or (isinstance(first, (list, tuple)) and all(_isnum(x) for x in first)) or _isnum(first):
                return first
        if recv is not None and isinstance(recv, (Arr, Empty)) and meth in ("copy", "to_numpy", "astype", "view"):
            return recv.copy() if isinstance(recv, Arr) else recv
        if recv is not None and _isnum(recv) and meth in ("copy", "astype", "view"):
            return recv
        if name in ("np.where", "np.nonzero", "np.flatnonzero", "numpy.where") and len(args) == 1 and isinstance(args[0], bool):
            return args[0] if last == "flatnonzero" else (args[0],)
        if name in ("np.where", "numpy.where") and len(args) == 3 and isinstance(args[0], bool):
            return args[1] if args[0] else args[2]
        if name in ("np.logical_and", "np.logical_or", "np.logical_xor") and len(args) == 2 and all(isinstance(a, bool) for a in args):
            return self.binop({"and": ast.BitAnd(), "or": ast.BitOr(), "xor": ast.BitXor()}[last.split("_")[1]], args[0], args[1])
        if name == "np.logical_not" and len(args) == 1 and isinstance(args[0], bool):
            return not args[0]
        if name in ("np.isin", "np.in1d") and len(args) == 2 and isinstance(args[1], (list, tuple)) and all(_isnum(x) for x in args[1]):
            v = self.conc(args[0])
            if _isnum(v):
                return v in list(args[1])
        if name == "QualType" and len(args) == 1:       # the quality type recorded in the file
            return Opaque("QualType." + self.sample["quality"])
        return NotImplemented


def _bindings(fn, skip):
    """name -> list of the statements of fn (outside the statements in `skip`) that bind it; a binding that is not a plain `name = value` is recorded as None"""
    skipped = set()
    for s in skip:
        skipped.update(id(x) for x in ast.walk(s))
    out = {}
    for n in walk(fn):
        if id(n) in skipped:
            continue
        if isinstance(n, ast.Assign) and len(n.targets) == 1 and isinstance(n.targets[0], ast.Name):
            out.setdefault(n.targets[0].id, []).append(n)
        elif isinstance(n, ast.Name) and isinstance(n.ctx, (ast.Store, ast.Del)) and not (isinstance(parent(n), ast.Assign) and parent(n).targets == [n]):
            out.setdefault(n.id, []).append(None)
        elif isinstance(n, ast.ExceptHandler) and n.name:
            out.setdefault(n.name, []).append(None)
    return out


def _loaded(node):
    return {x.id for x in ast.walk(node) if isinstance(x, ast.Name) and isinstance(x.ctx, ast.Load)}


def read_plan(repo, rd):
    """-> (region, prelude, link-type name, raw-frame name): the statements of BinFile.read that run from the first test of `convert` to the end
    of its block, and the single-assignment temporaries defined before it that those statements (transitively) use."""
    params = [a.arg for a in rd.args.args]
    if "convert" not in params:
        raise ExtractError("BinFile.read has no `convert` parameter")
    tests = [n for n in walk(rd) if isinstance(n, ast.If) and "convert" in _loaded(n.test)]
    outer = [n for n in tests if not any(n is not m and any(n is x for x in ast.walk(m)) for m in tests)]
    if not outer:
        raise ExtractError("BinFile.read: no test of `convert` found")
    first = min(outer, key=lambda n: n.lineno)
    blk = None
    p = parent(first)
    for fld in ("body", "orelse", "finalbody"):
        if isinstance(getattr(p, fld, None), list) and any(first is x for x in getattr(p, fld)):
            blk = getattr(p, fld)
    if blk is None:
        raise ExtractError("BinFile.read: block of the `convert` test not found")
    region = blk[[i for i, x in enumerate(blk) if x is first][0]:]
    binds = _bindings(rd, region)
    # roots: the array of link types (what is compared with EN's link-type codes) and the frame of raw blocks (what is indexed by block name)
    lt = set()
    for n in walk(rd):
        if isinstance(n, ast.Compare) and len(n.ops) == 1:
            for x, y in ((n.left, n.comparators[0]), (n.comparators[0], n.left)):
                if isinstance(x, ast.Name) and dotted(y) in ["EN." + v for v in LINK_CODES.values()]:
                    lt.add(x.id)
    if not lt and "linktype" in binds:
        lt = {"linktype"}
    if len(lt) != 1:
        raise ExtractError("BinFile.read: the array of link types is not identified (%s)" % sorted(lt))
    fr = set()
    for s in region:
        for n in ast.walk(s):
            if isinstance(n, ast.Subscript) and isinstance(n.value, ast.Name) and const(n.slice) in BLOCKS and isinstance(n.ctx, ast.Load):
                fr.add(n.value.id)
    fr -= lt
    if len(fr) != 1:
        raise ExtractError("BinFile.read: the frame of raw result blocks is not identified (%s)" % sorted(fr))
    roots = lt | fr | set(params)
    need, todo, prelude = set(), set(), []
    for s in region:
        todo |= _loaded(s)
    while todo:
        nm = todo.pop()
        if nm in need or nm in roots:
            continue
        need.add(nm)
        d = binds.get(nm, [])
        if len(d) == 1 and d[0] is not None and d[0].lineno < first.lineno:
            prelude.append(d[0])
            todo |= _loaded(d[0].value)
    prelude.sort(key=lambda s: s.lineno)
    return region, prelude, lt.pop(), fr.pop(), binds


def read_published(rd, plan, sample, code, en, sigs, chains):
    """abstract run of the converting part of BinFile.read under one sample -> ([(tables, problems)] per path, texts); tables: ('node'|'link', key) ->
    (value, line); texts: attr -> the texts under which the value of self.<attr> is known to the statements of the run"""
    region, prelude, ltname, frname, _ = plan
    ex = Reader(sample, en, sigs)
    env = {a.arg: Opaque(a.arg) for a in rd.args.args}
    env["convert"] = True
    env[ltname] = code
    env[frname] = Frame()
    st = State(env)
    for s in prelude:
        try:
            keep = copy.deepcopy(st.env)
            ex.stmt(s, st)
        except ExtractError:
            st.env = keep       # a temporary this reading cannot evaluate stays an unknown: whatever needs it fails to be interpreted below
            st.env.pop(s.targets[0].id, None)
    texts = {}
    for attr, exprs in chains.items():
        texts[attr] = {"self." + attr}
        for x in exprs:
            try:
                texts[attr].add(ex.text(ex.ev(x, st.fork())))
            except ExtractError:
                pass
    st.events = []
    outs = []
    for o in ex.block(region, [st]):
        if o.raised is not None:
            continue
        tables = {}
        for e in o.events:
            if e[0] != "store":
                continue
            m = re.match(r"^self\.results\.(node|link)(?:\[(.+)\])?$", e[1])
            if not m:
                continue
            if m.group(2) is None:
                if not isinstance(e[2], dict):
                    raise ExtractError("BinFile.read: results.%s replaced by %r" % (m.group(1), e[2]))
                for k in [k for k in tables if k[0] == m.group(1)]:
                    del tables[k]
                for k, v in e[2].items():
                    tables[(m.group(1), k)] = (v, e[3])
            else:
                try:
                    k = ast.literal_eval(m.group(2))
                except (ValueError, SyntaxError):
                    raise ExtractError("BinFile.read: results key %s is not a constant" % m.group(2))
                tables[(m.group(1), k)] = (e[2], e[3])
        outs.append((tables, list(ex.problems)))
    if not outs:
        raise ExtractError("BinFile.read: no path through the converting branch")
    return outs, texts


def _chain_of(rd, attr, binds):
    """the expressions whose value is the one stored in self.<attr> by BinFile.read: the stored expression, and while that is a local with a single
    definition, its definition.  -> (expressions, store statements)"""
    st = [a for a in walk(rd) if isinstance(a, ast.Assign) and any(unparse(t) == "self." + attr for t in a.targets)]
    exprs = []
    if len(st) == 1:
        v = st[0].value
        for _ in range(6):
            exprs.append(v)
            d = binds.get(v.id, []) if isinstance(v, ast.Name) else []
            if len(d) == 1 and d[0] is not None:
                v = d[0].value
            else:
                break
    return exprs, st


def run(repo, chk):
    rd = repo.func(EIO, "BinFile.read")
    chk.fn(rd)
    plan = read_plan(repo, rd)
    binds = plan[4]
    en = {}
    for n in repo.cls(UTIL, "EN").body:
        if isinstance(n, ast.Assign) and isinstance(n.targets[0], ast.Name) and isinstance(const(n.value), int):
            en[n.targets[0].id] = const(n.value)
    quals = [n.targets[0].id for n in repo.cls(UTIL, "QualType").body if isinstance(n, ast.Assign) and isinstance(n.targets[0], ast.Name) and isinstance(const(n.value), int)]
    if "Chem" not in quals or "Age" not in quals:
        raise ExtractError("QualType members Chem / Age not found in %s" % UTIL)
    sigs = {}
    for fam in ("HydParam", "QualParam"):
        for d in ("_to_si", "_from_si"):
            sigs[(fam, d)] = [a.arg for a in repo.func(UTIL, "%s.%s" % (fam, d)).args.args[1:]]
    for d in ("to_si", "from_si"):
        sigs[("", d)] = [a.arg for a in repo.func(UTIL, d).args.args]
    fu_chain, fu_st = _chain_of(rd, "flow_units", binds)
    mu_chain, mu_st = _chain_of(rd, "mass_units", binds)

    facts = {}      # (rule, construct) -> [ok, line, detail, expected, found]; one instance per construct, the first failing sample is reported

    def fact(rule, construct, ok, line, detail=None, expected=None, found=None):
        f = facts.setdefault((rule, construct), [True, line, detail, expected, None])
        if not ok and f[0]:
            f[0], f[1], f[4] = False, line, found

    def one(v, src, fam, ref, texts, dw=False, mass=False):
        """v is block `src` of the file converted exactly once, to SI, with the file's flow units and a parameter of the class of `ref`"""
        if not (isinstance(v, Arr) and v.num is None and v.src == src and len(v.chain) == 1):
            return False
        c = v.chain[0]
        ok = c[0] == fam and c[2] == "_to_si" and c[3] in texts["flow_units"]
        if fam == "HydParam":
            ok = ok and conv_class(ref, dw) is not None and conv_class(c[1], dw) == conv_class(ref, dw)
        else:
            ok = ok and c[1] == ref
        if dw:
            ok = ok and c[4] == "darcy_weisbach"
        if mass:
            ok = ok and c[5] in texts["mass_units"]
        return ok

    def raw(v, src):
        return isinstance(v, Arr) and v.num is None and v.src == src and not v.chain

    want_tables = {
        ("node", "demand"): ("Flow", "demand"),
        ("node", "head"): ("Length", "head"),
        ("node", "pressure"): ("Pressure", "pressure"),
        ("link", "flowrate"): ("Flow", "flow"),
        ("link", "velocity"): ("Velocity", "velocity"),
    }
    # per link type: class of the head-loss conversion, (class of the setting conversion, Darcy-Weisbach flag needed)
    want_links = {"CVPIPE": ("HeadLoss", None), "PIPE": ("HeadLoss", ("RoughnessCoeff", True)), "PUMP": ("Length", None), "PRV": ("Length", ("Pressure", False)),
                  "PSV": ("Length", ("Pressure", False)), "PBV": ("Length", ("Pressure", False)), "FCV": ("Length", ("Flow", False)), "TCV": ("Length", None), "GPV": ("Length", None)}
    want_quality = {"Chem": "Concentration", "Age": "WaterAge"}
    want_status = {0: 0, 1: 0, 2: 0, 3: 1, 4: 2, 5: 1, 6: 1, 7: 1}
    here = lambda ln: "%s:%s" % (EIO, ln or rd.lineno)
    for q in quals:
        for cs in (True, False):
            for code in sorted(LINK_CODES):
                for s in sorted(STATUS_NAMES):
                    sample = {"quality": q, "convert_status": cs, "linkstatus": s}
                    outs, texts = read_published(rd, plan, sample, code, en, sigs, {"flow_units": fu_chain, "mass_units": mu_chain})
                    for tables, problems in outs:
                        get = lambda k: tables.get(k, (None, None))
                        for key, (ref, col) in want_tables.items():
                            v, ln = get(key)
                            fact("R-C03-1", "results.%s['%s'] = to_si(file's flow units, df['%s']) with a parameter of the %s class" % (key[0], key[1], col, ref), one(v, col, "HydParam", ref, texts), ln,
                                 "EPANET writes its results in the unit system of the INP file; the table must be converted with the conversion of its physical dimension",
                                 expected="%s class %s" % (ref, conv_class(ref)), found="%r (quality type %s, link type %d)" % (v, q, code))
                        lname = LINK_CODES[code]
                        hl, st_ = want_links[lname]
                        v, ln = get(("link", "headloss"))
                        fact("R-C03-1", "head loss of %s links (link type %d) is converted once, with a parameter of the %s class" % (lname, code, hl), one(v, "headloss", "HydParam", hl, texts), ln,
                             "EPANET reports head loss per 1000 length units for pipes and as a head difference for pumps and valves", expected="%s class" % hl, found=repr(v))
                        v, ln = get(("link", "setting"))
                        if st_ is None:
                            fact("R-C03-1", "setting of %s links (link type %d) is not converted" % (lname, code), raw(v, "linksetting"), ln,
                                 "TCV loss coefficients, GPV curve ids, pump speeds and the roughness of CV pipes are reported as they are", expected="unconverted", found=repr(v))
                        else:
                            fact("R-C03-1", "setting of %s links (link type %d) is converted once, with a parameter of the %s class%s" % (lname, code, st_[0], " (Darcy-Weisbach flag forwarded)" if st_[1] else ""),
                                 one(v, "linksetting", "HydParam", st_[0], texts, dw=st_[1]), ln, expected="%s class" % st_[0], found=repr(v))
                        for tab, col in (("node", "quality"), ("link", "linkquality")):
                            v, ln = get((tab, "quality"))
                            if q in want_quality:
                                fact("R-C03-1", "results.%s['quality'] of a file with quality type %s is converted as QualParam.%s%s" % (tab, q, want_quality[q], " with the file's mass units" if q == "Chem" else ""),
                                     one(v, col, "QualParam", want_quality[q], texts, mass=(q == "Chem")), ln, found=repr(v))
                            else:
                                fact("R-C03-1", "results.%s['quality'] of a file with quality type %s is not converted" % (tab, q), raw(v, col), ln, found=repr(v))
                        fact("R-C03-1", "every masked conversion reads the columns it writes", not problems, problems[0][0] if problems else None,
                             "a conversion computed on the columns of one link type and stored into those of another mixes up links", found=problems[0][1] if problems else None)
                        if cs:
                            v, ln = get(("link", "status"))
                            got = v.num if isinstance(v, Arr) and v.num is not None else (s if raw(v, "linkstatus") else None)
                            fact("R-C03-3", "EPANET status code %d (%s) is reported as %d" % (s, STATUS_NAMES[s], want_status[s]), got == want_status[s], ln,
                                 "status timelines of the two simulators are compared as 0 closed / 1 open / 2 active", expected=want_status[s], found=got if got is not None else repr(v))
    for (rule, construct), (ok, ln, detail, expected, found) in facts.items():
        if rule == "R-C03-1":
            chk.expect(ok, rule, construct, here(ln), detail, expected=expected, found=found)
    # EN link-type codes used by the masks: pipes are 0/1, everything >= 2 is a pump or valve
    chk.expect({k: en.get(k) for k in LINK_CODES.values()} == {v: k for k, v in LINK_CODES.items()}, "R-C03-1",
               "EN link-type codes match the binary file's (pipes 0-1, pump 2, valves 3-8), so `linktype < 2` selects exactly the pipes", UTIL, found={k: en.get(k) for k in LINK_CODES.values()})
    # the unit system is the one recorded in the file itself: self.flow_units is FlowUnits(word 9 of the first record read from the file)
    fdef = fu_chain[-1] if fu_chain else None
    reads = [c for c in calls(rd) if last_attr(c) == "fromfile"]
    ok = len(fu_st) == 1 and isinstance(fdef, ast.Call) and call_name(fdef) == "FlowUnits" and len(fdef.args) == 1 and isinstance(fdef.args[0], ast.Subscript) \
        and const(fdef.args[0].slice) == 9 and isinstance(fdef.args[0].value, ast.Name)
    if ok:
        d = binds.get(fdef.args[0].value.id, [])
        ok = len(d) == 1 and d[0] is not None and bool(reads) and d[0].value is reads[0]
    chk.expect(ok, "R-C03-1", "the flow-unit system used for every conversion is the one recorded in the binary file's prolog (word 9)", loc(rd), found=[norm(x) for x in fu_st] + [norm(x) for x in fu_chain])
    chk.floor("R-C03-1", 5 + 9 + 9 + 8 + 1 + 2)

    # ---------------------------------------------------------------- R-C03-3 status mapping
    with chk.part("R-C03-3 status mapping"):
        for (rule, construct), (ok, ln, detail, expected, found) in facts.items():
            if rule == "R-C03-3":
                chk.expect(ok, rule, construct, here(ln), detail, expected=expected, found=found)
        init = repo.func(EIO, "BinFile.__init__")
        d = {a.arg: const(dv) for a, dv in zip(init.args.args[-len(init.args.defaults):], init.args.defaults)}
        chk.expect(d.get("convert_status") is True, "R-C03-3", "status conversion is on by default", loc(init), found=d.get("convert_status"))
        chk.floor("R-C03-3", 9)
    # ---------------------------------------------------------------- R-C03-2 same file, same units
    with chk.part("R-C03-2 same file, same units"):
        rs = repo.func(ESIM, "EpanetSimulator.run_sim")
        chk.fn(rs)
        # the calls are read off the symbolic execution of run_sim (arguments with locals resolved to what they were computed from); order is decided on the CFG
        from ..symx import SymExec as _SX, Opaque as _Op
        from ..cfg import CFG as _CFG
        exs = _SX()
        paths = [o for o in exs.run(rs, {"self": _Op("self")}) if o.raised is None]

        def ev_calls(o, suffix):
            return [e for e in o.events if e[0] == "call" and (e[2][0] == suffix or e[2][0].endswith("." + suffix))]
        n_paths = 0
        sig = [a.arg for a in rd.args.args]
        for o in paths:
            wi, op, rr = ev_calls(o, "write_inpfile"), ev_calls(o, "ENopen"), [e for e in ev_calls(o, "read") if "reader" in e[2][0]]
            if not rr:
                continue
            n_paths += 1
            if not (wi and op):
                chk.bad("R-C03-2", "every path that reads results wrote the INP file and opened EPANET on it", loc(rs), found=o.label()[-160:])
                continue
            wargs, wkw = wi[0][2][1], wi[0][2][2]
            oargs, rargs, rkw = op[0][2][1], rr[-1][2][1], rr[-1][2][2]
            txt = lambda v: exs.text(v)
            chk.expect(len(wargs) >= 2 and txt(wargs[0]) == "self._wn" and txt(wkw.get("units")) == "self._wn.options.hydraulic.inpfile_units", "R-C03-2",
                       "the INP file is written from the simulator's model in options.hydraulic.inpfile_units", loc(rs), found=wi[0][1][:160])
            chk.expect(len(oargs) >= 3 and len(wargs) >= 2 and exs.same(oargs[0], wargs[1]), "R-C03-2", "EPANET is opened on the file that was just written", loc(rs), found=op[0][1][:160])
            chk.expect(bool(rargs) and len(oargs) >= 3 and exs.same(rargs[0], oargs[2]), "R-C03-2", "the binary file read back is the output file of this run", loc(rs), found=rr[-1][1][:160])
            bound = dict(zip(sig[1:], rargs))
            bound.update(rkw)
            dw = txt(bound["darcy_weisbach"]) if "darcy_weisbach" in bound else None
            chk.expect(dw is not None and "options.hydraulic.headloss" in dw and "D-W" in dw, "R-C03-2", "the Darcy-Weisbach flag passed to the reader comes from options.hydraulic.headloss", loc(rs), found=dw)
            break
        if not n_paths:
            raise ExtractError("EpanetSimulator.run_sim: no path calls reader.read")
        chk.expect("darcy_weisbach" in sig and "convergence_error" in sig and sig[1] == "filename", "R-C03-2", "BinFile.read takes (filename, convergence_error, darcy_weisbach, ...)", loc(rd), found=sig)
        g = _CFG(rs)
        wn_, on_, rn_ = g.calling("write_inpfile"), g.calling("ENopen"), [n_ for n_ in g.calling("read") if "reader" in unparse(g.node_ast(n_))]
        sn_, cn_ = g.calling("ENsolveH") + g.calling("ENusehydfile"), g.calling("ENclose")
        if not (wn_ and on_ and rn_ and sn_ and cn_):
            raise ExtractError("EpanetSimulator.run_sim: write_inpfile / ENopen / ENsolveH / ENclose / reader.read not found")
        idom = g.dominators()
        order_ok = g.dominates(wn_[0], on_[0], idom) and g.dominates(on_[0], rn_[0], idom) and g.dominates(cn_[0], rn_[0], idom) \
            and g.must_pass(on_[0], set(cn_), set(sn_))[0]
        chk.expect(order_ok, "R-C03-2", "order: write INP, open, solve, close, read results", loc(rs),
                   "CFG: the write dominates the open, the open and the close dominate the read, every path from the open to the close passes a hydraulic solve (or loads a hydraulics file)")
        # the clock the two engines share: START CLOCKTIME written into the INP must read back (by EPANET's 12-hour convention, which
        # _clock_time_to_sec implements) as options.time.start_clocktime, or clock-time controls fire 12 h apart in the two simulators
        from ._shared import clocktime_round_trip
        rows, wtf, rdf = clocktime_round_trip(repo)
        chk.fn(wtf, rdf)
        badrows = [(t, txt, back) for t, txt, back in rows if back != t]
        for half, hours in (("AM", range(0, 12)), ("PM", range(12, 24))):
            hb = [b for b in badrows if b[0] // 3600 in hours]
            chk.expect(not hb, "R-C03-2", "start_clocktime in the %s half of the day reaches EPANET unchanged through the INP file" % half, loc(wtf),
                       "WNTRSimulator uses options.time.start_clocktime directly, EpanetSimulator what the INP says", found=("%r reads back as %s s (written for %d s)" % (hb[0][1], hb[0][2], hb[0][0])) if hb else None)
        chk.floor("R-C03-2", 8)

    # ---------------------------------------------------------------- R-C03-4 a rule's setting / speed action and the status that goes with it act on the same branch
    with chk.part("R-C03-4 a rule's setting / speed action and the status that goes with it act on the same b"):
        # (EPANET applies setting and status together, on the branch that carries the action; WNTRSimulator adds a companion status control for it)
        from .c05 import companion_rules
        companion_rules(repo, chk, rule="R-C03-4", branch_rule="R-C03-4")
        chk.floor("R-C03-4", 9)


WITNESSES = [
    dict(name="revert-fd4d5c22-else-setting-companion-on-the-then-branch", file="wntr/sim/core.py",
         old="                    if any(action is a for a in control._else_actions):\n                        # an ELSE action of a rule acts when the condition is false: so must the status change that goes with it\n"
             "                        new_control = type(control)(condition, [], [new_action], priority=control.priority)\n                    else:\n"
             "                        new_control = type(control)(condition, new_action, priority=control.priority)\n                    valve_controls.append(new_control)\n",
         new="                    new_control = type(control)(condition, new_action, priority=control.priority)\n                    valve_controls.append(new_control)\n", rule="R-C03-4"),
    dict(name="else-companion-built-from-the-branch-lists-preserving", file="wntr/sim/core.py",
         old="                    if any(action is a for a in control._else_actions):\n                        # an ELSE action of a rule acts when the condition is false: so must the status change that goes with it\n"
             "                        new_control = type(control)(condition, [], [new_action], priority=control.priority)\n                    else:\n"
             "                        new_control = type(control)(condition, new_action, priority=control.priority)\n                    valve_controls.append(new_control)\n",
         new="                    on_else = action in list(control._else_actions)\n                    if not on_else:\n"
             "                        new_control = type(control)(condition, new_action, priority=control.priority)\n                    else:\n"
             "                        new_control = type(control)(condition, [], else_actions=[new_action], priority=control.priority)\n                    valve_controls.append(new_control)\n", silent=True),
    dict(name="noon-hour-written-as-am", file=EIO, old="        if hrs < 12:\n            time_format = ' AM'\n        else:\n            hrs -= 12\n            time_format = ' PM'",
         new="        time_format = ' AM'\n        if hrs > 12:\n            hrs -= 12\n            time_format = ' PM'", rule="R-C03-2"),
    dict(name="head-converted-as-pressure", file=EIO, old="self.results.node['head'] = HydParam.HydraulicHead._to_si(self.flow_units, df['head'])",
         new="self.results.node['head'] = HydParam.Pressure._to_si(self.flow_units, df['head'])", rule="R-C03-1"),
    dict(name="demand-not-converted", file=EIO, old="self.results.node['demand'] = HydParam.Demand._to_si(self.flow_units, df['demand'])", new="self.results.node['demand'] = df['demand']", rule="R-C03-1"),
    dict(name="pump-headloss-per-1000", file=EIO, old="to_si(self.flow_units, headloss[:, linktype >= 2], HydParam.Length)", new="to_si(self.flow_units, headloss[:, linktype >= 2], HydParam.HeadLoss)", rule="R-C03-1"),
    dict(name="tcv-setting-converted", file=EIO, old="                setting[:, linktype == EN.FCV] = to_si(self.flow_units, setting[:, linktype == EN.FCV], HydParam.Flow)\n",
         new="                setting[:, linktype == EN.FCV] = to_si(self.flow_units, setting[:, linktype == EN.FCV], HydParam.Flow)\n                setting[:, linktype == EN.TCV] = to_si(self.flow_units, setting[:, linktype == EN.TCV], HydParam.Pressure)\n", rule="R-C03-1"),
    dict(name="status-active-reported-open", file=EIO, old="                    status[status == 4] = 2\n", new="                    status[status >= 4] = 1\n", rule="R-C03-3"),
    dict(name="status-order-breaks-table", file=EIO, old="                    status[status <= 2] = 0\n                    status[status == 3] = 1\n                    status[status >= 5] = 1\n                    status[status == 4] = 2\n",
         new="                    status[status == 4] = 2\n                    status[status <= 2] = 0\n                    status[status == 3] = 1\n                    status[status >= 5] = 1\n", rule="R-C03-3"),
    # BinFile.read is executed abstractly per link type / status code / quality type, so the spelling of the masked conversions must not matter ...
    dict(name="named-masks-and-valve-loop", file=EIO,
         old="                headloss[:, linktype < 2] = to_si(self.flow_units, headloss[:, linktype < 2], HydParam.HeadLoss) # Pipe or CV\n"
             "                headloss[:, linktype >= 2] = to_si(self.flow_units, headloss[:, linktype >= 2], HydParam.Length) # Pump or Valve\n",
         new="                is_pipe = linktype < 2\n                others = ~is_pipe\n"
             "                headloss[:, is_pipe] = to_si(self.flow_units, headloss[:, is_pipe], HydParam.HeadLoss)\n"
             "                headloss[:, others] = to_si(self.flow_units, headloss[:, others], HydParam.Length)\n",
         also=[("                setting[:, linktype == EN.PRV] = to_si(self.flow_units, setting[:, linktype == EN.PRV], HydParam.Pressure)\n"
                "                setting[:, linktype == EN.PSV] = to_si(self.flow_units, setting[:, linktype == EN.PSV], HydParam.Pressure)\n"
                "                setting[:, linktype == EN.PBV] = to_si(self.flow_units, setting[:, linktype == EN.PBV], HydParam.Pressure)\n",
                "                for vt in (EN.PRV, EN.PSV, EN.PBV):\n                    sel = linktype == vt\n"
                "                    setting[:, sel] = to_si(self.flow_units, setting[:, sel], HydParam.Pressure)\n")], silent=True),
    dict(name="pressure-valves-one-mask-and-table-driven", file=EIO,
         old="                setting[:, linktype == EN.PRV] = to_si(self.flow_units, setting[:, linktype == EN.PRV], HydParam.Pressure)\n"
             "                setting[:, linktype == EN.PSV] = to_si(self.flow_units, setting[:, linktype == EN.PSV], HydParam.Pressure)\n"
             "                setting[:, linktype == EN.PBV] = to_si(self.flow_units, setting[:, linktype == EN.PBV], HydParam.Pressure)\n"
             "                setting[:, linktype == EN.FCV] = to_si(self.flow_units, setting[:, linktype == EN.FCV], HydParam.Flow)\n",
         new="                pvalve = np.isin(linktype, (EN.PRV, EN.PSV, EN.PBV))\n"
             "                for cols, prm in ((pvalve, HydParam.Pressure), (linktype == EN.FCV, HydParam.Flow)):\n"
             "                    setting[:, cols] = prm._to_si(self.flow_units, setting[:, cols])\n", silent=True),
    dict(name="conversion-spelled-the-other-way", file=EIO,
         old="self.results.link['flowrate'] = HydParam.Flow._to_si(self.flow_units, df['flow'])",
         new="flows = df['flow']\n                self.results.link['flowrate'] = to_si(flowunits, flows, param=HydParam.Flow)",
         also=[("HydParam.RoughnessCoeff, \n                                                darcy_weisbach=darcy_weisbach)", "HydParam.RoughnessCoeff, MassUnits.mg, None, darcy_weisbach)")], silent=True),
    dict(name="status-lookup-table", file=EIO,
         old="                    status[status <= 2] = 0\n                    status[status == 3] = 1\n                    status[status >= 5] = 1\n                    status[status == 4] = 2\n",
         new="                    status = np.array([0, 0, 0, 1, 2, 1, 1, 1])[status.astype(int)]\n", silent=True),
    dict(name="status-masks-computed-first", file=EIO,
         old="                    status[status <= 2] = 0\n                    status[status == 3] = 1\n                    status[status >= 5] = 1\n                    status[status == 4] = 2\n",
         new="                    closed, active = status <= 2, status == 4\n                    status[~closed] = 1\n                    status[closed] = 0\n                    status[active] = 2\n", silent=True),
    dict(name="quality-parameter-from-a-table", file=EIO,
         old="                if self.quality_type is QualType.Chem:\n"
             "                    self.results.node['quality'] = QualParam.Concentration._to_si(self.flow_units, df['quality'], mass_units=self.mass_units)\n"
             "                    self.results.link['quality'] = QualParam.Concentration._to_si(self.flow_units, df['linkquality'], mass_units=self.mass_units)\n"
             "                elif self.quality_type is QualType.Age:\n"
             "                    self.results.node['quality'] = QualParam.WaterAge._to_si(self.flow_units, df['quality'], mass_units=self.mass_units)\n"
             "                    self.results.link['quality'] = QualParam.WaterAge._to_si(self.flow_units, df['linkquality'], mass_units=self.mass_units)\n"
             "                else:\n",
         new="                qparam = {QualType.Chem: QualParam.Concentration, QualType.Age: QualParam.WaterAge}.get(wqopt)\n"
             "                if qparam is not None:\n"
             "                    for tab, blk in ((self.results.node, 'quality'), (self.results.link, 'linkquality')):\n"
             "                        tab['quality'] = to_si(self.flow_units, df[blk], qparam, self.mass_units)\n"
             "                else:\n", silent=True),
    # ... while what the old statement-shaped rule caught, and what it could not see, is caught
    dict(name="valve-loop-converts-tcv", file=EIO,
         old="                setting[:, linktype == EN.PRV] = to_si(self.flow_units, setting[:, linktype == EN.PRV], HydParam.Pressure)\n"
             "                setting[:, linktype == EN.PSV] = to_si(self.flow_units, setting[:, linktype == EN.PSV], HydParam.Pressure)\n"
             "                setting[:, linktype == EN.PBV] = to_si(self.flow_units, setting[:, linktype == EN.PBV], HydParam.Pressure)\n",
         new="                for vt in (EN.PRV, EN.PSV, EN.TCV):\n                    sel = linktype == vt\n"
             "                    setting[:, sel] = to_si(self.flow_units, setting[:, sel], HydParam.Pressure)\n", rule="R-C03-1"),
    dict(name="named-mask-misses-plain-pipes", file=EIO,
         old="                headloss[:, linktype < 2] = to_si(self.flow_units, headloss[:, linktype < 2], HydParam.HeadLoss) # Pipe or CV\n",
         new="                is_pipe = linktype < EN.PIPE\n                headloss[:, is_pipe] = to_si(self.flow_units, headloss[:, is_pipe], HydParam.HeadLoss)\n", rule="R-C03-1"),
    dict(name="conversion-read-from-another-link-type", file=EIO, old="setting[:, linktype == EN.PSV] = to_si(self.flow_units, setting[:, linktype == EN.PSV], HydParam.Pressure)",
         new="setting[:, linktype == EN.PSV] = to_si(self.flow_units, setting[:, linktype == EN.PRV], HydParam.Pressure)", rule="R-C03-1"),
    dict(name="pipe-headloss-converted-twice", file=EIO, old="headloss[:, linktype >= 2] = to_si(self.flow_units, headloss[:, linktype >= 2], HydParam.Length)",
         new="headloss[:, linktype >= 1] = to_si(self.flow_units, headloss[:, linktype >= 1], HydParam.Length)", rule="R-C03-1"),
    dict(name="converted-with-default-units", file=EIO, old="self.results.link['velocity'] = HydParam.Velocity._to_si(self.flow_units, df['velocity'])",
         new="self.results.link['velocity'] = HydParam.Velocity._to_si(FlowUnits.SI, df['velocity'])", rule="R-C03-1"),
    dict(name="roughness-flag-dropped", file=EIO, old="HydParam.RoughnessCoeff, \n                                                darcy_weisbach=darcy_weisbach)", new="HydParam.RoughnessCoeff)", rule="R-C03-1"),
    dict(name="age-converted-as-concentration", file=EIO, old="self.results.link['quality'] = QualParam.WaterAge._to_si(self.flow_units, df['linkquality'], mass_units=self.mass_units)",
         new="self.results.link['quality'] = QualParam.Concentration._to_si(self.flow_units, df['linkquality'], mass_units=self.mass_units)", rule="R-C03-1"),
    dict(name="status-table-maps-xflow-to-active", file=EIO,
         old="                    status[status <= 2] = 0\n                    status[status == 3] = 1\n                    status[status >= 5] = 1\n                    status[status == 4] = 2\n",
         new="                    status = np.array([0, 0, 0, 1, 2, 2, 1, 1])[status.astype(int)]\n", rule="R-C03-3"),
    dict(name="inp-written-in-default-units", file=ESIM, old="units=self._wn.options.hydraulic.inpfile_units, version=version)", new="version=version)", rule="R-C03-2"),
    dict(name="length-for-head-preserving", file=EIO, old="self.results.node['head'] = HydParam.HydraulicHead._to_si(self.flow_units, df['head'])",
         new="self.results.node['head'] = HydParam.Length._to_si(self.flow_units, df['head'])", silent=True),
    # START CLOCKTIME reader (_clock_time_to_sec): the round trip is decided by evaluating the reader on the written text, so the way the
    # regular expression is spelled must not matter, and a wrong 12-hour conversion on the READER side must be caught as well
    dict(name="clock-reader-re-search-and-unpacking", file=EIO,
         old="    pattern1 = re.compile(r'^(\\d+):(\\d+):(\\d+)$')\n    time_tuple = pattern1.search(s)\n    if bool(time_tuple):\n        time_sec = (int(time_tuple.groups()[0])*60*60 +\n"
             "                    int(time_tuple.groups()[1])*60 +\n                    int(round(float(time_tuple.groups()[2]))))\n",
         new="    match_hms = re.search(r'^(\\d+):(\\d+):(\\d+)$', s)\n    if match_hms:\n        hours, minutes, seconds = match_hms.groups()\n"
             "        time_sec = int(hours)*60*60 + int(minutes)*60 + int(round(float(seconds)))\n", silent=True),
    dict(name="clock-reader-match-group-index", file=EIO,
         old="    time_tuple = pattern1.search(s)\n    if bool(time_tuple):\n        time_sec = (int(time_tuple.groups()[0])*60*60 +\n"
             "                    int(time_tuple.groups()[1])*60 +\n                    int(round(float(time_tuple.groups()[2]))))\n",
         new="    time_tuple = pattern1.match(s)\n    if time_tuple is not None:\n        time_sec = (int(time_tuple.group(1))*60*60 +\n"
             "                    int(time_tuple[2])*60 +\n                    int(round(float(time_tuple.group(3)))))\n", silent=True),
    dict(name="clock-reader-tail-written-once", file=EIO,
         old="        if s.startswith('12'):\n            time_sec -= 3600*12\n        if not am:\n            if time_sec >= 3600*12:\n"
             "                raise ENValueError(213, s, 'Cannot specify am/pm for times greater than 12:00:00')\n            time_sec += 3600*12\n        return time_sec\n    else:\n",
         new="        return _am_pm_shift(s, time_sec, am)\n    else:\n",
         also=[("def _sec_to_string(sec):\n", "def _am_pm_shift(s, time_sec, am):\n    if s.startswith('12'):\n        time_sec -= 3600*12\n    if not am:\n        if time_sec >= 3600*12:\n"
                "            raise ENValueError(213, s, 'Cannot specify am/pm for times greater than 12:00:00')\n        time_sec += 3600*12\n    return time_sec\n\n\ndef _sec_to_string(sec):\n")],
         silent=True),
    dict(name="clock-reader-pm-not-shifted", file=EIO, old="            time_sec += 3600*12\n        return time_sec\n    else:\n        pattern2",
         new="        return time_sec\n    else:\n        pattern2", rule="R-C03-2"),
]
