"""C03 -- WNTRSimulator and EpanetSimulator agree on models both support.

Only one clause of this property is visible in the shape of the code and necessary for it: the exchange path with EPANET (INP out,
binary results in) is unit-system independent and dimensionally right.  Numerical agreement of the two solvers is not decided.
"""
import ast

from ..src import walk, calls, call_name, last_attr, dotted, norm, loc, const, AnchorError, ExtractError, parent, unparse
from .c17 import ref_hyd, REF_FLOW

EIO = "wntr/epanet/io.py"
ESIM = "wntr/sim/epanet.py"
UTIL = "wntr/epanet/util.py"

EXPLANATION = (
    "Static analysis of the EPANET exchange path: (R-C03-1) every result table BinFile.read produces is converted to SI with a parameter of the "
    "conversion class of its physical dimension (demand/flow: flow; head: length; pressure: pressure; velocity; head loss: per-1000 for pipes, "
    "length for pumps and valves; settings: roughness for pipes with the Darcy-Weisbach flag, pressure for PRV/PSV/PBV, flow for FCV, none for "
    "TCV/GPV/pumps; quality by quality type), always with the flow-unit system read from the header of the same file; two parameters are the "
    "same class when their reference factors agree for every unit system (so HydParam.Length and HydParam.HydraulicHead are interchangeable); "
    "(R-C03-2) EpanetSimulator.run_sim writes the INP in options.hydraulic.inpfile_units, opens EPANET on that file and reads the binary file of "
    "the same run, passing the Darcy-Weisbach flag from the head-loss option; (R-C03-3) the status codes of the binary file are mapped "
    "{0,1,2}->0 (closed), {3,5,6,7}->1 (open), {4}->2 (active), by abstract execution of the masked assignments over all eight codes. "
    "The writer's per-field conversions are decided under C12 and the conversion constants under C17. Decides only this clause.")
RULE_TEXT = "one instance = one result table / link-type slice, one argument of the exchange calls, one status code; distinct = distinct constructs"
ASSUMPTIONS = [
    "numerical agreement of the two hydraulic engines, control timing against EPANET's timeline and the INP reader versus the toolkit are run-time facts and are NOT decided (see MANIFEST level_note)",
    "conversion classes are computed from the reference table of C17, which C17 proves equal to wntr/epanet/util.py on every run",
]


def conv_class(param, dw=False):
    """signature of a HydParam member: its reference factor for a US unit, a metric unit and SI."""
    sig = []
    for unit in ("GPM", "LPS", "SI"):
        f = REF_FLOW[unit][1] if unit in REF_FLOW else 1.0
        sig.append(ref_hyd(param, unit, f, dw))
    if any(v is None for v in sig):
        return None
    return tuple(round(v, 15) for v in sig)


def parse_conv(v):
    """-> (family, member, first_arg_text, data_expr, kwargs) for HydParam.X._to_si(fu, data, ..) / to_si(fu, data, HydParam.X, ..) else None"""
    if not isinstance(v, ast.Call):
        return None
    f = v.func
    if isinstance(f, ast.Attribute) and f.attr in ("_to_si", "_from_si") and isinstance(f.value, ast.Attribute):
        fam = unparse(f.value.value)
        kw = {k.arg: unparse(k.value) for k in v.keywords}
        return (fam, f.value.attr, unparse(v.args[0]) if v.args else None, v.args[1] if len(v.args) > 1 else None, kw, f.attr)
    if isinstance(f, ast.Name) and f.id in ("to_si", "from_si") and len(v.args) >= 3 and isinstance(v.args[2], ast.Attribute):
        kw = {k.arg: unparse(k.value) for k in v.keywords}
        return (unparse(v.args[2].value), v.args[2].attr, unparse(v.args[0]), v.args[1], kw, "_" + f.id)
    return None


def run(repo, chk):
    rd = repo.func(EIO, "BinFile.read")
    chk.fn(rd)
    conv_if = [n for n in walk(rd) if isinstance(n, ast.If) and unparse(n.test) == "convert"]
    if len(conv_if) != 1:
        raise ExtractError("BinFile.read: `if convert:` not found")
    body = conv_if[0].body
    mod = ast.Module(body=body, type_ignores=[])

    # ---------------------------------------------------------------- R-C03-1
    want_tables = {
        ("node", "demand"): ("HydParam", "Flow", "demand"),
        ("node", "head"): ("HydParam", "Length", "head"),
        ("node", "pressure"): ("HydParam", "Pressure", "pressure"),
        ("link", "flowrate"): ("HydParam", "Flow", "flow"),
        ("link", "velocity"): ("HydParam", "Velocity", "velocity"),
    }
    seen = set()
    for a in walk(mod):
        if not isinstance(a, ast.Assign) or not isinstance(a.targets[0], ast.Subscript):
            continue
        tg = a.targets[0]
        base = unparse(tg.value)
        if base in ("self.results.node", "self.results.link") and isinstance(const(tg.slice), str):
            key = (base.rsplit(".", 1)[1], const(tg.slice))
            pc = parse_conv(a.value)
            if key in want_tables:
                fam, ref, col = want_tables[key]
                seen.add(key)
                ok = pc is not None and pc[0] == fam and conv_class(pc[1]) == conv_class(ref) and pc[2] == "self.flow_units" and pc[5] == "_to_si" \
                    and pc[3] is not None and unparse(pc[3]) == "df['%s']" % col
                chk.expect(ok, "R-C03-1", "results.%s['%s'] = to_si(file's flow units, df['%s']) with a parameter of the %s class" % (key[0], key[1], col, ref), loc(rd, a),
                           "EPANET writes its results in the unit system of the INP file; the table must be converted with the conversion of its physical dimension",
                           expected="%s class %s" % (ref, conv_class(ref)), found=norm(a.value))
            elif key[1] == "quality" and pc is not None:
                g = parent(a)
                t = unparse(g.test) if isinstance(g, ast.If) else ""
                wantq = "Concentration" if "QualType.Chem" in t else ("WaterAge" if "QualType.Age" in t else None)
                seen.add(key + (wantq,))
                chk.expect(wantq is not None and pc[0] == "QualParam" and pc[1] == wantq and pc[2] == "self.flow_units" and pc[4].get("mass_units") == "self.mass_units", "R-C03-1",
                           "results.%s['quality'] under %s is converted as QualParam.%s with the file's mass units" % (key[0], t or "?", wantq), loc(rd, a), found=norm(a.value))
    for key in want_tables:
        if key not in seen:
            chk.bad("R-C03-1", "results.%s['%s'] is produced by BinFile.read" % key, loc(rd), "table missing from the converting branch")
    # masked slices: headloss and setting
    masks = {}
    for a in walk(mod):
        if isinstance(a, ast.Assign) and isinstance(a.targets[0], ast.Subscript) and isinstance(a.targets[0].value, ast.Name) and a.targets[0].value.id in ("headloss", "setting"):
            sl = a.targets[0].slice
            m = unparse(sl.elts[1]) if isinstance(sl, ast.Tuple) and len(sl.elts) == 2 else unparse(sl)
            masks[(a.targets[0].value.id, m)] = a
    want_masks = {
        ("headloss", "linktype < 2"): ("HeadLoss", False), ("headloss", "linktype >= 2"): ("Length", False),
        ("setting", "linktype == EN.PIPE"): ("RoughnessCoeff", True), ("setting", "linktype == EN.PRV"): ("Pressure", False),
        ("setting", "linktype == EN.PSV"): ("Pressure", False), ("setting", "linktype == EN.PBV"): ("Pressure", False),
        ("setting", "linktype == EN.FCV"): ("Flow", False),
    }
    for key, (ref, dwflag) in sorted(want_masks.items()):
        a = masks.get(key)
        if a is None:
            chk.bad("R-C03-1", "%s[%s] is converted" % key, loc(rd), "slice missing from BinFile.read", expected=ref)
            continue
        pc = parse_conv(a.value)
        ok = pc is not None and pc[0] == "HydParam" and conv_class(pc[1], dwflag) == conv_class(ref, dwflag) and pc[2] == "self.flow_units" and pc[5] == "_to_si" \
            and pc[3] is not None and unparse(pc[3]) == unparse(a.targets[0])
        if dwflag:
            ok = ok and pc[4].get("darcy_weisbach") == "darcy_weisbach"
        chk.expect(ok, "R-C03-1", "%s[%s] is converted in place with a parameter of the %s class%s" % (key[0], key[1], ref, " (Darcy-Weisbach flag forwarded)" if dwflag else ""), loc(rd, a),
                   expected="%s class" % ref, found=norm(a.value))
    for key in masks:
        if key not in want_masks:
            chk.bad("R-C03-1", "%s[%s] must not be converted (dimensionless setting or unknown slice)" % key, loc(rd, masks[key]),
                    "TCV loss coefficients, GPV curve ids and pump speeds are dimensionless", found=norm(masks[key].value))
    # EN link-type codes used by the masks: pipes are 0/1, everything >= 2 is a pump or valve
    en = {}
    for n in repo.cls(UTIL, "EN").body:
        if isinstance(n, ast.Assign) and isinstance(n.targets[0], ast.Name) and n.targets[0].id in ("CVPIPE", "PIPE", "PUMP", "PRV", "PSV", "PBV", "FCV", "TCV", "GPV"):
            en[n.targets[0].id] = const(n.value)
    chk.expect(en == {"CVPIPE": 0, "PIPE": 1, "PUMP": 2, "PRV": 3, "PSV": 4, "PBV": 5, "FCV": 6, "TCV": 7, "GPV": 8}, "R-C03-1",
               "EN link-type codes match the binary file's (pipes 0-1, pump 2, valves 3-8), so `linktype < 2` selects exactly the pipes", UTIL, found=en)
    # the unit system is the one recorded in the file itself
    fu = [a for a in walk(rd) if isinstance(a, ast.Assign) and unparse(a.targets[0]) == "self.flow_units"]
    src = [a for a in walk(rd) if isinstance(a, ast.Assign) and unparse(a.targets[0]) == "flowunits"]
    chk.expect(len(fu) == 1 and unparse(fu[0].value) == "flowunits" and len(src) == 1 and unparse(src[0].value) == "FlowUnits(prolog[9])", "R-C03-1",
               "the flow-unit system used for every conversion is the one recorded in the binary file's prolog (word 9)", loc(rd), found=[norm(x) for x in fu + src])
    chk.floor("R-C03-1", 5 + 7 + 2)

    # ---------------------------------------------------------------- R-C03-3 status mapping
    st = [n for n in walk(mod) if isinstance(n, ast.If) and unparse(n.test) == "self.convert_status"]
    if not st:
        raise ExtractError("BinFile.read: status conversion not found")
    table = {c: c for c in range(8)}
    for a in st[0].body:
        if not (isinstance(a, ast.Assign) and isinstance(a.targets[0], ast.Subscript) and unparse(a.targets[0].value) == "status"):
            raise ExtractError("status conversion: statement not interpreted: %s" % norm(a))
        cmp_ = a.targets[0].slice
        if not (isinstance(cmp_, ast.Compare) and unparse(cmp_.left) == "status" and len(cmp_.ops) == 1 and isinstance(const(cmp_.comparators[0]), int) and isinstance(const(a.value), int)):
            raise ExtractError("status conversion: mask not interpreted: %s" % norm(a))
        k, v = const(cmp_.comparators[0]), const(a.value)
        op = cmp_.ops[0]
        for c in table:
            cur = table[c]
            hit = (isinstance(op, ast.LtE) and cur <= k) or (isinstance(op, ast.Lt) and cur < k) or (isinstance(op, ast.Eq) and cur == k) or \
                (isinstance(op, ast.GtE) and cur >= k) or (isinstance(op, ast.Gt) and cur > k)
            if hit:
                table[c] = v
    want = {0: 0, 1: 0, 2: 0, 3: 1, 4: 2, 5: 1, 6: 1, 7: 1}
    names = {0: "XHead", 1: "TempClosed", 2: "Closed", 3: "Open", 4: "Active", 5: "XFlow", 6: "XFCV", 7: "XPressure"}
    for c in range(8):
        chk.expect(table[c] == want[c], "R-C03-3", "EPANET status code %d (%s) is reported as %d" % (c, names[c], want[c]), loc(rd, st[0]),
                   "status timelines of the two simulators are compared as 0 closed / 1 open / 2 active", expected=want[c], found=table[c])
    init = repo.func(EIO, "BinFile.__init__")
    d = {a.arg: const(dv) for a, dv in zip(init.args.args[-len(init.args.defaults):], init.args.defaults)}
    chk.expect(d.get("convert_status") is True, "R-C03-3", "status conversion is on by default", loc(init), found=d.get("convert_status"))
    chk.floor("R-C03-3", 9)

    # ---------------------------------------------------------------- R-C03-2 same file, same units
    rs = repo.func(ESIM, "EpanetSimulator.run_sim")
    chk.fn(rs)
    wi = [c for c in calls(rs) if last_attr(c) == "write_inpfile"]
    op = [c for c in calls(rs) if last_attr(c) == "ENopen"]
    rr = [c for c in calls(rs) if last_attr(c) == "read" and "reader" in unparse(c.func.value)]
    if not (wi and op and rr):
        raise ExtractError("EpanetSimulator.run_sim: write_inpfile / ENopen / reader.read not found")
    kw = {k.arg: unparse(k.value) for k in wi[0].keywords}
    chk.expect(unparse(wi[0].args[0]) == "self._wn" and kw.get("units") == "self._wn.options.hydraulic.inpfile_units", "R-C03-2",
               "the INP file is written from the simulator's model in options.hydraulic.inpfile_units", loc(rs, wi[0]), found=norm(wi[0]))
    chk.expect(unparse(op[0].args[0]) == unparse(wi[0].args[1]), "R-C03-2", "EPANET is opened on the file that was just written", loc(rs, op[0]), found=norm(op[0]))
    chk.expect(unparse(rr[0].args[0]) == unparse(op[0].args[2]), "R-C03-2", "the binary file read back is the output file of this run", loc(rs, rr[0]), found=norm(rr[0]))
    dw = unparse(rr[0].args[2]) if len(rr[0].args) > 2 else {k.arg: unparse(k.value) for k in rr[0].keywords}.get("darcy_weisbach")
    chk.expect(dw is not None and "options.hydraulic.headloss" in dw and "D-W" in dw, "R-C03-2", "the Darcy-Weisbach flag passed to the reader comes from options.hydraulic.headloss", loc(rs, rr[0]), found=dw)
    sig = [a.arg for a in rd.args.args]
    chk.expect(sig[:5] == ["self", "filename", "convergence_error", "darcy_weisbach", "convert"], "R-C03-2", "BinFile.read's positional parameters are (filename, convergence_error, darcy_weisbach, convert)",
               loc(rd), found=sig)
    order_ok = wi[0].lineno < op[0].lineno < rr[0].lineno
    solve = [c for c in calls(rs) if last_attr(c) in ("ENsolveH", "ENusehydfile")]
    close = [c for c in calls(rs) if last_attr(c) == "ENclose"]
    chk.expect(order_ok and bool(solve) and bool(close) and close[0].lineno < rr[0].lineno, "R-C03-2", "order: write INP, open, solve, close, read results", loc(rs))
    # the clock the two engines share: START CLOCKTIME written into the INP must read back (by EPANET's 12-hour convention, which
    # _clock_time_to_sec implements) as options.time.start_clocktime, or clock-time controls fire 12 h apart in the two simulators
    from ._shared import clocktime_round_trip
    rows, wtf, rdf = clocktime_round_trip(repo)
    chk.fn(wtf, rdf)
    badrows = [(t, txt, back) for t, txt, back in rows if back != t]
    for half, hours in (("AM", range(0, 12)), ("PM", range(12, 24))):
        hb = [b for b in badrows if b[0] // 3600 in hours]
        chk.expect(not hb, "R-C03-2", "start_clocktime in the %s half of the day reaches EPANET unchanged through the INP file" % half, loc(wtf),
                   "WNTRSimulator uses options.time.start_clocktime directly, EpanetSimulator what the INP says", found=("%r reads back as %s s (written for %d s)" % (hb[0][1], hb[0][2], hb[0][0])) if hb else None)
    chk.floor("R-C03-2", 8)


WITNESSES = [
    dict(name="noon-hour-written-as-am", file=EIO, old="        if hrs < 12:\n            time_format = ' AM'\n        else:\n            hrs -= 12\n            time_format = ' PM'",
         new="        time_format = ' AM'\n        if hrs > 12:\n            hrs -= 12\n            time_format = ' PM'", rule="R-C03-2"),
    dict(name="head-converted-as-pressure", file=EIO, old="self.results.node['head'] = HydParam.HydraulicHead._to_si(self.flow_units, df['head'])",
         new="self.results.node['head'] = HydParam.Pressure._to_si(self.flow_units, df['head'])", rule="R-C03-1"),
    dict(name="demand-not-converted", file=EIO, old="self.results.node['demand'] = HydParam.Demand._to_si(self.flow_units, df['demand'])", new="self.results.node['demand'] = df['demand']", rule="R-C03-1"),
    dict(name="pump-headloss-per-1000", file=EIO, old="to_si(self.flow_units, headloss[:, linktype >= 2], HydParam.Length)", new="to_si(self.flow_units, headloss[:, linktype >= 2], HydParam.HeadLoss)", rule="R-C03-1"),
    dict(name="tcv-setting-converted", file=EIO, old="                setting[:, linktype == EN.FCV] = to_si(self.flow_units, setting[:, linktype == EN.FCV], HydParam.Flow)\n",
         new="                setting[:, linktype == EN.FCV] = to_si(self.flow_units, setting[:, linktype == EN.FCV], HydParam.Flow)\n                setting[:, linktype == EN.TCV] = to_si(self.flow_units, setting[:, linktype == EN.TCV], HydParam.Pressure)\n", rule="R-C03-1"),
    dict(name="status-active-reported-open", file=EIO, old="                    status[status == 4] = 2\n", new="                    status[status >= 4] = 1\n", rule="R-C03-3"),
    dict(name="status-order-breaks-table", file=EIO, old="                    status[status <= 2] = 0\n                    status[status == 3] = 1\n                    status[status >= 5] = 1\n                    status[status == 4] = 2\n",
         new="                    status[status == 4] = 2\n                    status[status <= 2] = 0\n                    status[status == 3] = 1\n                    status[status >= 5] = 1\n", rule="R-C03-3"),
    dict(name="inp-written-in-default-units", file=ESIM, old="units=self._wn.options.hydraulic.inpfile_units, version=version)", new="version=version)", rule="R-C03-2"),
    dict(name="length-for-head-preserving", file=EIO, old="self.results.node['head'] = HydParam.HydraulicHead._to_si(self.flow_units, df['head'])",
         new="self.results.node['head'] = HydParam.Length._to_si(self.flow_units, df['head'])", silent=True),
    # START CLOCKTIME reader (_clock_time_to_sec): the round trip is decided by evaluating the reader on the written text, so the way the
    # regular expression is spelled must not matter, and a wrong 12-hour conversion on the READER side must be caught as well
    dict(name="clock-reader-re-search-and-unpacking", file=EIO,
         old="    pattern1 = re.compile(r'^(\\d+):(\\d+):(\\d+)$')\n    time_tuple = pattern1.search(s)\n    if bool(time_tuple):\n        time_sec = (int(time_tuple.groups()[0])*60*60 +\n"
             "                    int(time_tuple.groups()[1])*60 +\n                    int(round(float(time_tuple.groups()[2]))))\n",
         new="    match_hms = re.search(r'^(\\d+):(\\d+):(\\d+)$', s)\n    if match_hms:\n        hours, minutes, seconds = match_hms.groups()\n"
             "        time_sec = int(hours)*60*60 + int(minutes)*60 + int(round(float(seconds)))\n", silent=True),
    dict(name="clock-reader-match-group-index", file=EIO,
         old="    time_tuple = pattern1.search(s)\n    if bool(time_tuple):\n        time_sec = (int(time_tuple.groups()[0])*60*60 +\n"
             "                    int(time_tuple.groups()[1])*60 +\n                    int(round(float(time_tuple.groups()[2]))))\n",
         new="    time_tuple = pattern1.match(s)\n    if time_tuple is not None:\n        time_sec = (int(time_tuple.group(1))*60*60 +\n"
             "                    int(time_tuple[2])*60 +\n                    int(round(float(time_tuple.group(3)))))\n", silent=True),
    dict(name="clock-reader-tail-written-once", file=EIO,
         old="        if s.startswith('12'):\n            time_sec -= 3600*12\n        if not am:\n            if time_sec >= 3600*12:\n"
             "                raise ENValueError(213, s, 'Cannot specify am/pm for times greater than 12:00:00')\n            time_sec += 3600*12\n        return time_sec\n    else:\n",
         new="        return _am_pm_shift(s, time_sec, am)\n    else:\n",
         also=[("def _sec_to_string(sec):\n", "def _am_pm_shift(s, time_sec, am):\n    if s.startswith('12'):\n        time_sec -= 3600*12\n    if not am:\n        if time_sec >= 3600*12:\n"
                "            raise ENValueError(213, s, 'Cannot specify am/pm for times greater than 12:00:00')\n        time_sec += 3600*12\n    return time_sec\n\n\ndef _sec_to_string(sec):\n")],
         silent=True),
    dict(name="clock-reader-pm-not-shifted", file=EIO, old="            time_sec += 3600*12\n        return time_sec\n    else:\n        pattern2",
         new="        return time_sec\n    else:\n        pattern2", rule="R-C03-2"),
]
