"""C05 -- reported states are consistent with every conditional simple control (re-solve discipline, action plumbing, partial steps)."""
import ast
import re

from ..src import walk, calls, call_name, dotted, const, loc, unparse, norm, AnchorError, ExtractError, last_attr, parent
from ..cfg import CFG
from ..peval import Evaluator, Obj, Unknown

CORE = "wntr/sim/core.py"
CTRL = "wntr/network/controls.py"
HYD = "wntr/sim/hydraulics.py"
IO = "wntr/epanet/io.py"

EXPLANATION = (
    "Path rules on run_sim's CFG: results are saved, the accepted state stored and time advanced only on the path where no post-solve control "
    "changed anything since the last solve; the other path updates the model and re-enters the solve with an incremented, bounded trial counter; "
    "post-solve controls run after the solution was written into the network and before the change test. Plumbing facts: ControlAction maps "
    "status/setting/leak_status to the run-time fields the status properties and the constraint builders read, executes setattr + notify, and "
    "reports the public attribute to the change tracker, which compares the public property; ValueCondition evaluates the stored relation between "
    "the current attribute value and the threshold; simple conditional controls built by the INP reader are ValueConditions on pressure / level "
    "with ABOVE = greater, BELOW = less; tank-level controls are pre- and post-solve with a positive partial step (shared with C06). "
    "Decides the loop discipline and plumbing, not the invariant over actual trajectories.")
RULE_TEXT = "one instance = one path obligation or one plumbing fact (mapping entry, truth-table row)"
ASSUMPTIONS = ["equal-priority conflicts between triggered controls are outside the statement's guarantee", "effective status = f(user, internal) is decided under C02 (R-C02-7)"]


def run(repo, chk):
    rs = repo.func(CORE, "WNTRSimulator.run_sim")
    chk.fn(rs)
    g = CFG(rs)
    heads = [h for n, h in g.loop_heads.items() if isinstance(n, ast.While)]
    if len(heads) != 1:
        raise AnchorError("run_sim: expected one while loop")
    head = heads[0]
    post = g.calling("_run_postsolve_controls")
    store = g.calling("store_results_in_network")
    saves = g.calling("save_results")
    solves = g.calling("_solver_helper")
    upd = [u for u in g.calling("update_network_previous_values") if u in g.reachable(head)]
    adv = g.nodes_where(lambda node, d: isinstance(node, ast.AugAssign) and unparse(node.target) == "self._wn.sim_time" and isinstance(node.op, ast.Add))
    gt = g.nodes_where(lambda node, d: d["kind"] == "test" and "changes_made" in unparse(node) and "'graph'" in unparse(node))
    if not (post and store and saves and solves and upd and adv and len(gt) == 1):
        raise AnchorError("run_sim anchors missing")
    T = gt[0]

    # ---------------------------------------------------------------- R-C05-1 re-solve discipline
    for tgt_name, tgts in (("save_results", saves), ("update_network_previous_values", upd), ("the time advance", adv)):
        w = g.can_reach_avoiding(post[0], tgts, [T], drop_back=True)
        chk.expect(w is None, "R-C05-1", "%s is reached only after the post-solve change test" % tgt_name, loc(rs), found=g.path_text(w) if w else None)
        st = g.succ_on(T, True)
        w = g.can_reach_avoiding(st[0], tgts, [], drop_back=True) if st else None
        chk.expect(bool(st) and w is None, "R-C05-1", "when a post-solve control changed something, %s is not reached in this iteration" % tgt_name, loc(rs, g.node_ast(T)),
                   "no step may be accepted while a post-solve control still wants to change a link", found=g.path_text(w) if w else None)
    st = g.succ_on(T, True)
    umc = g.calling("update_model_for_controls")
    tinc = g.nodes_where(lambda node, d: isinstance(node, ast.AugAssign) and unparse(node.target) == "trial")
    res_true = g.nodes_where(lambda node, d: isinstance(node, ast.Assign) and unparse(node.targets[0]) == "resolve" and const(node.value) is True)
    for nm, via in (("update_model_for_controls", umc), ("trial += 1", tinc), ("resolve = True", res_true)):
        w = g.can_reach_avoiding(st[0], [head], via, drop_back=False) if st else None
        chk.expect(w is None and bool(via), "R-C05-1", "the re-solve path passes `%s` before solving again" % nm, loc(rs, g.node_ast(T)), found=g.path_text(w) if w else None)
    chk.expect(re.search(r"ref_point\s*=\s*'graph'", unparse(g.node_ast(T))) is not None and "self._change_tracker" in unparse(g.node_ast(T)), "R-C05-1",
               "the change test asks the change tracker for changes since the last solve (reference point 'graph')", loc(rs, g.node_ast(T)))
    w = g.can_reach_avoiding(solves[0], post, store, drop_back=True)
    chk.expect(w is None, "R-C05-1", "post-solve controls are evaluated on the solution stored in the network", loc(rs), found=g.path_text(w) if w else None)
    w = g.can_reach_avoiding(store[0], [T], post, drop_back=True)
    chk.expect(w is None, "R-C05-1", "the change test follows the post-solve controls", loc(rs), found=g.path_text(w) if w else None)
    # the 'graph' reference point is reset when the graph is updated (so that T means: changed since the last solve)
    uig = repo.func(CORE, "WNTRSimulator._update_internal_graph")
    chk.expect(any(last_attr(c) == "reset_reference_point" and "'graph'" in unparse(c) for c in calls(uig)), "R-C05-1", "_update_internal_graph consumes and resets the 'graph' reference point", loc(uig))
    w = g.can_reach_avoiding(st[0], [head], g.calling("_update_internal_graph"), drop_back=False) if st else None
    chk.expect(w is None, "R-C05-1", "the re-solve path resets the reference point (via _update_internal_graph) before solving again", loc(rs), found=g.path_text(w) if w else None)
    ps = repo.func(CORE, "WNTRSimulator._run_postsolve_controls")
    chk.fn(ps)
    src = unparse(ps)
    chk.expect("self._postsolve_controls.check()" in src and "run_control_action()" in src, "R-C05-1", "_run_postsolve_controls runs every post-solve control whose condition holds", loc(ps))
    chk.floor("R-C05-1", 14)

    # ---------------------------------------------------------------- R-C05-2 action plumbing
    cai = repo.func(CTRL, "ControlAction.__init__")
    chk.fn(cai)
    mapping = {}
    for attr in ("status", "setting", "leak_status", "base_speed", "elevation"):
        ev = Evaluator({"self": Obj("self", {}), "target_obj": Obj("t", {}), "attribute": attr, "value": 1}, None,
                       lambda name, n, ev_: (True if name == "hasattr" else (None if name.startswith("super") or name.endswith("__init__") else NotImplemented)))
        try:
            ev.run([s for s in cai.body if not (isinstance(s, ast.Expr) and isinstance(s.value, ast.Call) and "super" in unparse(s.value))])
            mapping[attr] = ev.env["self"].attrs.get("_private_attribute")
        except Unknown as e:
            raise ExtractError("ControlAction.__init__ not evaluable: %s" % e)
    want = {"status": "_user_status", "setting": "_setting", "leak_status": "_leak_status"}
    for k, v in want.items():
        chk.expect(mapping.get(k) == v, "R-C05-2", "ControlAction(%s) writes the run-time field %s" % (k, v), loc(cai),
                   "a control must act on the field that the status property / constraint builders read, never on the definition (initial_*) fields", expected=v, found=mapping.get(k))
    chk.sample({"rule": "R-C05-2", "ControlAction private attribute map": mapping})
    rca = repo.func(CTRL, "ControlAction.run_control_action")
    s_ = [unparse(x) for x in rca.body if not isinstance(x, ast.Expr) or not isinstance(x.value, ast.Constant)]
    chk.expect(s_ == ["setattr(self._target_obj, self._private_attribute, self._value)", "self.notify()"], "R-C05-2", "ControlAction.run_control_action = setattr(target, private attribute, value) then notify()", loc(rca), found=s_)
    tg = repo.func(CTRL, "ControlAction.target")
    r = [x for x in walk(tg) if isinstance(x, ast.Return)]
    chk.expect(bool(r) and unparse(r[0].value).replace(" ", "") in ("(self._target_obj,self._attribute)", "self._target_obj,self._attribute"), "R-C05-2", "ControlAction.target() reports the PUBLIC attribute", loc(tg), found=unparse(r[0].value) if r else None)
    ica = repo.func(CTRL, "_InternalControlAction.run_control_action")
    chk.expect("setattr(self._target_obj, self._internal_attr, self._value)" in unparse(ica) and "self.notify()" in unparse(ica), "R-C05-2", "_InternalControlAction writes the internal attribute and notifies", loc(ica))
    itg = repo.func(CTRL, "_InternalControlAction.target")
    r = [x for x in walk(itg) if isinstance(x, ast.Return)]
    chk.expect(bool(r) and "self._property_attr" in unparse(r[0].value), "R-C05-2", "_InternalControlAction.target() reports the public property to compare", loc(itg))
    upf = repo.func(CTRL, "ControlChangeTracker.update")
    su = unparse(upf)
    chk.expect("obj_attr = subject.target()" in su and "getattr(*obj_attr)" in su and ".add(obj_attr)" in su and ".discard(obj_attr)" in su, "R-C05-2",
               "the change tracker compares the current PUBLIC value with the value at the reference point (a change back is not a change)", loc(upf))
    notify = repo.func(CTRL, "Subject.notify")
    chk.expect("o.update(self)" in unparse(notify) or ".update(self)" in unparse(notify), "R-C05-2", "notify() informs every subscribed observer", loc(notify))
    # run_control_action of a control executes the then-actions when the condition holds
    icar = repo.func(CTRL, "Rule.is_control_action_required")
    chk.expect("self._condition.evaluate()" in unparse(icar), "R-C05-2", "a control is due exactly when its condition evaluates true", loc(icar))
    rrca = repo.func(CTRL, "Rule.run_control_action")
    chk.expect("self._then_actions" in unparse(rrca) and "run_control_action()" in unparse(rrca), "R-C05-2", "running a control runs its then-actions", loc(rrca))
    chk.floor("R-C05-2", 11)

    # ---------------------------------------------------------------- R-C05-3 conditions
    ve = repo.func(CTRL, "ValueCondition.evaluate")
    chk.fn(ve)
    sv = unparse(ve)
    okv = "getattr(self._source_obj, self._source_attr)" in sv and "self._threshold" in sv and "self._relation" in sv and re.search(r"relation\(np\.round\(cur_value, 10\), np\.round\(thresh_value, 10\)\)", sv) is not None
    chk.expect(okv, "R-C05-3", "ValueCondition.evaluate applies the stored relation to (current attribute value, threshold)", loc(ve))
    # Comparison members carry the matching numpy function
    cmp_cls = repo.cls(CTRL, "Comparison")
    tbl = {}
    for n in cmp_cls.body:
        if isinstance(n, ast.Assign) and isinstance(n.value, ast.Tuple) and len(n.value.elts) == 2:
            tbl[n.targets[0].id] = unparse(n.value.elts[1])
    wantc = {"gt": "np.greater", "ge": "np.greater_equal", "lt": "np.less", "le": "np.less_equal", "eq": "np.equal", "ne": "np.not_equal"}
    chk.expect(tbl == wantc, "R-C05-3", "Comparison members carry the matching comparison function", loc(CTRL, cmp_cls), expected=wantc, found=tbl)
    pf = repo.func(CTRL, "Comparison.parse")
    pairs = {}
    for n in walk(pf):
        if isinstance(n, ast.If) and isinstance(n.test, ast.Compare) and isinstance(n.test.ops[0], ast.In):
            r = [x for x in n.body if isinstance(x, ast.Return)]
            if r:
                lst = n.test.comparators[0]
                first = unparse(lst.elts[0]) if isinstance(lst, (ast.List, ast.Tuple, ast.Set)) and lst.elts else ""
                pairs[first] = unparse(r[0].value)
    wantp = {"np.equal": "cls.eq", "np.not_equal": "cls.ne", "np.greater": "cls.gt", "np.less": "cls.lt", "np.greater_equal": "cls.ge", "np.less_equal": "cls.le"}
    chk.expect(all(pairs.get(k) == v for k, v in wantp.items()), "R-C05-3", "Comparison.parse maps each function / keyword list to its own member", loc(pf), expected=wantp, found=pairs)
    # keyword lists: above/after -> gt ; below/before -> lt
    srcp = unparse(pf)
    for kw, member in (("'above'", "cls.gt"), ("'below'", "cls.lt"), ("'>='", "cls.ge"), ("'<='", "cls.le")):
        m = re.search(r"if func in \[([^\]]*%s[^\]]*)\]:\s*return (cls\.\w+)" % re.escape(kw), srcp)
        chk.expect(bool(m) and m.group(2) == member, "R-C05-3", "Comparison.parse: keyword %s means %s" % (kw, member), loc(pf), found=m.group(2) if m else None)
    rcl = repo.func(IO, "_read_control_line")
    chk.fn(rcl)
    opmap = {}
    for n in walk(rcl):
        if isinstance(n, ast.If) and isinstance(n.test, ast.Compare) and unparse(n.test.left) == "current[6]":
            asg = [x for x in n.body if isinstance(x, ast.Assign) and dotted(x.targets[0]) == "oper"]
            if asg:
                opmap[const(n.test.comparators[0])] = unparse(asg[0].value)
    chk.expect(opmap == {"ABOVE": "np.greater", "BELOW": "np.less"}, "R-C05-3", "INP simple controls: ABOVE = greater than, BELOW = less than", loc(rcl), found=opmap)
    cc = [c for c in calls(rcl) if call_name(c) == "Control._conditional_control"]
    attrs = sorted((unparse(c.args[0]), const(c.args[1])) for c in cc if len(c.args) >= 2)
    chk.expect(attrs == [("node", "level"), ("node", "pressure")], "R-C05-3", "INP simple controls compare junction pressure / tank level of the named node", loc(rcl), found=attrs)
    ccf = repo.func(CTRL, "Control._conditional_control")
    chk.expect("ValueCondition(source_obj=source_obj, source_attr=source_attr, relation=operation, threshold=threshold)" in unparse(ccf).replace("\n", " ").replace("  ", " ") or
               re.search(r"ValueCondition\(source_obj=source_obj,\s*source_attr=source_attr,\s*relation=operation,\s*threshold=threshold\)", unparse(ccf)) is not None,
               "R-C05-3", "Control._conditional_control builds ValueCondition(obj, attr, operation, threshold) with the given action", loc(ccf))
    vn = repo.func(CTRL, "ValueCondition.__new__")
    chk.expect("isinstance(source_obj, Tank)" in unparse(vn) and "TankLevelCondition" in unparse(vn), "R-C05-3", "a ValueCondition on a tank's level/pressure/head is a TankLevelCondition (partial steps)", loc(vn))
    chk.floor("R-C05-3", 10)

    # ---------------------------------------------------------------- R-C05-5 the solve phase of a simple control follows its CURRENT condition
    ctl_cls = repo.cls(CTRL, "Control")
    rule_cls = repo.cls(CTRL, "Rule")
    own = {n.name: n for n in ctl_cls.body if isinstance(n, ast.FunctionDef)}
    inherited = {n.name: n for n in rule_cls.body if isinstance(n, ast.FunctionDef)}
    setters = []
    for nm, fn in list(inherited.items()) + list(own.items()):
        if any(isinstance(a, ast.Attribute) and isinstance(a.ctx, ast.Store) and a.attr == "_condition" and unparse(a.value) == "self" for a in walk(fn)):
            setters.append(nm)
    for nm in sorted(set(setters)):
        eff = own.get(nm) or inherited.get(nm)        # the method a Control object actually runs
        sets_type = any(isinstance(a, ast.Attribute) and isinstance(a.ctx, ast.Store) and a.attr == "_control_type" for a in walk(eff)) if nm in own else False
        via_init = nm == "__init__"
        if nm == "__init__":
            continue
        chk.expect(sets_type, "R-C05-5", "Control.%s re-derives the control type when it replaces the condition" % nm, loc(CTRL, eff),
                   "the simulator files a control under pre-solve / post-solve by _control_type, fixed from the first condition: a control whose condition was replaced by a "
                   "tank-level condition is never checked before the solve and overshoots its threshold by a whole step", expected="self._control_type = f(condition)",
                   found="inherited from Rule without touching _control_type" if nm not in own else "no assignment of _control_type")
    ci_ = own.get("__init__")
    helper = [c for c in calls(ci_) if last_attr(c) == "_control_type_of"] if ci_ is not None else []
    tfn = own.get("_control_type_of") if helper else ci_
    txt = unparse(tfn) if tfn is not None else ""
    chk.expect(re.search(r"isinstance\(condition, TankLevelCondition\):\s*(return|self\._control_type =) _ControlType\.pre_and_postsolve", txt) is not None and
               re.search(r"isinstance\(condition, \(TimeOfDayCondition, SimTimeCondition\)\):\s*(return|self\._control_type =) _ControlType\.presolve", txt) is not None, "R-C05-5",
               "tank-level conditions are pre-and-post-solve, time conditions pre-solve, everything else post-solve", loc(CTRL, tfn) if tfn is not None else CTRL)
    chk.floor("R-C05-5", 2)

    # ---------------------------------------------------------------- R-C05-6 the partial step of a tank-level condition does not depend on who asked first
    tle = repo.func(CTRL, "TankLevelCondition.evaluate")
    chk.fn(tle)
    cross = [n for n in walk(tle) if isinstance(n, ast.If) and isinstance(n.test, ast.BoolOp) and "state" in unparse(n.test) and "not relation(" in unparse(n.test)]
    if not cross:
        raise ExtractError("TankLevelCondition.evaluate: threshold-crossing test not found")
    neg = [v for v in cross[0].test.values if isinstance(v, ast.UnaryOp)][0].operand
    prev_expr = neg.args[0]
    while isinstance(prev_expr, ast.Call) and prev_expr.args:
        prev_expr = prev_expr.args[0]             # np.round(x, 10) -> x
    own_state = {a.attr for a in walk(tle) if isinstance(a, ast.Attribute) and isinstance(a.ctx, ast.Store) and unparse(a.value) == "self"}
    if isinstance(prev_expr, ast.Name):
        defs = [a for a in walk(tle) if isinstance(a, ast.Assign) and any(isinstance(t, ast.Name) and t.id == prev_expr.id for t in a.targets)]
        from_tank = any("_prev_head" in unparse(a.value) or any(isinstance(x, ast.Name) and x.id == "prev_head" for x in ast.walk(a.value)) for a in defs)
        okp = from_tank
        found = [norm(a) for a in defs]
    else:
        okp = not (isinstance(prev_expr, ast.Attribute) and unparse(prev_expr.value) == "self" and prev_expr.attr in own_state)
        found = unparse(prev_expr)
    chk.expect(okp, "R-C05-6", "the 'value at the last accepted step' a tank-level condition compares with comes from the tank, not from a field evaluate() overwrites", loc(tle, cross[0]),
               "evaluate() sets self._last_value on every call: the second control that shares the condition object (the simulator itself pairs every setting control with a "
               "status control on the SAME condition) sees 'already beyond the threshold' and gets no partial step", expected="derived from tank._prev_head", found=found)

    # ---------------------------------------------------------------- R-C05-7 conditions see what is reported
    # "condition true on the REPORTED state": the pressure a junction condition reads (node.pressure -> _pressure, written by
    # store_results_in_network) is the pressure save_results reports, on the isolated and on the connected path
    import sympy as sp
    from ._shared import final_stores_sym, forced
    sfn, rows, ex = final_stores_sym(repo)
    svf = repo.func("wntr/sim/hydraulics.py", "save_results")
    chk.fn(sfn, svf)
    jl = [n for n in walk(svf) if isinstance(n, ast.For) and "junctions()" in unparse(n.iter)]
    if not jl:
        raise ExtractError("save_results: junction loop not found")
    rep = {}
    for c in calls(jl[0]):
        if last_attr(c) == "append" and "'pressure'" in unparse(c.func.value):
            g = parent(c)
            while g is not None and not isinstance(g, ast.If) and g is not jl[0]:
                g = parent(g)
            key = "always"
            if isinstance(g, ast.If) and "_is_isolated" in unparse(g.test):
                inbody = any(c in list(ast.walk(x)) for x in g.body)
                pos = "not " not in unparse(g.test)
                key = "isolated" if inbody == pos else "connected"
            rep[key] = c.args[0]
    pp = repo.func("wntr/network/base.py", "Node.pressure")
    chk.expect(any(isinstance(r, ast.Return) and unparse(r.value) == "self._pressure" for r in walk(pp)), "R-C05-7", "a junction's pressure property returns the stored _pressure", loc(pp))
    done = set()
    for ctx, conds, finals in rows:
        if ctx != "wn.junctions()":
            continue
        iso = forced("node._is_isolated", conds)
        if iso is None:
            continue
        which = "isolated" if iso else "connected"
        if which in done:
            continue
        done.add(which)
        seen_p, head_v = finals.get("node._pressure"), finals.get("node._head")
        r_expr = rep.get(which, rep.get("always"))
        if seen_p is None or head_v is None or r_expr is None:
            raise ExtractError("R-C05-7: pressure bookkeeping not extractable for the %s path" % which)
        sub = {ex.sym("node._head"): head_v, ex.sym("node.head"): head_v}
        seen_v = sp.simplify(sp.sympify(seen_p).subs(sub))
        from ..symx import SymExec as _SE
        rv = _SE().S(const(r_expr)) if const(r_expr, None) is not None else sp.sympify(ex.sym("node.head") - ex.sym("node.elevation")) if unparse(r_expr) == "node.head - node.elevation" else None
        if rv is None:
            raise ExtractError("R-C05-7: reported pressure expression not recognised: %s" % unparse(r_expr))
        rep_v = sp.simplify(sp.sympify(rv).subs(sub))
        chk.expect(sp.simplify(seen_v - rep_v) == 0, "R-C05-7", "the pressure a condition reads for a %s junction is the pressure that is reported" % which, loc(sfn),
                   "save_results reports %s for a %s junction while conditions read node.pressure = %s: a pressure control can be true on the reported state and false "
                   "inside the simulator" % (rep_v, which, seen_v), expected=str(rep_v), found=str(seen_v))
    if done != {"isolated", "connected"}:
        raise ExtractError("R-C05-7: isolated / connected paths of store_results_in_network not both found (%s)" % sorted(done))

    # ---------------------------------------------------------------- R-C05-4 firing order of triggered controls
    # tank-level / pressure controls are pre-and-post-solve: among the controls triggered in one step the scheduler must take the one
    # whose threshold is crossed FIRST (largest partial step) and let priority decide only among equal instants; post-solve lists are
    # priority ordered (shared implementation with R-C04-3)
    from .c04 import sort_order_rules
    sort_order_rules(repo, chk, "R-C05-4")


WITNESSES = [
    dict(name="isolated-junction-pressure-from-elevation", file="wntr/sim/hydraulics.py", old="            node._pressure = 0\n", new="            node._pressure = node._head - node.elevation\n", rule="R-C05-7"),
    dict(name="update-condition-keeps-old-type", file=CTRL, old="        super().update_condition(condition)\n        self._control_type = self._control_type_of(condition)\n", new="        super().update_condition(condition)\n", rule="R-C05-5"),
    dict(name="tank-condition-compares-with-own-memo", file=CTRL, old="        if state and not relation(np.round(last_value,10), np.round(thresh_value,10)):", new="        if state and not relation(np.round(self._last_value,10), np.round(thresh_value,10)):", rule="R-C05-6"),
    dict(name="presolve-priority-before-time", file=CORE, old="        presolve_controls_to_run.sort(key=lambda i: i[1], reverse=True)\n", new="        presolve_controls_to_run.sort(key=lambda i: (i[0]._priority, -i[1]))\n", rule="R-C05-4"),
    dict(name="save-before-change-test", file=CORE, old="            self._run_postsolve_controls()\n            self._run_feasibility_controls()\n            if self._change_tracker.changes_made(ref_point='graph'):",
         new="            self._run_postsolve_controls()\n            self._run_feasibility_controls()\n            if isinstance(self._report_timestep, str):\n                wntr.sim.hydraulics.save_results(self._wn, node_res, link_res)\n            if self._change_tracker.changes_made(ref_point='graph'):", rule="R-C05-1"),
    dict(name="no-continue", file=CORE, old="                    break\n                continue\n", new="                    break\n", rule="R-C05-1"),
    dict(name="action-writes-initial-status", file=CTRL, old="        if attribute == 'status':\n            self._private_attribute = '_user_status'", new="        if attribute == 'status':\n            self._private_attribute = '_initial_status'", rule="R-C05-2"),
    dict(name="no-notify", file=CTRL, old="        setattr(self._target_obj, self._private_attribute, self._value)\n        self.notify()", new="        setattr(self._target_obj, self._private_attribute, self._value)", rule="R-C05-2"),
    dict(name="above-below-swapped", file=IO, old="            if current[6] == 'ABOVE':\n                oper = np.greater\n            elif current[6] == 'BELOW':\n                oper = np.less", new="            if current[6] == 'ABOVE':\n                oper = np.less\n            elif current[6] == 'BELOW':\n                oper = np.greater", rule="R-C05-3"),
    dict(name="postsolve-before-store", file=CORE, old="            wntr.sim.hydraulics.store_results_in_network(self._wn, self._model)\n\n            diagnostics.run(last_step='solve and store results in network', next_step='postsolve controls')\n\n            self._run_postsolve_controls()",
         new="            diagnostics.run(last_step='solve and store results in network', next_step='postsolve controls')\n\n            self._run_postsolve_controls()\n            wntr.sim.hydraulics.store_results_in_network(self._wn, self._model)", rule="R-C05-1"),
]
