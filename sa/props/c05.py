"""C05 -- reported states are consistent with every conditional simple control (re-solve discipline, action plumbing, partial steps).

Three kinds of deciding step are used (DESIGN 2b); which rule uses which is listed in EXPLANATION:
* T1 structural (R-C05-1): path obligations of run_sim are reachability questions on its CFG (reach-avoiding / must-pass).  The nodes
  that play a role (change test, flag that suppresses the pre-solve phase, trial counter, time advance) are located by AST shape
  (`sim_time += ..` / `x = x + ..`, a counter increment, a boolean-constant flag store) and by the literal texts `self._change_tracker`
  and `self._postsolve_controls.check()`; temporaries are followed through their single definition.  Two sub-facts of R-C05-1 (reset
  of the 'graph' reference point, the post-solve loop) are read off the call events of a symbolic execution, no formula is compared;
* T3 finite evaluation, bounded to the fixtures (R-C05-2, -3, -5, -6): the small methods the statement rests on (ControlAction.__init__ /
  run_control_action / target, Subject.notify, ControlChangeTracker.update, Rule.is_control_action_required / run_control_action,
  ValueCondition.evaluate / __new__, Comparison.parse, Control.__init__ / update_condition / _conditional_control,
  TankLevelCondition.evaluate, the INP reader of a conditional control line) are EVALUATED by `_concrete` (a sa/peval Evaluator with
  opaque objects; nothing of the repository is imported or run) on a handful of mock objects each, and what they do -- values
  returned, fields written, observers told, calls made -- is compared with what the statement needs.  The mock objects carry
  hard-coded private field names.  Not evaluated but matched: the Comparison member table (R-C05-3) is an AST/text comparison with the
  spellings np.greater etc.; R-C05-6 falls back to an AST def-use walk when the method is not evaluable;
* T3 (R-C05-4): the firing order is decided by c04.sort_order_rules, i.e. sa/concrete.py Interp running the scheduler and the two
  runners on 13 stand-in scenarios against an oracle -- bounded to those scenarios;
* T2 symbolic path enumeration (R-C05-7): what is stored / reported as junction pressure is compared as sympy expressions obtained by
  sa/symx.py with a case split on the isolation flag; Node.pressure / Node.head returns are compared as event text.
"""
import ast

from ..src import walk, const, loc, unparse, AnchorError, ExtractError, last_attr, parent
from ..cfg import CFG
from ..peval import Obj, Unknown, Raised
from ..symx import SymExec, Opaque

CORE = "wntr/sim/core.py"
CTRL = "wntr/network/controls.py"
HYD = "wntr/sim/hydraulics.py"
IO = "wntr/epanet/io.py"
BASE = "wntr/network/base.py"

EXPLANATION = (
    "R-C05-1 (structural, T1: CFG reach-avoiding on run_sim, anchors located by AST shape and the texts self._change_tracker / "
    "self._postsolve_controls.check(); two sub-facts read off symbolic call events): results are saved, the state accepted and time advanced only "
    "where no post-solve control changed anything since the last solve; the other path updates the model, counts the trial, sets the skip flag and "
    "re-solves. R-C05-2 (T3: the methods are evaluated by the in-house evaluator _concrete on a few mock objects, bounded to them): ControlAction maps "
    "status/setting/leak_status to the run-time fields, does setattr + notify, reports the public attribute; the tracker compares the public value; a "
    "rule is due iff its condition holds. R-C05-3 (T3 on 4 value pairs, 6 functions, 2 words x 2 node types; the Comparison member table is a text "
    "match on np.greater etc.): ValueCondition.evaluate applies the stored relation to rounded value and threshold; INP ABOVE = greater, BELOW = less "
    "on pressure / level. R-C05-4 (T3, delegated to c04: sa/concrete.py Interp on 13 scheduler scenarios against an oracle): triggered controls act in "
    "firing-time order, ties by priority. R-C05-5 (T3, Control.__init__ evaluated for a fixed list of 8 condition classes): every method replacing the "
    "condition leaves _control_type = f(condition). R-C05-6 (T3, 3 fixtures evaluated twice; AST def-use fallback): two evaluations of a "
    "TankLevelCondition in one step report the same positive partial step. R-C05-7 (T2, symbolic path enumeration to sympy with a case split on "
    "_is_isolated): the junction pressure stored for the conditions equals the one save_results reports. "
    "R-C05-8 (T3, bounded to one fixture model: the model of sa/props/c13_fixture.py plus two simple controls with explicit priorities, built by the "
    "repository's constructors; _get_valve_controls / _get_pump_controls interpreted): every control or rule that sets a valve's setting or a pump's speed "
    "gets exactly one companion status control with the same condition object, class, priority and control type. "
    "Decides the loop discipline and plumbing on these fixtures, not the invariant over actual trajectories.")
RULE_TEXT = "one instance = one path obligation or one plumbing fact (mapping entry, truth-table row, fixture outcome)"
ASSUMPTIONS = ["equal-priority conflicts between triggered controls are outside the statement's guarantee", "effective status = f(user, internal) is decided under C02 (R-C02-7)",
               "R-C05-2..-6 are finite evaluations: they decide the clause on the mock objects listed in the module (hard-coded private field names), not for every input",
               "R-C05-4 is bounded to the 13 stand-in scheduler scenarios of c04.sort_order_rules"]


# ====================================================================================================================
# def-use helpers (AST level)
# ====================================================================================================================
def _name_defs(fn):
    """local name -> list of the values assigned to it by plain `name = value` statements; names that are also bound in another way
    (augmented assignment, loop / with / except target, tuple unpacking, parameter) map to None: they are never expanded."""
    defs, other = {}, set()
    for a in fn.args.args + fn.args.kwonlyargs + fn.args.posonlyargs:
        other.add(a.arg)
    for va in (fn.args.vararg, fn.args.kwarg):
        if va is not None:
            other.add(va.arg)
    for n in walk(fn):
        if isinstance(n, ast.Assign):
            for t in n.targets:
                if isinstance(t, ast.Name):
                    defs.setdefault(t.id, []).append(n.value)
                else:
                    for x in ast.walk(t):
                        if isinstance(x, ast.Name) and isinstance(x.ctx, ast.Store):
                            other.add(x.id)
        elif isinstance(n, ast.AnnAssign) and isinstance(n.target, ast.Name) and n.value is not None:
            defs.setdefault(n.target.id, []).append(n.value)
        elif isinstance(n, ast.AugAssign) and isinstance(n.target, ast.Name):
            other.add(n.target.id)
        elif isinstance(n, (ast.For, ast.comprehension)):
            for x in ast.walk(n.target):
                if isinstance(x, ast.Name):
                    other.add(x.id)
        elif isinstance(n, ast.NamedExpr):
            other.add(n.target.id)
        elif isinstance(n, ast.ExceptHandler) and n.name:
            other.add(n.name)
        elif isinstance(n, ast.With):
            for it in n.items:
                if it.optional_vars is not None:
                    for x in ast.walk(it.optional_vars):
                        if isinstance(x, ast.Name):
                            other.add(x.id)
    for k in other:
        defs[k] = None
    return defs


def _expand(fn, expr, depth=6, _defs=None):
    """copy of expr in which every local that has exactly ONE definition in fn is replaced by that definition (temporaries vanish)."""
    defs = _defs if _defs is not None else _name_defs(fn)

    class T(ast.NodeTransformer):
        def __init__(self, d):
            self.d = d

        def visit_Name(self, n):
            if isinstance(n.ctx, ast.Load) and self.d > 0 and defs.get(n.id) is not None and len(defs[n.id]) == 1:
                return T(self.d - 1).visit(_clone(defs[n.id][0]))
            return n

        def visit_Lambda(self, n):
            return n
    return T(depth).visit(_clone(expr))


def _clone(expr):
    """a fresh copy of an expression (the parsed trees carry parent links, which a deepcopy would follow)"""
    return ast.parse(unparse(expr), mode="eval").body


def _atom(test):
    """truth-atom of a test: (expression, polarity).  `not x`, `x == False`, `x is False`, `x != True`, `bool(x)` ... are all the atom x."""
    pol = True
    while True:
        if isinstance(test, ast.UnaryOp) and isinstance(test.op, ast.Not):
            pol, test = not pol, test.operand
            continue
        if isinstance(test, ast.Compare) and len(test.ops) == 1 and isinstance(test.ops[0], (ast.Eq, ast.NotEq, ast.Is, ast.IsNot)):
            l, r = test.left, test.comparators[0]
            cb = [x for x in (l, r) if isinstance(x, ast.Constant) and isinstance(x.value, bool)]
            if len(cb) == 1:
                other = r if cb[0] is l else l
                same = isinstance(test.ops[0], (ast.Eq, ast.Is))
                pol = pol if (cb[0].value == same) else not pol
                test = other
                continue
        if isinstance(test, ast.Call) and isinstance(test.func, ast.Name) and test.func.id == "bool" and len(test.args) == 1 and not test.keywords:
            test = test.args[0]
            continue
        return test, pol


def _conjuncts(test, pol=True):
    """atoms that are FORCED when `test` has truth value pol: [(atom expression, polarity)]."""
    a, p = _atom(test)
    p = p if pol else not p
    if isinstance(a, ast.BoolOp):
        if isinstance(a.op, ast.And) and p:
            return [c for v in a.values for c in _conjuncts(v, True)]
        if isinstance(a.op, ast.Or) and not p:
            return [c for v in a.values for c in _conjuncts(v, False)]
        return []
    return [(a, p)]


# ====================================================================================================================
# symbolic execution helpers
# ====================================================================================================================
def _sx(decide=None, attrs=None):
    """SymExec in which (a) a call through a local alias is the call of the aliased value, (b) calls selected by `decide`
    (f(call text, last name) -> bool | None) and attributes listed in `attrs` (text -> value, or f(base text, attr) -> value |
    NotImplemented) have a fixed value: a finite case split that decides if-statements and conditional expressions alike."""
    def call_hook(name, n, args, kwargs, st, ex, recv):
        fn_txt = None
        if isinstance(n.func, ast.Name) and isinstance(st.env.get(n.func.id), Opaque):
            fn_txt = st.env[n.func.id].text
        elif name and not name.startswith("?."):
            fn_txt = name
        if fn_txt is None:
            return NotImplemented
        txt = "%s(%s)" % (fn_txt, ", ".join([ex.text(a) for a in args] + ["%s=%s" % (k, ex.text(v)) for k, v in kwargs.items()]))
        if decide is not None:
            r = decide(txt, fn_txt.split(".")[-1])
            if r is not None:
                return r
        if fn_txt != name:
            st.events.append(("call", txt, (fn_txt, args, kwargs), getattr(n, "lineno", 0), tuple(l[1] for l in st.loops)))
            return Opaque(txt)
        return NotImplemented

    def attr_hook(base, attr, st):
        if attrs is None or not isinstance(base, Opaque):
            return NotImplemented
        if callable(attrs):
            return attrs(base.text, attr)
        key = base.text + "." + attr
        return attrs[key] if key in attrs else NotImplemented
    return SymExec(call_hook=call_hook, attr_hook=attr_hook)


def _live(outs):
    return [o for o in outs if o.raised is None]


def _call_events(o):
    """[(callee text, [arg texts], {kw: text}, innermost loop iterable text or None, index in the event list)] of one path"""
    out = []
    for i, e in enumerate(o.events):
        if e[0] != "call":
            continue
        txt = e[1]
        callee = txt[:_matching_open(txt)]
        name, args, kwargs = e[2]
        loops = e[4] if len(e) > 4 else ()
        out.append((callee, [_t(a) for a in args], dict((k, _t(v)) for k, v in kwargs.items()), loops[-1] if loops else None, i))
    return out


def _matching_open(txt):
    """index of the '(' that matches the final ')' of a call text"""
    depth = 0
    for i in range(len(txt) - 1, -1, -1):
        c = txt[i]
        if c == ")":
            depth += 1
        elif c == "(":
            depth -= 1
            if depth == 0:
                return i
    return len(txt)


def _t(v):
    if isinstance(v, Opaque):
        return v.text
    if isinstance(v, str):
        return repr(v)
    if isinstance(v, (list, tuple)):
        return "(" + ", ".join(_t(x) for x in v) + ")"
    return str(v)


def _loop_vars(o):
    """loop iterable text -> [target names] for the loops entered on this path"""
    out = {}
    for e in o.events:
        if e[0] == "loop" and e[1] != "while":
            out[e[2]] = [x.strip() for x in e[1].strip("()").split(",")]
    return out


def _loop_sources(fn, o):
    """loop iterable text (as in the events of path o) -> (what is iterated: the iterable with single-definition temporaries expanded and
    list()/tuple()/iter() copies removed, projection): projection is True when the loop runs over `[a for a, ... in X]`, i.e. over the FIRST
    components of the items of X (then `what` is X)."""
    defs = _name_defs(fn)
    fors = [n for n in walk(fn) if isinstance(n, ast.For)]
    out = {}
    for e in o.events:
        if e[0] != "loop" or e[1] == "while":
            continue
        cand = [f for f in fors if unparse(f.target) == e[1] and f.lineno == e[3]] or [f for f in fors if unparse(f.target) == e[1]]
        src, proj = None, False
        if len(cand) == 1:
            it = _expand(fn, cand[0].iter, _defs=defs)
            while True:
                if isinstance(it, ast.Call) and isinstance(it.func, ast.Name) and it.func.id in ("list", "tuple", "iter") and len(it.args) == 1 and not it.keywords:
                    it = it.args[0]
                    continue
                if isinstance(it, (ast.ListComp, ast.GeneratorExp)) and len(it.generators) == 1 and not it.generators[0].ifs and not proj:
                    g_ = it.generators[0]
                    if isinstance(g_.target, ast.Name) and isinstance(it.elt, ast.Name) and it.elt.id == g_.target.id:
                        it = g_.iter                      # [x for x in X] is X
                        continue
                    if isinstance(g_.target, (ast.Tuple, ast.List)) and g_.target.elts and isinstance(g_.target.elts[0], ast.Name) and \
                            isinstance(it.elt, ast.Name) and it.elt.id == g_.target.elts[0].id:
                        it, proj = g_.iter, True
                        continue
                break
            src = unparse(it)
        out[e[2]] = (src if src is not None else e[2], proj)
    return out


def _loops_run_to_the_end(fn):
    """no for-loop of fn is left by `break` / `return` (the symbolic execution summarises a loop by one generic iteration)"""
    for n in walk(fn):
        if isinstance(n, ast.For):
            for x in walk(n):
                if isinstance(x, ast.Return) or (isinstance(x, ast.Break) and _innermost_loop(x) is n):
                    return False
    return True


def _innermost_loop(n):
    p_ = parent(n)
    while p_ is not None and not isinstance(p_, (ast.For, ast.While)):
        p_ = parent(p_)
    return p_


def _strip_round(node):
    """np.round(x, 10) / round(x, 10) / np.around(x, decimals=10) -> (x, 10); anything else -> (node, None)"""
    if isinstance(node, ast.Call) and last_attr(node) in ("round", "around", "round_") and node.args:
        d = node.args[1] if len(node.args) > 1 else next((k.value for k in node.keywords if k.arg in ("decimals", "ndigits")), None)
        return node.args[0], (const(d) if d is not None else 0)
    return node, None


# ====================================================================================================================
# concrete evaluation with opaque objects
# ====================================================================================================================
class _Opq(Obj):
    """an object nothing is known about except its name (an unbound global, the result of an unmodelled call ...).  Its attributes are
    opaque objects again; its truth value is unknown (asking for it aborts the evaluation)."""
    pass


class _Break(Exception):
    pass


class _Continue(Exception):
    pass


class _Fn(Obj):
    """a named object that can be called (an enum member that wraps a function ...)"""

    def __init__(self, name, fn, attrs=None, cls=None):
        Obj.__init__(self, name, attrs, cls)
        self.fn = fn

    def __call__(self, *a, **k):
        return self.fn(*a, **k)


def _concrete(repo, rel, user_hook=None, inline_depth=6, names=None):
    """-> (make, log): make(env) builds an evaluator; log collects every call that was not interpreted as (name, args, kwargs).
    Interpreted: the string/regex helpers of _shared._string_evaluator, isinstance over the class hierarchy of `rel`, getattr/setattr/
    hasattr on abstract objects, dict/list methods, comprehensions, f-strings, for/try statements, and calls of methods of the classes of
    `rel` through self / cls / super() / the class name (evaluated recursively on their bodies)."""
    from ._shared import _string_evaluator
    Ev0, hook0 = _string_evaluator(repo)
    classes = repo.classes(rel)
    module_funcs = {n.name: n for n in repo.tree(rel).body if isinstance(n, ast.FunctionDef)}
    log = []
    # class hierarchy: the classes of `rel` plus the network element / control classes (for isinstance only)
    hier = {}
    for r_ in (BASE, "wntr/network/elements.py", CTRL, rel):
        if repo.exists(r_):
            hier.update(repo.classes(r_))

    def bases(cname):
        out, todo = [], [cname]
        while todo:
            c = todo.pop(0)
            if c in out:
                continue
            out.append(c)
            if c in hier:
                for b in hier[c].bases:
                    for x in ast.walk(b):
                        if isinstance(x, ast.Name) and x.id in hier:
                            todo.append(x.id)
                        elif isinstance(x, ast.Attribute) and x.attr in hier:
                            todo.append(x.attr)
        return out

    def find_method(cname, meth, skip_first=False):
        for c in bases(cname)[1 if skip_first else 0:]:
            if c in classes:
                for n in classes[c].body:
                    if isinstance(n, ast.FunctionDef) and n.name == meth and not any(isinstance(d, ast.Attribute) and d.attr == "setter" for d in n.decorator_list):
                        return c, n
        return None, None

    def class_attr(d):
        if names and d in names:
            return names[d]
        return _Opq(d)

    def attr_hook(base, attr):
        if isinstance(base, _Opq) and attr not in base.attrs:
            return _Opq(base.name + "." + attr)
        return NotImplemented

    class Ev(Ev0):
        depth = 0
        owner = None           # class whose method body is being evaluated (for super())

        # ---- expressions
        def e_Dict(self, n):
            out = {}
            for k, v in zip(n.keys, n.values):
                if k is None:
                    out.update(self.ev(v))
                else:
                    out[self.ev(k)] = self.ev(v)
            return out

        def e_Subscript(self, n):
            b = self.ev(n.value)
            if isinstance(b, _Opq):
                k = self.ev(n.slice) if not isinstance(n.slice, ast.Slice) else unparse(n.slice)
                return _Opq("%s[%r]" % (b.name, k))
            if isinstance(b, dict):
                k = self.ev(n.slice)
                if k not in b:
                    raise Raised(n)
                return b[k]
            try:
                return Ev0.e_Subscript(self, n)
            except (IndexError, KeyError, TypeError):
                raise Raised(n)

        def _comp(self, gens, i, emit):
            if i == len(gens):
                emit()
                return
            g = gens[i]
            it = self.ev(g.iter)
            if isinstance(it, dict):
                it = list(it.keys())
            if not isinstance(it, (list, tuple, str)):
                raise Unknown("comprehension over %r" % (it,))
            for x in it:
                self.assign(g.target, x)
                if all(self.truth(self.ev(c)) for c in g.ifs):
                    self._comp(gens, i + 1, emit)

        def e_ListComp(self, n):
            out = []
            saved = dict(self.env)
            self._comp(n.generators, 0, lambda: out.append(self.ev(n.elt)))
            self.env = saved
            return out

        e_GeneratorExp = e_ListComp
        e_SetComp = e_ListComp

        def e_DictComp(self, n):
            out = {}
            saved = dict(self.env)

            def emit():
                out[self.ev(n.key)] = self.ev(n.value)
            self._comp(n.generators, 0, emit)
            self.env = saved
            return out

        def e_JoinedStr(self, n):
            out = []
            for v in n.values:
                if isinstance(v, ast.Constant):
                    out.append(str(v.value))
                else:
                    x = self.ev(v.value)
                    if v.conversion == 115:
                        x = str(x)
                    elif v.conversion == 114:
                        x = repr(x)
                    spec = self.ev(v.format_spec) if v.format_spec is not None else ""
                    try:
                        out.append(format(x, spec))
                    except (TypeError, ValueError):
                        out.append(str(x))
            return "".join(out)

        def e_Lambda(self, n):
            return _Opq("<lambda>")

        def e_Tuple(self, n):
            return tuple(self.ev(e) for e in n.elts)

        def e_Set(self, n):
            return [self.ev(e) for e in n.elts]

        def e_Starred(self, n):
            raise Unknown("starred")

        def e_Compare(self, n):
            if len(n.ops) == 1 and isinstance(n.ops[0], (ast.In, ast.NotIn)):
                left, right = self.ev(n.left), self.ev(n.comparators[0])
                if isinstance(right, _Opq):
                    raise Unknown("membership in %r" % right)
                if isinstance(right, str):
                    r = isinstance(left, str) and left in right
                elif isinstance(right, dict):
                    r = any(left == k for k in right)
                else:
                    r = any(left == x for x in right)
                return r if isinstance(n.ops[0], ast.In) else not r
            try:
                return Ev0.e_Compare(self, n)
            except TypeError:
                raise Unknown("comparison %s" % unparse(n))

        def truth(self, v):
            if isinstance(v, _Opq) and "__bool__" not in v.attrs:
                raise Unknown("truth value of %r" % v)
            return Ev0.truth(self, v)

        # ---- statements
        def stmt(self, s):
            if isinstance(s, ast.For):
                it = self.ev(s.iter)
                if isinstance(it, dict):
                    it = list(it.keys())
                if not isinstance(it, (list, tuple, str)):
                    raise Unknown("loop over %r" % (it,))
                for x in list(it):
                    self.assign(s.target, x)
                    try:
                        self.block(s.body)
                    except _Continue:
                        continue
                    except _Break:
                        break
                else:
                    self.block(s.orelse)
                return
            if isinstance(s, ast.While):
                fuel = 10000
                while self.truth(self.ev(s.test)):
                    fuel -= 1
                    if fuel <= 0:
                        raise Unknown("while loop at line %s does not end" % s.lineno)
                    try:
                        self.block(s.body)
                    except _Continue:
                        continue
                    except _Break:
                        break
                else:
                    self.block(s.orelse)
                return
            if isinstance(s, ast.Break):
                raise _Break()
            if isinstance(s, ast.Continue):
                raise _Continue()
            if isinstance(s, ast.Try):
                try:
                    self.block(s.body)
                except Raised:
                    if not s.handlers:
                        raise
                    self.block(s.handlers[0].body)
                else:
                    self.block(s.orelse)
                self.block(s.finalbody)
                return
            if isinstance(s, ast.AnnAssign):
                if s.value is not None:
                    self.assign(s.target, self.ev(s.value))
                return
            if isinstance(s, ast.Assert):
                return
            if isinstance(s, (ast.Import, ast.ImportFrom, ast.Global, ast.Nonlocal, ast.FunctionDef, ast.ClassDef)):
                return
            return Ev0.stmt(self, s)

        def assign(self, t, v):
            if isinstance(t, ast.Subscript):
                b = self.ev(t.value)
                if isinstance(b, (list, dict)):
                    b[self.ev(t.slice)] = v
                    return
                if isinstance(b, _Opq):
                    return
            if isinstance(t, (ast.Tuple, ast.List)) and isinstance(v, _Opq):
                for i, e in enumerate(t.elts):
                    self.assign(e, _Opq("%s[%d]" % (v.name, i)))
                return
            if isinstance(t, ast.Attribute):
                b = self.ev(t.value)
                if isinstance(b, _Opq):
                    return
            return Ev0.assign(self, t, v)

    def make(env, owner=None, depth=0):
        e = Ev(env, class_attr, hook, attr_hook)
        e.owner = owner
        e.depth = depth
        return e

    def call_method(cname, fn, selfobj, n, ev, bound=True):
        if ev.depth >= inline_depth:
            raise Unknown("method inlining too deep at %s" % unparse(n))
        params = [a.arg for a in fn.args.args]
        env = {}
        for p, d in zip(params[len(params) - len(fn.args.defaults):], fn.args.defaults):
            env[p] = ev.ev(d)
        is_static = any(isinstance(d, ast.Name) and d.id == "staticmethod" for d in fn.decorator_list)
        is_cls = any(isinstance(d, ast.Name) and d.id == "classmethod" for d in fn.decorator_list)
        pos = [ev.ev(a) for a in n.args]
        if not is_static and bound:
            pos = [(_Opq(cname) if is_cls else selfobj)] + pos
        for p, a in zip(params, pos):
            env[p] = a
        for k in n.keywords:
            if k.arg:
                env[k.arg] = ev.ev(k.value)
        sub = make(env, cname, ev.depth + 1)
        return sub.run(fn.body)

    def isinst(x, T):
        ts = T if isinstance(T, (list, tuple)) else [T]
        names = [t.name.split(".")[-1] if isinstance(t, Obj) else str(t) for t in ts]
        if isinstance(x, bool):
            return any(nm in ("bool", "int") for nm in names)
        if isinstance(x, str):
            return any(nm in ("str", "string_types", "basestring") for nm in names)
        if isinstance(x, int):
            return any(nm in ("int", "Integral", "Number", "Real") for nm in names)
        if isinstance(x, float):
            return any(nm in ("float", "Number", "Real") for nm in names)
        if x is None:
            return False
        if isinstance(x, (list, tuple, dict)):
            return any(nm in (type(x).__name__, "Iterable", "Sequence") for nm in names)
        if isinstance(x, Obj) and x.cls is not None:
            return any(nm in bases(x.cls) for nm in names)
        raise Unknown("isinstance of %r" % (x,))

    def pos_args(n, ev):
        out = []
        for a in n.args:
            if isinstance(a, ast.Starred):
                v = ev.ev(a.value)
                if not isinstance(v, (list, tuple)):
                    raise Unknown("starred argument %s" % unparse(a))
                out.extend(v)
            else:
                out.append(ev.ev(a))
        return out

    def hook(name, n, ev):
        if user_hook is not None:
            r = user_hook(name, n, ev)
            if r is not NotImplemented:
                return r
        if name == "isinstance" and len(n.args) == 2:
            return isinst(ev.ev(n.args[0]), ev.ev(n.args[1]))
        if isinstance(n.func, ast.Name) and callable(ev.env.get(name)) and (not isinstance(ev.env.get(name), Obj) or isinstance(ev.env.get(name), _Fn)):
            return ev.env[name](*pos_args(n, ev), **{k.arg: ev.ev(k.value) for k in n.keywords if k.arg})
        if names and name in names and isinstance(names[name], _Fn):
            return names[name](*pos_args(n, ev), **{k.arg: ev.ev(k.value) for k in n.keywords if k.arg})
        if name in ("getattr", "setattr", "hasattr") and not n.keywords:
            av = pos_args(n, ev)
            if name == "getattr" and len(av) in (2, 3):
                o, a = av[0], av[1]
                if isinstance(o, Obj) and isinstance(a, str):
                    if a in o.attrs:
                        return o.attrs[a]
                    if len(av) > 2:
                        if isinstance(o, _Opq):
                            raise Unknown("getattr with default on %r" % o)
                        return av[2]
                    if isinstance(o, _Opq):
                        return _Opq(o.name + "." + a)
                raise Unknown("getattr %s" % unparse(n))
            if name == "setattr" and len(av) == 3:
                o, a, v = av
                if isinstance(o, Obj) and isinstance(a, str):
                    o.attrs[a] = v
                    return None
                raise Unknown("setattr %s" % unparse(n))
            if name == "hasattr" and len(av) == 2:
                o, a = av
                if isinstance(o, Obj) and not isinstance(o, _Opq):
                    return a in o.attrs
                raise Unknown("hasattr %s" % unparse(n))
        if name == "type" and len(n.args) == 1:
            o = ev.ev(n.args[0])
            if isinstance(o, Obj) and o.cls is not None:
                return _Opq(o.cls)
        if name in ("dict", "list", "tuple", "set", "OrderedDict", "OrderedSet") and not n.args and not n.keywords:
            return {} if name in ("dict", "OrderedDict") else []
        if name in ("list", "tuple", "sorted") and len(n.args) == 1 and not n.keywords:
            v = ev.ev(n.args[0])
            if isinstance(v, (list, tuple)):
                return sorted(v) if name == "sorted" else list(v)
        if isinstance(n.func, ast.Attribute):
            meth = n.func.attr
            fv = n.func.value
            # super().m(...) / super(C, self).m(...)
            if isinstance(fv, ast.Call) and isinstance(fv.func, ast.Name) and fv.func.id == "super":
                selfobj = ev.env.get("self")
                start = ev.owner or (selfobj.cls if isinstance(selfobj, Obj) else None)
                if start is not None:
                    c, fn = find_method(start, meth, skip_first=True)
                    if fn is not None:
                        return call_method(c, fn, selfobj, n, ev)
                log.append(("super." + meth, [ev.ev(a) for a in n.args], {k.arg: ev.ev(k.value) for k in n.keywords if k.arg}))
                return None
            base = ev.ev(fv)
            if isinstance(base, dict):
                a = [ev.ev(x) for x in n.args]
                if meth == "get":
                    return base.get(a[0], a[1] if len(a) > 1 else None)
                if meth in ("keys", "values"):
                    return list(getattr(base, meth)())
                if meth == "items":
                    return [list(kv) for kv in base.items()]
                if meth in ("pop", "setdefault", "update"):
                    return getattr(base, meth)(*a)
            if isinstance(base, list):
                a = [ev.ev(x) for x in n.args]
                if meth in ("append", "extend", "insert", "remove", "index", "count", "pop"):
                    try:
                        return getattr(base, meth)(*a)
                    except (ValueError, IndexError):
                        raise Raised(n)
            if isinstance(base, set):
                a = [ev.ev(x) for x in n.args]
                if meth in ("add", "discard", "update", "copy"):
                    return getattr(base, meth)(*a)
                if meth == "remove":
                    if a[0] not in base:
                        raise Raised(n)
                    return base.remove(a[0])
            if isinstance(base, str) and meth in ("join",):
                return base.join(ev.ev(n.args[0]))
            if isinstance(base, Obj) and meth in base.attrs and callable(base.attrs[meth]) and not isinstance(base.attrs[meth], Obj):
                return base.attrs[meth](*pos_args(n, ev), **{k.arg: ev.ev(k.value) for k in n.keywords if k.arg})
            # method of a class of this module: through an instance (self), through cls, or through the class name
            cname, bound = None, True
            if isinstance(base, Obj) and not isinstance(base, _Opq) and base.cls is not None:
                cname = base.cls
            elif isinstance(base, _Opq) and base.name in classes:
                cname = base.name
            if cname is not None:
                c, fn = find_method(cname, meth)
                if fn is not None and not any(isinstance(d, ast.Name) and d.id == "property" for d in fn.decorator_list):
                    if isinstance(base, _Opq):
                        is_static = any(isinstance(d, ast.Name) and d.id == "staticmethod" for d in fn.decorator_list)
                        is_cls = any(isinstance(d, ast.Name) and d.id == "classmethod" for d in fn.decorator_list)
                        if not (is_static or is_cls):
                            bound = False           # Class.method(obj, ...) : self is passed explicitly
                    return call_method(c, fn, base, n, ev, bound=bound)
        r = hook0(name, n, ev)
        if r is not NotImplemented:
            return r
        if isinstance(n.func, ast.Name) and name not in ev.env and name in module_funcs:
            return call_method(None, module_funcs[name], None, n, ev, bound=False)
        # not interpreted: remember the call, the result is an opaque object
        a = [ev.ev(x) for x in n.args if not isinstance(x, ast.Starred)]
        kw = {k.arg: ev.ev(k.value) for k in n.keywords if k.arg}
        log.append((name, a, kw))
        return _Opq("%s(...)#%d" % (name, len(log)))
    return make, log


def _run_concrete(what, thunk):
    try:
        return thunk()
    except Raised as r:
        return ("raises", unparse(r.node).split("\n")[0][:80])
    except Unknown as e:
        raise ExtractError("%s not evaluable: %s" % (what, e))


def _nm(v):
    """printable identity of an evaluation result"""
    if isinstance(v, Obj):
        return v.name
    if isinstance(v, (list, tuple)):
        return tuple(_nm(x) for x in v)
    return v


# ====================================================================================================================
def fixture_simulator(world, wn):
    """a WNTRSimulator for the interpreted fixture model: made by the repository's own constructor (so that whatever __init__ sets is present) when it can be
    interpreted in this world, a bare instance holding the model otherwise"""
    from ..concrete import Instance, ProgramError, Unsupported
    I = world.interp
    cls = world.function(CORE, "WNTRSimulator")
    for key in ("wntr.sim.network_isolation.get_long_size", "wntr.sim.core.get_long_size", "wntr.sim.network_isolation.network_isolation.get_long_size"):
        world.overrides.setdefault(key, lambda: 8)
    try:
        sim = cls(wn)
        if isinstance(sim, Instance):
            return sim
    except (ProgramError, Unsupported):
        pass
    sim = Instance(cls)
    I.raw_setattr(sim, "_wn", wn)
    for a_, v_ in (("_Htol", 1e-4), ("_Qtol", 1e-8)):
        I.raw_setattr(sim, a_, v_)
    return sim


def companion_rules(repo, chk, rule="R-C05-8", branch_rule=None):
    """see _companion_rules_variant: run on both variants of the fixture model (variant B adds a pump-speed control, and a rule with two ELSE actions one of which sets a pump speed)"""
    for variant in ("A", "B"):
        _companion_rules_variant(repo, chk, rule, branch_rule, variant)


def _companion_rules_variant(repo, chk, rule, branch_rule, variant):
    """R-C05-8 (T3, bounded to one fixture model).  A control `IF cond THEN valve SETTING x` (or pump SPEED) only takes effect if the link is also put
    into the status in which the value applies; the simulator adds a companion status control for that.  The priority exception of the property ("unless
    a triggered control of equal or higher priority conflicts") is decided among the controls THE SIMULATOR RUNS, so the companion must compete with
    exactly the weight of its original: same condition object (it fires at the same instants), same class (simple control / rule), same priority and the
    same control type (it is checked in the same phase).

    With `branch_rule` (hosted by C03 as R-C03-4) only the branch fact is emitted: a rule's ELSE action `ELSE VALVE v SETTING x` acts when the condition is
    FALSE, so its companion must act on the ELSE branch as well (EPANET puts the valve into the status together with the setting, on the branch that sets it);
    a companion attached to the THEN branch activates the valve when the condition is TRUE and leaves it closed when the setting is actually changed."""
    from ..concrete import Instance, ProgramError, Unsupported
    from .c13 import model_world, build_fixture_model
    vfn = repo.func(CORE, "WNTRSimulator._get_valve_controls")
    pfn = repo.func(CORE, "WNTRSimulator._get_pump_controls")
    chk.fn(vfn, pfn)
    world = model_world(repo)
    I = world.interp
    call = lambda o, m, *a, **k: I.call(I.getattr_(o, m), list(a), k)
    try:
        wn = build_fixture_model(repo, world, variant)
        Cc = {n: world.function(CTRL, n) for n in ("SimTimeCondition", "ValueCondition", "ControlAction", "Control", "Rule")}
        v1, v4, pu1, pu2, t1 = (call(wn, "get_link", "V1"), call(wn, "get_link", "V4"), call(wn, "get_link", "PU1"), call(wn, "get_link", "PU2"), call(wn, "get_node", "T1"))
        extra = [("x_set_low", Cc["Control"](Cc["ValueCondition"](t1, "level", ">=", 3.0), Cc["ControlAction"](v1, "setting", 25.0), priority=1)),
                 ("x_set_high", Cc["Control"](Cc["ValueCondition"](t1, "level", "<", 1.0), Cc["ControlAction"](v4, "setting", 2.0), priority=5)),
                 ("x_speed", Cc["Control"](Cc["SimTimeCondition"](wn, "=", 7200), Cc["ControlAction"](pu1, "base_speed", 0.5), priority=4)),
                 ("x_speed_rule", Cc["Rule"](Cc["ValueCondition"](t1, "level", ">", 4.0), [Cc["ControlAction"](pu2, "base_speed", 0.7)], [], priority=2, name="x_speed_rule"))]
        for nm, c in extra:
            call(wn, "add_control", nm, c)
        sim = fixture_simulator(world, wn)

        class _SourceChecker(object):        # the feasibility controls of PRV / PSV / FCV only need a callable to be built
            _sa_mock = True

            def should_valve_be_opened(self, valve):
                return False
        I.raw_setattr(sim, "_valve_source_checker", _SourceChecker())
        made = {"setting": list(I.getattr_(sim, "_get_valve_controls")()), "base_speed": list(I.getattr_(sim, "_get_pump_controls")())}
        LS = world.overrides["wntr.network.base.LinkStatus"]
        n = 0
        taken = {}
        for cname, control in list(call(wn, "controls")):
            for action in call(control, "actions"):
                tgt, attr = call(action, "target")
                if attr not in made:
                    continue
                n += 1
                what = "%s %r: %s %s%s" % (control._cls.name, cname, I.getattr_(tgt, "name"), attr, "" if variant == "A" else " [fixture variant %s]" % variant)
                comps = []
                for k in made[attr]:
                    if I.getattr_(k, "condition") is not I.getattr_(control, "condition"):
                        continue
                    acts = list(call(k, "actions"))
                    if len(acts) == 1 and call(acts[0], "target")[0] is tgt and call(acts[0], "target")[1] == "status":
                        comps.append((k, acts[0]))
                fn_ = vfn if attr == "setting" else pfn
                if branch_rule is not None:
                    if control._cls.name != "Rule" or not comps:
                        continue
                    in_else = any(a is action for a in I.getattr_(control, "_else_actions"))
                    seen_key = (id(control), id(tgt))
                    nth = taken.get(seen_key, 0)              # the n-th action of this rule on this link goes with the n-th companion built for it
                    taken[seen_key] = nth + 1
                    k, act = comps[min(nth, len(comps) - 1)]
                    k_else = any(a is act for a in I.getattr_(k, "_else_actions"))
                    k_then = any(a is act for a in I.getattr_(k, "_then_actions"))
                    chk.expect((k_else and not k_then) if in_else else (k_then and not k_else), branch_rule,
                               "the status companion of %s (%s action) acts on the %s branch of the rule" % (what, "an ELSE" if in_else else "a THEN", "ELSE" if in_else else "THEN"), loc(fn_),
                               "EPANET changes setting and status together, on the branch that carries the action; a companion on the other branch activates the link when the "
                               "setting is NOT changed and leaves it closed when it is", expected="ELSE" if in_else else "THEN",
                               found="THEN" if k_then and not k_else else ("ELSE" if k_else and not k_then else "both / neither"))
                    continue
                chk.expect(len(comps) >= 1, rule, "%s has a companion status control on the same condition" % what, loc(fn_),
                           "without it a closed valve / pump stays closed although its setting / speed was changed", found="%d companion(s)" % len(comps))
                if not comps:
                    continue
                k, act = comps[0]
                want_status = LS.Active if attr == "setting" else LS.Open
                facts = [("class", k._cls.name, control._cls.name), ("priority", int(I.getattr_(k, "priority")), int(I.getattr_(control, "priority"))),
                         ("control type", str(I.getattr_(k, "epanet_control_type")), str(I.getattr_(control, "epanet_control_type"))),
                         ("status", I.getattr_(act, "_value"), want_status)]
                bad = ["%s %s (original: %s)" % (f, g, w) for f, g, w in facts if g != w]
                chk.expect(not bad, rule, "the companion of %s competes with the weight of its original (class, priority, control type) and sets %s" % (what, want_status.name),
                           loc(fn_), "conflicts between triggered controls are settled by priority among the controls the simulator runs: a companion with another priority "
                           "overrides (or yields to) controls its original would not", expected="same as the original", found=bad or None)
        if n < 8:
            raise ExtractError(rule + ": only %d setting / speed actions found in the fixture model" % n)
    except ProgramError as e:
        chk.bad(rule, "the simulator builds its valve / pump controls on the fixture model", loc(vfn), "the repository's own code (interpreted) raised", found="%s (line %s)" % (e, e.lineno))
    except Unsupported as e:
        raise ExtractError("%s: %s" % (rule, e))


def manager_rules(repo, chk, rule="R-C05-9"):
    """R-C05-9 (T3, bounded to the two fixture models).  WNTRSimulator._get_control_managers and _register_controls_with_observers interpreted on a bare simulator
    object holding the fixture model: (a) every control of the model is filed under exactly the managers its control type names (pre-solve: presolve and
    pre-and-postsolve; post-solve: postsolve and pre-and-postsolve; rules; feasibility) -- a control filed nowhere is never checked, one filed in the wrong phase is
    checked against the wrong state; (b) no manager holds a control of a type it is not meant for, and the managers together hold as many controls of each type as the
    model and the four builders of internal controls supply; (c) every action of every filed control is observed by the change tracker (the re-solve loop of R-C05-1
    relies on the tracker hearing of every change)."""
    from ..concrete import Instance, ProgramError, Unsupported
    from .c13 import model_world, build_fixture_model
    gm = repo.func(CORE, "WNTRSimulator._get_control_managers")
    ro = repo.func(CORE, "WNTRSimulator._register_controls_with_observers")
    chk.fn(gm, ro)
    ALLOWED = {"_presolve_controls": {"presolve", "pre_and_postsolve"}, "_postsolve_controls": {"postsolve", "pre_and_postsolve"}, "_rules": {"rule"},
               "_feasibility_controls": {"feasibility"}}
    for variant in ("A", "B"):
        tagv = "" if variant == "A" else " [fixture variant %s]" % variant
        world = model_world(repo)
        I = world.interp
        call = lambda o, m, *a, **k: I.call(I.getattr_(o, m), list(a), k)
        try:
            wn = build_fixture_model(repo, world, variant)
            sim = fixture_simulator(world, wn)

            class _SourceChecker(object):
                _sa_mock = True

                def should_valve_be_opened(self, valve):
                    return False

                def register_control(self, control):
                    pass
            I.raw_setattr(sim, "_valve_source_checker", _SourceChecker())
            I.getattr_(sim, "_get_control_managers")()
            I.getattr_(sim, "_register_controls_with_observers")()
            kind = lambda c: str(I.getattr_(c, "epanet_control_type")).split(".")[-1]
            held = {m: list(I.iterate(I.getattr_(I.getattr_(sim, m), "_controls"))) for m in ALLOWED}
            # (a) the model's own controls
            for cname, control in list(call(wn, "controls")):
                k = kind(control)
                want = sorted(m for m, ok in ALLOWED.items() if k in ok)
                got = sorted(m for m, cs in held.items() if any(c is control for c in cs))
                chk.expect(got == want and bool(want), rule, "control %r (%s) of the model is filed under the managers of its type%s" % (cname, k, tagv), loc(gm),
                           "a control filed nowhere is never checked; one filed in the wrong phase is checked against the wrong state", expected=want, found=got)
            # (b) nothing misfiled, nothing lost among the internal controls
            supplied = [c for _n, c in list(call(wn, "controls"))]
            for getter in ("_get_all_tank_controls", "_get_cv_controls", "_get_pump_controls", "_get_valve_controls"):
                supplied += list(I.iterate(I.getattr_(sim, getter)()))
            for m, ok in ALLOWED.items():
                wrong = sorted({kind(c) for c in held[m]} - ok)
                n_want = sum(1 for c in supplied if kind(c) in ok)
                chk.expect(not wrong and len(held[m]) == n_want, rule, "%s holds the %s controls the model and the builders of internal controls supply, and only those%s" % (
                    m, " / ".join(sorted(ok)), tagv), loc(gm), expected="%d control(s) of type %s" % (n_want, sorted(ok)), found="%d held, foreign types %s" % (len(held[m]), wrong))
            # (c) the change tracker observes every action of every filed control
            tracker = I.getattr_(sim, "_change_tracker")
            observed = list(I.getattr_(tracker, "_actions").keys())
            missing = []
            for m, cs in held.items():
                for c in cs:
                    for a in call(c, "actions"):
                        if not any(a is o for o in observed):
                            missing.append("%s in %s" % (str(c)[:60], m))
            chk.expect(not missing, rule, "the change tracker observes every action of every control the simulator checks%s" % tagv, loc(ro),
                       "changes_made() decides whether a step is re-solved: an action the tracker does not observe changes the network without a re-solve",
                       expected="all %d controls observed" % sum(len(v) for v in held.values()), found=missing[:4] or None)
        except ProgramError as e:
            chk.bad(rule, "the simulator files its controls on the fixture model%s" % tagv, loc(gm), "the repository's own code (interpreted) raised", found="%s (line %s)" % (e, e.lineno))
        except Unsupported as e:
            raise ExtractError("%s: %s" % (rule, e))
    chk.floor(rule, 40)


def run(repo, chk):
    rs = repo.func(CORE, "WNTRSimulator.run_sim")
    chk.fn(rs)
    g = CFG(rs)
    heads = [h for n, h in g.loop_heads.items() if isinstance(n, ast.While)]
    if len(heads) != 1:
        raise AnchorError("run_sim: expected one while loop")
    head = heads[0]
    rs_defs = _name_defs(rs)
    post = g.calling("_run_postsolve_controls")
    store = g.calling("store_results_in_network")
    saves = g.calling("save_results")
    solves = g.calling("_solver_helper")
    upd = [u for u in g.calling("update_network_previous_values") if u in g.reachable(head)]

    def is_time_advance(node, d):
        # self._wn.sim_time += dt   or   self._wn.sim_time = self._wn.sim_time + dt
        if isinstance(node, ast.AugAssign) and isinstance(node.op, ast.Add) and isinstance(node.target, ast.Attribute) and node.target.attr == "sim_time":
            return True
        if isinstance(node, ast.Assign) and len(node.targets) == 1 and isinstance(node.targets[0], ast.Attribute) and node.targets[0].attr == "sim_time" \
                and isinstance(node.value, ast.BinOp) and isinstance(node.value.op, ast.Add):
            tt = unparse(node.targets[0])
            return tt in (unparse(node.value.left), unparse(node.value.right))
        return False
    adv = g.nodes_where(is_time_advance)

    # the change test: the branch decided by change_tracker.changes_made(...); the call may be evaluated in the test itself or hoisted into
    # a temporary with a single definition (then T_eval is the statement that evaluates it, T the branch)
    def changes_call(expr):
        return [c for c in ast.walk(expr) if isinstance(c, ast.Call) and last_attr(c) == "changes_made"]
    cands = []
    for t in g.nodes_where(lambda node, d: d["kind"] == "test"):
        cc = changes_call(_expand(rs, g.node_ast(t), _defs=rs_defs))
        if cc:
            cands.append((t, cc[0]))
    if len(cands) > 1:
        cands = [c for c in cands if any(const(a) == "graph" for a in list(c[1].args) + [k.value for k in c[1].keywords])] or cands
    if not (post and store and saves and solves and upd and adv and len(cands) == 1):
        raise AnchorError("run_sim anchors missing")
    T, T_call = cands[0]
    T_eval = T
    if not changes_call(g.node_ast(T)):
        ev_nodes = g.nodes_where(lambda node, d: d["kind"] == "stmt" and isinstance(node, (ast.Assign, ast.AnnAssign)) and bool(changes_call(node)))
        if len(ev_nodes) != 1:
            raise AnchorError("run_sim: evaluation of the change test not found")
        T_eval = ev_nodes[0]
    # which outcome of the branch means "something changed"
    _a, T_pol = _atom(_expand(rs, g.node_ast(T), _defs=rs_defs))
    if isinstance(_a, ast.BoolOp) or not changes_call(_a):
        cj = [(a, p) for a, p in _conjuncts(_expand(rs, g.node_ast(T), _defs=rs_defs)) if changes_call(a)]
        if len(cj) != 1:
            raise ExtractError("run_sim: change test is not a plain truth test of changes_made(): %s" % unparse(g.node_ast(T)))
        _a, T_pol = cj[0]
    if isinstance(_a, ast.Compare):
        # len(changes) > 0 style tests are not produced by changes_made(); keep to the boolean protocol
        raise ExtractError("run_sim: change test compares the result of changes_made(): %s" % unparse(g.node_ast(T)))

    # ---------------------------------------------------------------- R-C05-1 re-solve discipline
    with chk.part("R-C05-1 re-solve discipline"):
        for tgt_name, tgts in (("save_results", saves), ("update_network_previous_values", upd), ("the time advance", adv)):
            w = g.can_reach_avoiding(post[0], tgts, [T], drop_back=True)
            chk.expect(w is None, "R-C05-1", "%s is reached only after the post-solve change test" % tgt_name, loc(rs), found=g.path_text(w) if w else None)
            st = g.succ_on(T, T_pol)
            w = g.can_reach_avoiding(st[0], tgts, [], drop_back=True) if st else None
            chk.expect(bool(st) and w is None, "R-C05-1", "when a post-solve control changed something, %s is not reached in this iteration" % tgt_name, loc(rs, g.node_ast(T)),
                       "no step may be accepted while a post-solve control still wants to change a link", found=g.path_text(w) if w else None)
        st = g.succ_on(T, T_pol)
        umc = g.calling("update_model_for_controls")

        # the trial counter: a local that every re-solve path increments and that some test compares (the bound)
        def incremented(node):
            if isinstance(node, ast.AugAssign) and isinstance(node.op, ast.Add) and isinstance(node.target, ast.Name):
                return node.target.id
            if isinstance(node, ast.Assign) and len(node.targets) == 1 and isinstance(node.targets[0], ast.Name) and isinstance(node.value, ast.BinOp) \
                    and isinstance(node.value.op, ast.Add) and node.targets[0].id in (unparse(node.value.left), unparse(node.value.right)):
                return node.targets[0].id
            return None
        counters = {}
        for i in g.nodes_where(lambda node, d: d["kind"] == "stmt" and incremented(node) is not None):
            counters.setdefault(incremented(g.node_ast(i)), []).append(i)
        compared = set()
        for t in g.nodes_where(lambda node, d: d["kind"] == "test"):
            for c in ast.walk(g.node_ast(t)):
                if isinstance(c, ast.Compare):
                    compared |= {x.id for x in ast.walk(c) if isinstance(x, ast.Name)}
        tinc, tinc_name = [], None
        for v, nodes in sorted(counters.items()):
            if v in compared and st and g.can_reach_avoiding(st[0], [head], nodes, drop_back=False) is None:
                tinc, tinc_name = nodes, v
                break
        if not tinc:
            # report against the counter candidates that exist (so that the witness path is shown)
            for v, nodes in sorted(counters.items()):
                if v in compared:
                    tinc, tinc_name = nodes, v

        # the flag that suppresses the pre-solve phase (next time step + pre-solve controls) of the next iteration: the local whose truth
        # value guards the pre-solve call; on the re-solve path it must be given the value that skips that phase
        pre = g.calling("_compute_next_timestep_and_run_presolve_controls_and_rules")
        def flag_sets(name, value):
            return g.nodes_where(lambda node, d: isinstance(node, ast.Assign) and any(isinstance(t_, ast.Name) and t_.id == name for t_ in node.targets)
                                 and isinstance(const(node.value), bool) and const(node.value) is value)
        flag, flags = None, []
        if pre:
            s_ = g.node_ast(pre[0])
            child, p_ = s_, parent(s_)
            while p_ is not None and p_ is not rs:
                if isinstance(p_, ast.If):
                    for a, pol in _conjuncts(p_.test, True if child in p_.body else False):
                        if isinstance(a, ast.Name) and rs_defs.get(a.id) is not None and all(isinstance(const(x), bool) for x in rs_defs[a.id]):
                            flags.append((a.id, not pol))          # the value that SKIPS the pre-solve phase
                child, p_ = p_, parent(p_)
            # several boolean locals may guard the call (first_step ...): the flag is the one the re-solve path sets
            good = [f for f in flags if st and flag_sets(*f) and g.can_reach_avoiding(st[0], [head], flag_sets(*f), drop_back=False) is None]
            flag = (good or flags or [None])[0]
        if flag is None:
            # the pre-solve call is not where it used to be: fall back on the protocol of such a flag -- a boolean local that some test reads,
            # that every re-solve path sets to one value and that the accepting path (no change) sets to the other value
            no_change = g.succ_on(T, not T_pol)
            for v in sorted(k for k, d_ in rs_defs.items() if d_ is not None and all(isinstance(const(x), bool) for x in d_)):
                for val in (True, False):
                    if st and flag_sets(v, val) and g.can_reach_avoiding(st[0], [head], flag_sets(v, val), drop_back=False) is None and no_change and \
                            any(x in g.reachable(no_change[0], g.view(drop_back=True)) for x in flag_sets(v, not val)):
                        flag = (v, val)
        if flag is None:
            raise AnchorError("run_sim: the flag guarding the pre-solve phase not found")
        res_true = flag_sets(flag[0], flag[1])
        for nm, via in (("update_model_for_controls", umc), ("trial += 1", tinc), ("resolve = True", res_true)):
            w = g.can_reach_avoiding(st[0], [head], via, drop_back=False) if st else None
            chk.expect(w is None and bool(via), "R-C05-1", "the re-solve path passes `%s` before solving again" % nm, loc(rs, g.node_ast(T)), found=g.path_text(w) if w else None)
        ref = [a for a in T_call.args[:1]] + [k.value for k in T_call.keywords if k.arg == "ref_point"]
        recv = T_call.func.value if isinstance(T_call.func, ast.Attribute) else None
        chk.expect(len(ref) == 1 and const(ref[0]) == "graph" and recv is not None and unparse(recv) == "self._change_tracker", "R-C05-1",
                   "the change test asks the change tracker for changes since the last solve (reference point 'graph')", loc(rs, g.node_ast(T)), found=unparse(T_call))
        w = g.can_reach_avoiding(solves[0], post, store, drop_back=True)
        chk.expect(w is None, "R-C05-1", "post-solve controls are evaluated on the solution stored in the network", loc(rs), found=g.path_text(w) if w else None)
        w = g.can_reach_avoiding(store[0], [T_eval], post, drop_back=True)
        w2 = g.can_reach_avoiding(T_eval, post, [T], drop_back=True) if T_eval != T else None
        chk.expect(w is None and w2 is None, "R-C05-1", "the change test follows the post-solve controls", loc(rs), found=g.path_text(w or w2) if (w or w2) else None)
        # the 'graph' reference point is reset when the graph is updated (so that T means: changed since the last solve)
        uig = repo.func(CORE, "WNTRSimulator._update_internal_graph")
        resets = []
        for o in _live(_sx().run(uig)):
            resets.append(any(cal.endswith(".reset_reference_point") and cal.startswith("self._change_tracker") and ("'graph'" in a or kw.get("key") == "'graph'")
                              for cal, a, kw, lp, i in _call_events(o) if lp is None))
        chk.expect(bool(resets) and all(resets), "R-C05-1", "_update_internal_graph consumes and resets the 'graph' reference point", loc(uig))
        w = g.can_reach_avoiding(st[0], [head], g.calling("_update_internal_graph"), drop_back=False) if st else None
        chk.expect(w is None, "R-C05-1", "the re-solve path resets the reference point (via _update_internal_graph) before solving again", loc(rs), found=g.path_text(w) if w else None)
        ps = repo.func(CORE, "WNTRSimulator._run_postsolve_controls")
        chk.fn(ps)
        okps = []
        for o in _live(_sx().run(ps)):
            lv, ls = _loop_vars(o), _loop_sources(ps, o)
            hit = False
            for cal, a, kw, lp, i in _call_events(o):
                if cal.endswith(".run_control_action") and lp is not None and lp in lv and "self._postsolve_controls.check()" in ls[lp][0]:
                    tv = lv[lp]
                    recv_ = cal[:-len(".run_control_action")]
                    if ls[lp][1]:
                        hit = hit or (len(tv) == 1 and recv_ == tv[0])          # the loop runs over the controls themselves
                    else:
                        hit = hit or (len(tv) >= 2 and recv_ == tv[0]) or (len(tv) == 1 and recv_ == tv[0] + "[0]")
            okps.append(hit)
        chk.expect(bool(okps) and all(okps) and _loops_run_to_the_end(ps), "R-C05-1", "_run_postsolve_controls runs every post-solve control whose condition holds", loc(ps))
        chk.floor("R-C05-1", 14)

    # ---------------------------------------------------------------- R-C05-2 action plumbing
    with chk.part("R-C05-2 action plumbing"):
        cai = repo.func(CTRL, "ControlAction.__init__")
        chk.fn(cai)
        mapping = {}
        for attr in ("status", "setting", "leak_status", "base_speed", "elevation"):
            make, _log = _concrete(repo, CTRL, lambda name, n, ev: True if name == "hasattr" else NotImplemented)
            me = Obj("self", {}, cls="ControlAction")
            ev = make({"self": me, "target_obj": Obj("t", {}), "attribute": attr, "value": 1}, owner="ControlAction")
            body = [s for s in cai.body if not (isinstance(s, ast.Expr) and isinstance(s.value, ast.Call) and "super" in unparse(s.value))]
            r = _run_concrete("ControlAction.__init__", lambda: ev.run(body))
            mapping[attr] = _nm(me.attrs.get("_private_attribute")) if not (isinstance(r, tuple) and r and r[0] == "raises") else r
        want = {"status": "_user_status", "setting": "_setting", "leak_status": "_leak_status"}
        for k, v in want.items():
            chk.expect(mapping.get(k) == v, "R-C05-2", "ControlAction(%s) writes the run-time field %s" % (k, v), loc(cai),
                       "a control must act on the field that the status property / constraint builders read, never on the definition (initial_*) fields", expected=v, found=mapping.get(k))
        chk.sample({"rule": "R-C05-2", "ControlAction private attribute map": mapping})

        def returns(fn):
            outs = _live(_sx().run(fn))
            return sorted({_t(o.ret) for o in outs})

        # running an action, by evaluation on a link with two subscribed observers: when the observers are told, the run-time field already
        # holds the commanded value, nothing else on the link was touched, and every observer is told once
        rca = repo.func(CTRL, "ControlAction.run_control_action")
        okr, found = _action_run_facts(repo, "ControlAction", {"_attribute": "status", "_private_attribute": "_user_status"}, "_user_status")
        chk.expect(okr, "R-C05-2", "ControlAction.run_control_action = setattr(target, private attribute, value) then notify()", loc(rca), found=found)
        tg = repo.func(CTRL, "ControlAction.target")
        okr, found = _action_target_facts(repo, "ControlAction", {"_attribute": "status", "_private_attribute": "_user_status"})
        chk.expect(okr, "R-C05-2", "ControlAction.target() reports the PUBLIC attribute", loc(tg), found=found)
        ica = repo.func(CTRL, "_InternalControlAction.run_control_action")
        okr, found = _action_run_facts(repo, "_InternalControlAction", {"_internal_attr": "_internal_status", "_property_attr": "status"}, "_internal_status")
        chk.expect(okr, "R-C05-2", "_InternalControlAction writes the internal attribute and notifies", loc(ica), found=found)
        itg = repo.func(CTRL, "_InternalControlAction.target")
        okr, found = _action_target_facts(repo, "_InternalControlAction", {"_internal_attr": "_internal_status", "_property_attr": "status"})
        chk.expect(okr, "R-C05-2", "_InternalControlAction.target() reports the public property to compare", loc(itg), found=found)

        # the change tracker: for every reference point, target in `changed` <=> current public value differs from the value at the reference point
        upf = repo.func(CTRL, "ControlChangeTracker.update")
        okt, seen = _tracker_update_facts(repo, upf)
        chk.expect(okt, "R-C05-2", "the change tracker compares the current PUBLIC value with the value at the reference point (a change back is not a change)", loc(upf), found=seen)
        notify = repo.func(CTRL, "Subject.notify")
        told = []
        subj = Obj("the subject", {"_observers": [Obj("o%d" % i, {"update": (lambda sub, i=i: told.append(("o%d" % i, _nm(sub))))}) for i in (1, 2, 3)]}, cls="Subject")
        make, _log = _concrete(repo, CTRL)
        _run_concrete("Subject.notify", lambda: make({notify.args.args[0].arg: subj}, owner="Subject").run(notify.body))
        chk.expect(told == [("o%d" % i, "the subject") for i in (1, 2, 3)], "R-C05-2", "notify() informs every subscribed observer", loc(notify), found=told)

        # a control is due when its condition evaluates true; running it runs the then-actions
        icar = repo.func(CTRL, "Rule.is_control_action_required")
        okd, due = _control_due_facts(repo, icar)
        chk.expect(okd, "R-C05-2", "a control is due exactly when its condition evaluates true", loc(icar), found=due)
        rrca = repo.func(CTRL, "Rule.run_control_action")
        ran = []
        acts = {k: [Obj(k + str(i), {"run_control_action": (lambda k=k, i=i: ran.append(k + str(i)))}, cls="ControlAction") for i in (1, 2)] for k in ("then", "else")}
        me = Obj("the control", {"_which": "then", "_then_actions": acts["then"], "_else_actions": acts["else"]}, cls="Rule")
        make, _log = _concrete(repo, CTRL)
        r = _run_concrete("Rule.run_control_action", lambda: make({rrca.args.args[0].arg: me}, owner="Rule").run(rrca.body))
        chk.expect(ran == ["then1", "then2"], "R-C05-2", "running a control runs its then-actions", loc(rrca), found=r if isinstance(r, tuple) else ran)
        chk.floor("R-C05-2", 11)

    # ---------------------------------------------------------------- R-C05-3 conditions
    with chk.part("R-C05-3 conditions"):
        ve = repo.func(CTRL, "ValueCondition.evaluate")
        chk.fn(ve)
        okv, rets = _value_condition_facts(repo, ve)
        chk.expect(okv, "R-C05-3", "ValueCondition.evaluate applies the stored relation to (current attribute value, threshold)", loc(ve), found=rets)
        # Comparison members carry the matching numpy function
        cmp_cls = repo.cls(CTRL, "Comparison")
        tbl = {}
        for n in cmp_cls.body:
            if isinstance(n, ast.Assign) and isinstance(n.value, ast.Tuple) and len(n.value.elts) == 2:
                tbl[n.targets[0].id] = unparse(n.value.elts[1])
        wantc = {"gt": "np.greater", "ge": "np.greater_equal", "lt": "np.less", "le": "np.less_equal", "eq": "np.equal", "ne": "np.not_equal"}
        chk.expect(tbl == wantc, "R-C05-3", "Comparison members carry the matching comparison function", loc(CTRL, cmp_cls), expected=wantc, found=tbl)
        pf = repo.func(CTRL, "Comparison.parse")

        def parse(x):
            make, _log = _concrete(repo, CTRL)
            ev = make({"cls": _Opq("cls"), "func": x}, owner="Comparison")
            return _nm(_run_concrete("Comparison.parse", lambda: ev.run(pf.body)))
        wantp = {"np.equal": "cls.eq", "np.not_equal": "cls.ne", "np.greater": "cls.gt", "np.less": "cls.lt", "np.greater_equal": "cls.ge", "np.less_equal": "cls.le"}
        pairs = {k: parse(Obj(k, {}, cls="numpy.ufunc")) for k in wantp}
        chk.expect(all(pairs.get(k) == v for k, v in wantp.items()), "R-C05-3", "Comparison.parse maps each function / keyword list to its own member", loc(pf), expected=wantp, found=pairs)
        # keyword lists: above/after -> gt ; below/before -> lt
        for kw, member in (("'above'", "cls.gt"), ("'below'", "cls.lt"), ("'>='", "cls.ge"), ("'<='", "cls.le")):
            got = parse(kw.strip("'"))
            chk.expect(got == member, "R-C05-3", "Comparison.parse: keyword %s means %s" % (kw, member), loc(pf), found=got)

        rcl = repo.func(IO, "_read_control_line")
        chk.fn(rcl)
        opmap, attrs = {}, []
        for word in ("ABOVE", "BELOW"):
            for ntype, cls_ in (("Junction", "Junction"), ("Tank", "Tank")):
                got = _read_conditional_control(repo, rcl, word, ntype)
                opmap.setdefault(word, set()).add(got["oper"])
                attrs.append((got["source"], got["attr"]))
        opmap = {k: (sorted(v)[0] if len(v) == 1 else sorted(v)) for k, v in opmap.items()}
        chk.expect(opmap == {"ABOVE": "np.greater", "BELOW": "np.less"}, "R-C05-3", "INP simple controls: ABOVE = greater than, BELOW = less than", loc(rcl), found=opmap)
        attrs = sorted(set(attrs))
        chk.expect(attrs == [("node", "level"), ("node", "pressure")], "R-C05-3", "INP simple controls compare junction pressure / tank level of the named node", loc(rcl), found=attrs)
        ccf = repo.func(CTRL, "Control._conditional_control")
        okc, seen = _conditional_control_facts(repo, ccf)
        chk.expect(okc, "R-C05-3", "Control._conditional_control builds ValueCondition(obj, attr, operation, threshold) with the given action", loc(ccf), found=seen)
        vn = repo.func(CTRL, "ValueCondition.__new__")
        newtab = {}
        for scls in ("Tank", "Junction", "Reservoir"):
            for sattr in ("level", "pressure", "head", "demand"):
                make, _log = _concrete(repo, CTRL, lambda name, n, ev: (Obj("instance", {}, cls=_nm(ev.ev(n.args[0]))) if name == "object.__new__" and len(n.args) == 1 else NotImplemented))
                ev = make({"cls": _Opq("ValueCondition"), "source_obj": Obj("src", {}, cls=scls), "source_attr": sattr, "relation": _Opq("rel"), "threshold": 1.0}, owner="ValueCondition")
                r = _run_concrete("ValueCondition.__new__", lambda: ev.run(vn.body))
                newtab[(scls, sattr)] = r.cls if isinstance(r, Obj) else _nm(r)
        wantn = {k: ("TankLevelCondition" if k[0] == "Tank" and k[1] in ("level", "pressure", "head") else "ValueCondition") for k in newtab}
        chk.expect(newtab == wantn, "R-C05-3", "a ValueCondition on a tank's level/pressure/head is a TankLevelCondition (partial steps)", loc(vn),
                   found={"%s.%s" % k: v for k, v in newtab.items() if wantn[k] != v})
        chk.floor("R-C05-3", 10)

    # ---------------------------------------------------------------- R-C05-5 the solve phase of a simple control follows its CURRENT condition
    with chk.part("R-C05-5 the solve phase of a simple control follows its CURRENT condition"):
        ctl_cls = repo.cls(CTRL, "Control")
        rule_cls = repo.cls(CTRL, "Rule")
        own = {n.name: n for n in ctl_cls.body if isinstance(n, ast.FunctionDef)}
        inherited = {n.name: n for n in rule_cls.body if isinstance(n, ast.FunctionDef)}
        setters = []
        for nm, fn in list(inherited.items()) + list(own.items()):
            if any(isinstance(a, ast.Attribute) and isinstance(a.ctx, ast.Store) and a.attr == "_condition" and unparse(a.value) == "self" for a in walk(fn)):
                setters.append(nm)
        cond_classes = ["TankLevelCondition", "TimeOfDayCondition", "SimTimeCondition", "ValueCondition", "RelativeCondition", "OrCondition", "AndCondition", "FunctionCondition"]
        want_type = {"TankLevelCondition": "_ControlType.pre_and_postsolve", "TimeOfDayCondition": "_ControlType.presolve", "SimTimeCondition": "_ControlType.presolve"}

        def control_type_after(meth, fn, ccls):
            """_control_type of a Control object after Control.<meth>(condition of class ccls), starting from a stale type"""
            make, _log = _concrete(repo, CTRL, lambda name, n, ev: (None if name.startswith("logger.") or name.startswith("warnings.") else NotImplemented))
            me = Obj("self", {"_control_type": _Opq("<type of the previous condition>"), "_condition": Obj("old", {}, cls="ValueCondition")}, cls="Control")
            cond = Obj("condition", {"_relation": _Opq("Comparison.gt")}, cls=ccls)
            env = {"self": me}
            params = [a.arg for a in fn.args.args][1:]
            if not params:
                raise ExtractError("Control.%s takes no condition" % meth)
            for p, d in zip(params[len(params) - len(fn.args.defaults):], fn.args.defaults):
                env[p] = _Opq(unparse(d))
            env[params[0]] = cond
            for p in params[1:]:
                env.setdefault(p, _Opq(p))
            body = fn.body
            if meth == "__init__":
                # the base-class constructor (conditions, actions, priority, name) does not decide the control type of a Control: what counts is
                # what Control.__init__ leaves in _control_type
                body = [s for s in body if not (isinstance(s, ast.Expr) and isinstance(s.value, ast.Call) and isinstance(s.value.func, ast.Attribute)
                                                and s.value.func.attr == "__init__" and "super" in unparse(s.value.func.value))]
            ev = make(env, owner="Control" if meth in own else "Rule")
            _run_concrete("Control.%s" % meth, lambda: ev.run(body))
            return _nm(me.attrs.get("_control_type")), _nm(me.attrs.get("_condition"))
        for nm in sorted(set(setters)):
            if nm == "__init__":
                continue
            eff = own.get(nm) or inherited.get(nm)        # the method a Control object actually runs
            got = {c: control_type_after(nm, eff, c) for c in ("TankLevelCondition", "SimTimeCondition", "ValueCondition")}
            okm = all(got[c][0] == want_type.get(c, "_ControlType.postsolve") and got[c][1] == "condition" for c in got)
            chk.expect(okm, "R-C05-5", "Control.%s re-derives the control type when it replaces the condition" % nm, loc(CTRL, eff),
                       "the simulator files a control under pre-solve / post-solve by _control_type, fixed from the first condition: a control whose condition was replaced by a "
                       "tank-level condition is never checked before the solve and overshoots its threshold by a whole step", expected="self._control_type = f(condition)",
                       found=("inherited from Rule without touching _control_type: " if nm not in own else "") + str({c: v[0] for c, v in got.items()}))
        ci_ = own.get("__init__")
        if ci_ is None:
            raise AnchorError("Control.__init__ vanished")
        table = {c: control_type_after("__init__", ci_, c)[0] for c in cond_classes}
        wantt = {c: want_type.get(c, "_ControlType.postsolve") for c in cond_classes}
        chk.expect(table == wantt, "R-C05-5", "tank-level conditions are pre-and-post-solve, time conditions pre-solve, everything else post-solve", loc(CTRL, ci_),
                   expected=wantt, found=table)
        chk.floor("R-C05-5", 2)

    # ---------------------------------------------------------------- R-C05-9 every control is filed under the managers of its type and observed by the tracker
    with chk.part("R-C05-9 every control is filed under the managers of its type and observed by the tracker"):
        manager_rules(repo, chk)

    # ---------------------------------------------------------------- R-C05-8 companion status controls of setting / speed controls
    with chk.part("R-C05-8 companion status controls of setting / speed controls"):
        companion_rules(repo, chk)
        chk.floor("R-C05-8", 30)

    # ---------------------------------------------------------------- R-C05-6 the partial step of a tank-level condition does not depend on who asked first
    with chk.part("R-C05-6 the partial step of a tank-level condition does not depend on who asked first"):
        tle = repo.func(CTRL, "TankLevelCondition.evaluate")
        chk.fn(tle)
        def by_definitions():
            """fallback when the method cannot be evaluated: the same fact read off the definitions (def-use)"""
            tdefs = _name_defs(tle)
            # the threshold-crossing guard: the tests under which a non-zero partial step is stored; among their forced atoms the NEGATED
            # two-argument call is `not relation(<value at the last accepted step>, threshold)`
            guards = []
            for n in walk(tle):
                if isinstance(n, ast.Assign) and any(isinstance(t_, ast.Attribute) and t_.attr == "_backtrack" and unparse(t_.value) == "self" for t_ in n.targets) \
                        and const(n.value, "?") != 0:
                    child, p_ = n, parent(n)
                    while p_ is not None and p_ is not tle:
                        if isinstance(p_, ast.If):
                            for a, pol in _conjuncts(_expand(tle, p_.test, _defs=tdefs), child in p_.body):
                                if not pol and isinstance(a, ast.Call) and len(a.args) == 2:
                                    guards.append((a, p_))
                        child, p_ = p_, parent(p_)
            if not guards:
                raise ExtractError("TankLevelCondition.evaluate: threshold-crossing test not found")
            own_state = {a.attr for a in walk(tle) if isinstance(a, ast.Attribute) and isinstance(a.ctx, ast.Store) and unparse(a.value) == "self"}

            def reaches(expr, leaf, seen=()):
                """does the value derive (through the definitions of the locals it mentions, on some path) from a node satisfying leaf()?"""
                for x in ast.walk(expr):
                    if leaf(x):
                        return True
                    if isinstance(x, ast.Name) and x.id not in seen:
                        for a in walk(tle):
                            if isinstance(a, ast.Assign) and any(isinstance(t_, ast.Name) and t_.id == x.id for t_ in a.targets) and reaches(a.value, leaf, seen + (x.id,)):
                                return True
                return False

            def tank_leaf(x):
                return (isinstance(x, ast.Attribute) and x.attr == "_prev_head") or (isinstance(x, ast.Constant) and x.value == "_prev_head")

            def memo_leaf(x):
                return isinstance(x, ast.Attribute) and unparse(x.value) == "self" and x.attr in own_state
            okp, found = True, []
            for call_, if_ in guards:
                prev_expr, _d = _strip_round(call_.args[0])
                okp = okp and (reaches(prev_expr, tank_leaf) or not reaches(prev_expr, memo_leaf))
                if unparse(prev_expr) not in found:
                    found.append(unparse(prev_expr))
            return okp, found, guards[0][1]
        detail6 = ("evaluate() sets self._last_value on every call: the second control that shares the condition object (the simulator itself pairs every setting control with a "
                   "status control on the SAME condition) sees 'already beyond the threshold' and gets no partial step")
        what6 = "the 'value at the last accepted step' a tank-level condition compares with comes from the tank, not from a field evaluate() overwrites"
        try:
            okp, found = _tank_condition_facts(repo, tle)
            chk.expect(okp, "R-C05-6", what6, loc(tle), detail6, expected="two evaluations within one step give the same positive partial step", found=found)
        except Unknown as e:
            chk.note("R-C05-6 decided on the definitions (evaluation not possible: %s)" % e)
            okp, found, where = by_definitions()
            chk.expect(okp, "R-C05-6", what6, loc(tle, where), detail6, expected="derived from tank._prev_head", found=found)

    # ---------------------------------------------------------------- R-C05-7 conditions see what is reported
    with chk.part("R-C05-7 conditions see what is reported"):
        # "condition true on the REPORTED state": the pressure a junction condition reads (node.pressure -> _pressure, written by
        # store_results_in_network) is the pressure save_results reports, on the isolated and on the connected path
        import sympy as sp
        sfn = repo.func(HYD, "store_results_in_network")
        svf = repo.func(HYD, "save_results")
        chk.fn(sfn, svf)
        pp = repo.func(BASE, "Node.pressure")
        chk.expect(returns(pp) == ["self._pressure"], "R-C05-7", "a junction's pressure property returns the stored _pressure", loc(pp))
        hp = repo.func(BASE, "Node.head")
        chk.expect(returns(hp) == ["self._head"], "R-C05-7", "a junction's head property returns the stored _head", loc(hp))

        def junction_var(o, fn):
            for e in o.events:
                if e[0] == "loop" and "junctions()" in e[2]:
                    tv = [x.strip() for x in e[1].strip("()").split(",")]
                    return e[2], tv[-1]
            raise ExtractError("%s: junction loop not found" % fn.name)

        def canon(expr, var):
            expr = sp.sympify(expr)
            return expr.subs({s: sp.Symbol("J." + s.name[len(var) + 1:], real=True) for s in expr.free_symbols if s.name.startswith(var + ".")})
        done = set()
        for iso in (True, False):
            which = "isolated" if iso else "connected"
            ex = _sx(attrs=lambda base, attr, iso=iso: iso if attr == "_is_isolated" else NotImplemented)
            seen_p = head_v = None
            vals = set()
            for o in _live(ex.run(sfn)):
                ctx, var = junction_var(o, sfn)
                fin = {}
                for e in o.events:
                    if e[0] == "store" and len(e) > 4 and e[4] and e[4][-1] == ctx:
                        fin[e[1]] = e[2]
                p_, h_ = fin.get(var + "._pressure"), fin.get(var + "._head")
                if p_ is None or h_ is None:
                    raise ExtractError("R-C05-7: pressure bookkeeping not extractable for the %s path" % which)
                try:
                    p_, h_ = canon(ex.S(p_), var), canon(ex.S(h_), var)
                except ExtractError:
                    raise ExtractError("R-C05-7: stored pressure / head of the %s path is not an arithmetic expression" % which)
                vals.add((p_, h_))
            if len(vals) != 1:
                raise ExtractError("R-C05-7: stored pressure of the %s path is not unique (%d variants)" % (which, len(vals)))
            seen_p, head_v = list(vals)[0]
            ex2 = _sx(attrs=lambda base, attr, iso=iso: iso if attr == "_is_isolated" else NotImplemented)
            reps = set()
            for o in _live(ex2.run(svf)):
                ctx, var = junction_var(o, svf)
                app = [e for e in o.events if e[0] == "call" and e[2][0] == "?.append" and "'pressure'" in e[1][:_matching_open(e[1])] and len(e) > 4 and e[4] and e[4][-1] == ctx]
                if len(app) != 1:
                    raise ExtractError("R-C05-7: %d reports of the pressure of a %s junction" % (len(app), which))
                try:
                    reps.add(canon(ex2.S(app[0][2][1][0]), var))
                except ExtractError:
                    raise ExtractError("R-C05-7: reported pressure expression not recognised: %s" % _t(app[0][2][1][0]))
            if len(reps) != 1:
                raise ExtractError("R-C05-7: reported pressure of the %s path is not unique" % which)
            sub = {sp.Symbol("J._head", real=True): head_v, sp.Symbol("J.head", real=True): head_v}
            seen_v = sp.simplify(seen_p.subs(sub))
            rep_v = sp.simplify(list(reps)[0].subs(sub))
            done.add(which)
            chk.expect(sp.simplify(seen_v - rep_v) == 0, "R-C05-7", "the pressure a condition reads for a %s junction is the pressure that is reported" % which, loc(sfn),
                       "save_results reports %s for a %s junction while conditions read node.pressure = %s: a pressure control can be true on the reported state and false "
                       "inside the simulator" % (rep_v, which, seen_v), expected=str(rep_v), found=str(seen_v))
        if done != {"isolated", "connected"}:
            raise ExtractError("R-C05-7: isolated / connected paths of store_results_in_network not both found (%s)" % sorted(done))

    # ---------------------------------------------------------------- R-C05-4 firing order of triggered controls
    with chk.part("R-C05-4 firing order of triggered controls"):
        # tank-level / pressure controls are pre-and-post-solve: among the controls triggered in one step the scheduler must take the one
        # whose threshold is crossed FIRST (largest partial step) and let priority decide only among equal instants; post-solve lists are
        # priority ordered (shared implementation with R-C04-3)
        _firing_order_rules(repo, chk, "R-C05-4")


# ====================================================================================================================
# fact extractors used above
# ====================================================================================================================
class _Renamed(object):
    """a Check seen through a rule-id mapping: obligations of the mapped rules are recorded under the new id, all others are dropped"""

    def __init__(self, chk, mapping):
        self._chk, self._map = chk, mapping

    def _r(self, rule):
        return self._map.get(rule)

    def ok(self, rule, *a, **k):
        return self._chk.ok(self._r(rule), *a, **k) if self._r(rule) else True

    def bad(self, rule, *a, **k):
        return self._chk.bad(self._r(rule), *a, **k) if self._r(rule) else False

    def expect(self, cond, rule, *a, **k):
        return self._chk.expect(cond, self._r(rule), *a, **k) if self._r(rule) else bool(cond)

    def floor(self, rule, *a, **k):
        if self._r(rule):
            self._chk.floor(self._r(rule), *a, **k)

    def sample(self, obj):
        if isinstance(obj, dict) and obj.get("rule") in self._map:
            obj = dict(obj, rule=self._map[obj["rule"]])
            self._chk.sample(obj)

    def __getattr__(self, name):
        return getattr(self._chk, name)


def _firing_order_rules(repo, chk, rule):
    """the ordering obligations of the control scheduler are decided in c04 (R-C04-3); here they are reported under `rule`"""
    from . import c04
    if hasattr(c04, "sort_order_rules"):
        return c04.sort_order_rules(repo, chk, rule)
    if hasattr(c04, "scheduler_rules"):
        return c04.scheduler_rules(repo, _Renamed(chk, {"R-C04-3": rule}))
    raise AnchorError("c04 offers no implementation of the firing-order rules")


def _numpy_hook(name, n, ev):
    """the few numeric library functions the evaluated methods use"""
    import math
    last = name.split(".")[-1]
    if name.split(".")[0] in ("np", "numpy", "math") or name == "round":
        a = [ev.ev(x) for x in n.args]
        kw = {k.arg: ev.ev(k.value) for k in n.keywords if k.arg}
        if last in ("round", "around", "round_") and a and isinstance(a[0], (int, float)) and not isinstance(a[0], bool):
            d = a[1] if len(a) > 1 else kw.get("decimals", kw.get("ndigits", 0))
            return round(float(a[0]), d)
        if last == "isnan" and len(a) == 1 and isinstance(a[0], (int, float)):
            return math.isnan(a[0])
        if last in ("floor", "ceil") and len(a) == 1 and isinstance(a[0], (int, float)):
            return getattr(math, last)(a[0])
    return NotImplemented


def _value_condition_facts(repo, ve):
    """ValueCondition.evaluate, by evaluation with a recording `greater than` as the stored relation: the result is
    bool(relation(round(current value, 10), round(threshold, 10))) -- arguments in this order, both rounded to 10 decimals."""
    rows, ok = [], True
    for cur, thr in ((3.00000000004, 1.5), (1.0, 1.5), (1.5, 1.49999999996), (-2.0, 0.0)):
        asked = []

        def greater(a, b):
            asked.append((a, b))
            return a > b
        me = Obj("the condition", {"_source_obj": Obj("junction", {"pressure": cur, "head": -99.0, "level": -98.0}, cls="Junction"), "_source_attr": "pressure",
                                   "_threshold": thr, "_relation": Obj("Comparison.gt", {"func": greater}), "_backtrack": 0}, cls="ValueCondition")
        make, _log = _concrete(repo, CTRL, _numpy_hook)
        r = _run_concrete("ValueCondition.evaluate", lambda: make({ve.args.args[0].arg: me}, owner="ValueCondition").run(ve.body))
        want = (round(cur, 10) > round(thr, 10), [(round(cur, 10), round(thr, 10))])
        rows.append({"value": cur, "threshold": thr, "returns": _nm(r), "relation asked for": list(asked)})
        ok = ok and isinstance(r, bool) and (r, asked) == want
    return ok, rows


def _tank_condition_facts(repo, tle):
    """TankLevelCondition.evaluate, by evaluation: a filling tank crossed its threshold during the step (level 4.9 m at the last accepted
    step, 5.3 m now, threshold 5.0 m, relation >=).  Two controls share the condition object, so it is evaluated twice before the step
    is accepted: both evaluations must report the condition as true with the same positive partial step.  -> (ok, rows); raises Unknown
    when the method uses something the evaluator does not model."""
    import math
    import operator
    rel = {nm: _Fn("Comparison." + nm, f) for nm, f in (("ge", operator.ge), ("le", operator.le), ("gt", operator.gt), ("lt", operator.lt),
                                                        ("eq", operator.eq), ("ne", operator.ne))}
    for nm in rel:
        rel[nm].attrs["func"] = rel[nm].fn
    names = {"Comparison." + nm: o for nm, o in rel.items()}
    names.update({"math.pi": math.pi, "np.pi": math.pi, "np.greater": _Fn("np.greater", operator.gt), "np.less": _Fn("np.less", operator.lt)})
    rows, ok = [], True
    for attr, now, last, thr in (("level", 5.3, 4.9, 5.0), ("head", 15.3, 14.9, 15.0), ("pressure", 5.3, 4.9, 5.0)):
        tank = Obj("tank", {"level": 5.3, "head": 15.3, "pressure": 5.3, "elevation": 10.0, "_prev_head": 14.9, "diameter": 2.0, "vol_curve": None,
                            "demand": 0.05, "_head": 15.3, "name": "T1"}, cls="Tank")
        me = Obj("the condition", {"_source_obj": tank, "_source_attr": attr, "_threshold": thr, "_relation": rel["ge"], "_last_value": last, "_backtrack": 0},
                 cls="TankLevelCondition")
        want = int(math.floor((now - thr) * math.pi / 4.0 * 2.0 ** 2 / 0.05))
        got = []
        for k in (1, 2):
            make, _log = _concrete(repo, CTRL, _numpy_hook, names=names)
            try:
                r = make({tle.args.args[0].arg: me}, owner="TankLevelCondition").run(tle.body)
            except Raised as e:
                r = ("raises", unparse(e.node).split("\n")[0][:80])
            got.append((_nm(r), _nm(me.attrs.get("_backtrack"))))
        rows.append({"tank %s" % attr: now, "at the last accepted step": last, "threshold": thr, "1st evaluation (state, partial step)": got[0],
                     "2nd evaluation": got[1], "expected partial step": want})
        # (the size of the partial step is C06's business; here: the same positive step for whoever asks)
        ok = ok and got[0] == got[1] and got[0][0] is True and isinstance(got[0][1], int) and got[0][1] > 0
    return ok, rows


def _action_objects(cls_name, fields, told):
    link = Obj("link", {"status": 0, "_user_status": 0, "_internal_status": 0, "_setting": 0.0, "initial_status": 0}, cls="Pipe")
    obs = [Obj(nm, {"update": (lambda sub, nm=nm: told.append((nm, _nm(sub), dict(link.attrs))))}, cls="Observer") for nm in ("o1", "o2")]
    me = Obj("the action", dict(fields, _target_obj=link, _value=7, _observers=obs), cls=cls_name)
    return link, me


def _action_run_facts(repo, cls_name, fields, written):
    told = []
    link, me = _action_objects(cls_name, fields, told)
    before = dict(link.attrs)
    fn = repo.func(CTRL, cls_name + ".run_control_action")
    make, _log = _concrete(repo, CTRL)
    r = _run_concrete(cls_name + ".run_control_action", lambda: make({fn.args.args[0].arg: me}, owner=cls_name).run(fn.body))
    want_attrs = dict(before)
    want_attrs[written] = 7
    seen = {"link after the action": dict(link.attrs), "observers told (observer, subject, link at that moment)": told}
    if isinstance(r, tuple) and r and r[0] == "raises":
        return False, r
    return link.attrs == want_attrs and told == [(nm, "the action", want_attrs) for nm in ("o1", "o2")], seen


def _action_target_facts(repo, cls_name, fields):
    link, me = _action_objects(cls_name, fields, [])
    fn = repo.func(CTRL, cls_name + ".target")
    make, _log = _concrete(repo, CTRL)
    r = _run_concrete(cls_name + ".target", lambda: make({fn.args.args[0].arg: me}, owner=cls_name).run(fn.body))
    return isinstance(r, (tuple, list)) and len(r) == 2 and r[0] is link and r[1] == "status", _nm(r)


def _control_due_facts(repo, icar):
    """Rule.is_control_action_required, by evaluation: condition true -> (True, the condition's backtrack) with the then-branch selected, with or
    without else-actions; condition false and no else-actions -> not due; condition false never selects the then-branch."""
    rows, ok = [], True
    for val in (True, False):
        for els in (None, [], ["an else action"]):
            cond = Obj("the condition", {"evaluate": (lambda val=val: val), "backtrack": 42, "_backtrack": 42}, cls="ValueCondition")
            me = Obj("the control", {"_condition": cond, "_then_actions": ["a then action"], "_else_actions": els, "_which": None}, cls="Rule")
            make, _log = _concrete(repo, CTRL)
            r = _run_concrete("Rule.is_control_action_required", lambda: make({icar.args.args[0].arg: me}, owner="Rule").run(icar.body))
            which = me.attrs.get("_which")
            rows.append({"condition": val, "else actions": els, "returns": _nm(r), "branch": which})
            pair = isinstance(r, (tuple, list)) and len(r) == 2
            if val:
                ok = ok and pair and r[0] is True and r[1] == 42 and which == "then"
            else:
                ok = ok and pair and which != "then" and (r[0] is False if not els else True)
    return ok, rows


def _tracker_update_facts(repo, upf):
    """ControlChangeTracker.update(subject), by evaluation: a tracker with three reference points -- at `same` the target had the value it
    has now (and is still listed as changed from an earlier action), at `other` and `other2` it had different values (and is not listed) --
    is told that the action ran.  Afterwards the target must be listed exactly at the reference points whose value differs from the current
    PUBLIC value (a change back is not a change; every reference point is treated)."""
    link = Obj("link", {"status": 1, "_user_status": 0, "_internal_status": 0}, cls="Pipe")
    T = (link, "status")
    subject = Obj("action", {"target": (lambda: T), "_target_obj": link, "_attribute": "status", "_private_attribute": "_user_status"}, cls="ControlAction")
    changed = {"same": {T}, "other": set(), "other2": set()}
    me = Obj("tracker", {"_previous_values": {"same": {T: 1}, "other": {T: 0}, "other2": {T: 2}}, "_changed": changed, "_actions": {subject: []}}, cls="ControlChangeTracker")
    make, _log = _concrete(repo, CTRL)
    params = [a.arg for a in upf.args.args]
    if len(params) != 2:
        raise ExtractError("ControlChangeTracker.update: expected (self, subject)")
    r = _run_concrete("ControlChangeTracker.update", lambda: make({params[0]: me, params[1]: subject}, owner="ControlChangeTracker").run(upf.body))
    now = me.attrs.get("_changed")
    seen = {k: (T in v) for k, v in now.items()} if isinstance(now, dict) and all(isinstance(v, (set, list)) for v in now.values()) else _nm(now)
    if isinstance(r, tuple) and r and r[0] == "raises":
        return False, r
    return seen == {"same": False, "other": True, "other2": True}, seen


def _read_conditional_control(repo, rcl, word, node_type):
    """evaluate the INP reader on `LINK P1 OPEN IF NODE N1 <word> 12.5` with N1 a node of the given type: the arguments the reader passes to
    Control._conditional_control -> {'source': 'node'|..., 'attr': ..., 'oper': ...}"""
    made = []

    def hook(name, n, ev):
        if name.endswith("Control._conditional_control") or name == "_conditional_control":
            a = [ev.ev(x) for x in n.args]
            kw = {k.arg: ev.ev(k.value) for k in n.keywords if k.arg}
            names = ["source_obj", "source_attr", "operation", "threshold", "control_action", "name"]
            b = dict(zip(names, a))
            b.update(kw)
            made.append(b)
            return Obj("control", {}, cls="Control")
        if name.endswith("get_node") and len(n.args) == 1:
            return Obj("node", {"node_type": node_type, "name": ev.ev(n.args[0]), "elevation": 0.0}, cls=node_type)
        if name.endswith("get_link") and len(n.args) == 1:
            return Obj("link", {"link_type": "Pipe", "name": ev.ev(n.args[0])}, cls="Pipe")
        if name.endswith("ControlAction"):
            return Obj("action", {}, cls="ControlAction")
        if name == "to_si" and len(n.args) > 1 and not isinstance(n.args[1], ast.Starred):
            return ev.ev(n.args[1])          # the unit conversion does not matter here: the threshold keeps its number
        return NotImplemented
    make, log = _concrete(repo, IO, hook)
    line = "LINK P1 OPEN IF NODE N1 %s 12.5" % word
    env = {"line": line, "wn": _Opq("wn"), "flow_units": _Opq("flow_units"), "control_name": "c1"}
    params = [a.arg for a in rcl.args.args]
    for p in params:
        env.setdefault(p, _Opq(p))
    ev = make(env)
    r = _run_concrete("_read_control_line(%r)" % line, lambda: ev.run(rcl.body))
    if len(made) != 1:
        return {"source": None, "attr": None, "oper": "no conditional control built (%s)" % (_nm(r),)}
    b = made[0]
    return {"source": _nm(b.get("source_obj")), "attr": _nm(b.get("source_attr")), "oper": _nm(b.get("operation"))}


def _conditional_control_facts(repo, ccf):
    """Control._conditional_control(source_obj, source_attr, operation, threshold, control_action): the condition is
    ValueCondition(source_obj, source_attr, operation, threshold) and the control is Control(that condition, control_action)."""
    made = {}

    def bind(fn_qual, n, ev):
        fn = repo.func(CTRL, fn_qual)
        names = [a.arg for a in fn.args.args][1:]
        b = dict(zip(names, [ev.ev(x) for x in n.args]))
        b.update({k.arg: ev.ev(k.value) for k in n.keywords if k.arg})
        return b

    def hook(name, n, ev):
        if name == "ValueCondition":
            made.setdefault("cond", []).append(bind("ValueCondition.__init__", n, ev))
            return Obj("the condition", {}, cls="ValueCondition")
        if name in ("Control", "cls"):
            made.setdefault("ctl", []).append(bind("Control.__init__", n, ev))
            return Obj("the control", {}, cls="Control")
        return NotImplemented
    make, log = _concrete(repo, CTRL, hook)
    env = {a.arg: _Opq(a.arg) for a in ccf.args.args}
    for a, d in zip(ccf.args.args[len(ccf.args.args) - len(ccf.args.defaults):], ccf.args.defaults):
        env[a.arg] = const(d)
    r = _run_concrete("Control._conditional_control", lambda: make(env, owner="Control").run(ccf.body))
    seen = {"condition": [{k: _nm(v) for k, v in b.items()} for b in made.get("cond", [])], "control": [{k: _nm(v) for k, v in b.items()} for b in made.get("ctl", [])], "returns": _nm(r)}
    ok = len(made.get("cond", [])) == 1 and len(made.get("ctl", [])) == 1 and _nm(r) == "the control"
    if ok:
        c, k = made["cond"][0], made["ctl"][0]
        ok = (_nm(c.get("source_obj")), _nm(c.get("source_attr")), _nm(c.get("relation")), _nm(c.get("threshold"))) == ("source_obj", "source_attr", "operation", "threshold") \
            and _nm(k.get("condition")) == "the condition" and _nm(k.get("then_action")) == "control_action"
    return ok, seen


WITNESSES = [
    dict(name="tank-level-controls-not-checked-before-the-solve", file=CORE, old="            if control.epanet_control_type in {_ControlType.presolve, _ControlType.pre_and_postsolve}:\n",
         new="            if control.epanet_control_type in {_ControlType.presolve}:\n", rule="R-C05-9"),
    dict(name="check-valve-controls-never-filed", file=CORE, old="        for c in self._get_cv_controls():\n            categorize_control(c)\n", new="", rule="R-C05-9"),
    dict(name="rules-not-observed-by-the-change-tracker", file=CORE, old="        for mgr in [self._presolve_controls, self._postsolve_controls, self._rules, self._feasibility_controls]:\n",
         new="        for mgr in [self._presolve_controls, self._postsolve_controls, self._feasibility_controls]:\n", rule="R-C05-9"),
    dict(name="managers-filled-from-a-type-table-preserving", file=CORE,
         old="            if control.epanet_control_type in {_ControlType.presolve, _ControlType.pre_and_postsolve}:\n                self._presolve_controls.register_control(control)\n"
             "            if control.epanet_control_type in {_ControlType.postsolve, _ControlType.pre_and_postsolve}:\n                self._postsolve_controls.register_control(control)\n",
         new="            kind = control.epanet_control_type\n            if kind == _ControlType.presolve or kind == _ControlType.pre_and_postsolve:\n                self._presolve_controls.register_control(control)\n"
             "            if kind in (_ControlType.pre_and_postsolve, _ControlType.postsolve):\n                self._postsolve_controls.register_control(control)\n", silent=True),
    dict(name="valve-companion-loses-the-priority", file=CORE, old="                        new_control = type(control)(condition, new_action, priority=control.priority)\n                    valve_controls.append(new_control)",
         new="                        new_control = type(control)(condition, new_action)\n                    valve_controls.append(new_control)", rule="R-C05-8"),
    dict(name="pump-companion-is-always-a-simple-control", file=CORE, old="                        new_control = type(control)(condition, new_action, priority=control.priority)\n                    pump_controls.append(new_control)",
         new="                        new_control = Control(condition, new_action, priority=control.priority)\n                    pump_controls.append(new_control)", rule="R-C05-8"),
    dict(name="valve-companion-priority-through-a-temporary-preserving", file=CORE, old="                        new_control = type(control)(condition, new_action, priority=control.priority)\n                    valve_controls.append(new_control)",
         new="                        prio = control.priority\n                        new_control = type(control)(condition, new_action, priority=prio)\n                    valve_controls.append(new_control)", silent=True),
    # (the isolated head is the elevation since the datum fix, so `node._head - node.elevation` is 0 again: that edit is now the silent variant below)
    dict(name="isolated-junction-pressure-is-its-head", file="wntr/sim/hydraulics.py", old="            node._pressure = 0\n", new="            node._pressure = node._head\n", rule="R-C05-7"),
    dict(name="isolated-junction-pressure-not-reported-as-zero", file="wntr/sim/hydraulics.py", old="            node_res['pressure'][name].append(0.0)\n        else:", new="            node_res['pressure'][name].append(node.head)\n        else:", rule="R-C05-7"),
    dict(name="isolated-junction-pressure-head-minus-elevation", file="wntr/sim/hydraulics.py", old="            node._pressure = 0\n", new="            node._pressure = node._head - node.elevation\n", silent=True),
    dict(name="update-condition-keeps-old-type", file=CTRL, old="        super().update_condition(condition)\n        self._control_type = self._control_type_of(condition)\n", new="        super().update_condition(condition)\n", rule="R-C05-5"),
    dict(name="tank-condition-compares-with-own-memo", file=CTRL, old="        if state and not relation(np.round(last_value,10), np.round(thresh_value,10)):", new="        if state and not relation(np.round(self._last_value,10), np.round(thresh_value,10)):", rule="R-C05-6"),
    dict(name="presolve-priority-before-time", file=CORE, old="        presolve_controls_to_run.sort(key=lambda i: i[1], reverse=True)\n", new="        presolve_controls_to_run.sort(key=lambda i: (i[0]._priority, -i[1]))\n", rule="R-C05-4"),
    dict(name="save-before-change-test", file=CORE, old="            self._run_postsolve_controls()\n            self._run_feasibility_controls()\n            if self._change_tracker.changes_made(ref_point='graph'):",
         new="            self._run_postsolve_controls()\n            self._run_feasibility_controls()\n            if isinstance(self._report_timestep, str):\n                wntr.sim.hydraulics.save_results(self._wn, node_res, link_res)\n            if self._change_tracker.changes_made(ref_point='graph'):", rule="R-C05-1"),
    dict(name="no-continue", file=CORE, old="                    break\n                continue\n", new="                    break\n", rule="R-C05-1"),
    dict(name="action-writes-initial-status", file=CTRL, old="        if attribute == 'status':\n            self._private_attribute = '_user_status'", new="        if attribute == 'status':\n            self._private_attribute = '_initial_status'", rule="R-C05-2"),
    dict(name="no-notify", file=CTRL, old="        setattr(self._target_obj, self._private_attribute, self._value)\n        self.notify()", new="        setattr(self._target_obj, self._private_attribute, self._value)", rule="R-C05-2"),
    dict(name="above-below-swapped", file=IO, old="            if current[6] == 'ABOVE':\n                oper = np.greater\n            elif current[6] == 'BELOW':\n                oper = np.less", new="            if current[6] == 'ABOVE':\n                oper = np.less\n            elif current[6] == 'BELOW':\n                oper = np.greater", rule="R-C05-3"),
    dict(name="postsolve-before-store", file=CORE, old="            wntr.sim.hydraulics.store_results_in_network(self._wn, self._model)\n\n            diagnostics.run(last_step='solve and store results in network', next_step='postsolve controls')\n\n            self._run_postsolve_controls()",
         new="            diagnostics.run(last_step='solve and store results in network', next_step='postsolve controls')\n\n            self._run_postsolve_controls()\n            wntr.sim.hydraulics.store_results_in_network(self._wn, self._model)", rule="R-C05-1"),
    # ---- further mutations: every rewritten rule keeps its teeth
    dict(name='target-reports-private-attribute', file=CTRL, old='        return self._target_obj, self._attribute\n', new='        return self._target_obj, self._private_attribute\n', rule='R-C05-2'),
    dict(name='tracker-add-discard-swapped', file=CTRL, old='                self._changed[ref_point].discard(obj_attr)\n            else:\n                self._changed[ref_point].add(obj_attr)\n', new='                self._changed[ref_point].add(obj_attr)\n            else:\n                self._changed[ref_point].discard(obj_attr)\n', rule='R-C05-2'),
    dict(name='rule-runs-else-actions-when-true', file=CTRL, old="        if self._which == 'then':\n            for control_action in self._then_actions:\n", new="        if self._which == 'then':\n            for control_action in self._else_actions:\n", rule='R-C05-2'),
    dict(name='control-due-when-false', file=CTRL, old="        if do:\n            self._which = 'then'\n            return True, back\n", new="        if not do:\n            self._which = 'then'\n            return True, back\n", rule='R-C05-2'),
    dict(name='internal-action-writes-property', file=CTRL, old='        setattr(self._target_obj, self._internal_attr, self._value)\n', new='        setattr(self._target_obj, self._property_attr, self._value)\n', rule='R-C05-2'),
    dict(name='notify-first-observer-only', file=CTRL, old='        for o in self._observers:\n            o.update(self)\n', new='        for o in self._observers:\n            o.update(self)\n            return\n', rule='R-C05-2'),
    dict(name='value-condition-arguments-swapped', file=CTRL, old="        state = relation(np.round(cur_value,10), np.round(thresh_value,10))\n        return bool(state)\n\n\n@DocInheritor({'requires', 'evaluate', 'name'})\nclass FunctionCondition", new="        state = relation(np.round(thresh_value,10), np.round(cur_value,10))\n        return bool(state)\n\n\n@DocInheritor({'requires', 'evaluate', 'name'})\nclass FunctionCondition", rule='R-C05-3'),
    dict(name='parse-above-means-less', file=CTRL, old="'-gt', 'above', 'after',", new="'-gt', 'after',", also=[("'-lt', 'below', 'before',", "'-lt', 'above', 'below', 'before',")], rule='R-C05-3'),
    dict(name='conditional-control-ignores-operation', file=CTRL, old='relation=operation,\n                                   threshold=threshold)', new='relation=Comparison.gt,\n                                   threshold=threshold)', rule='R-C05-3'),
    dict(name='tank-pressure-condition-not-partial', file=CTRL, old="source_attr in {'level',  'pressure', 'head'}:\n            return object.__new__(TankLevelCondition)", new="source_attr in {'level', 'head'}:\n            return object.__new__(TankLevelCondition)", rule='R-C05-3'),
    dict(name='reader-tank-control-on-head', file=IO, old="control_obj = Control._conditional_control(node, 'level', oper,", new="control_obj = Control._conditional_control(node, 'head', oper,", rule='R-C05-3'),
    dict(name='resolve-flag-not-set', file=CORE, old="            if self._change_tracker.changes_made(ref_point='graph'):\n                resolve = True\n", new="            if self._change_tracker.changes_made(ref_point='graph'):\n", rule='R-C05-1'),
    dict(name='trial-not-counted', file=CORE, old='                trial += 1\n                if trial > max_trials:', new='                if trial > max_trials:', rule='R-C05-1'),
    dict(name='change-test-on-model-reference', file=CORE, old="            if self._change_tracker.changes_made(ref_point='graph'):\n                resolve = True\n", new="            if self._change_tracker.changes_made(ref_point='model'):\n                resolve = True\n", rule='R-C05-1'),
    dict(name='graph-reference-never-reset', file=CORE, old="        self._change_tracker.reset_reference_point(key='graph')\n", new='', rule='R-C05-1'),
    dict(name='postsolve-controls-only-when-logging', file=CORE, old="                logger.log(1, '\\tactivating control {0}'.format(control))\n            control.run_control_action()\n", new="                logger.log(1, '\\tactivating control {0}'.format(control))\n                control.run_control_action()\n", rule='R-C05-1'),
    dict(name='change-test-before-postsolve-controls', file=CORE, old="            self._run_postsolve_controls()\n            self._run_feasibility_controls()\n            if self._change_tracker.changes_made(ref_point='graph'):\n", new="            changed = self._change_tracker.changes_made(ref_point='graph')\n            self._run_postsolve_controls()\n            self._run_feasibility_controls()\n            if changed:\n", rule='R-C05-1'),
    dict(name='accept-step-when-changed', file=CORE, old="            if self._change_tracker.changes_made(ref_point='graph'):\n                resolve = True\n", new="            if not self._change_tracker.changes_made(ref_point='graph'):\n                resolve = True\n", rule='R-C05-1'),
    dict(name='tank-level-controls-postsolve-only', file=CTRL, old='        if isinstance(condition, TankLevelCondition):\n            return _ControlType.pre_and_postsolve\n', new='        if isinstance(condition, TankLevelCondition):\n            return _ControlType.postsolve\n', rule='R-C05-5'),
    dict(name='connected-junction-reports-head', file=HYD, old="            node_res['pressure'][name].append(node.head - node.elevation)\n        node_res['leak_demand'][name].append(node.leak_demand)\n\n    for name, node in wn.tanks():", new="            node_res['pressure'][name].append(node.head)\n        node_res['leak_demand'][name].append(node.leak_demand)\n\n    for name, node in wn.tanks():", rule='R-C05-7'),
    # ---- behaviour-preserving rewrites of the CURRENT source (silent=True): the rules must stay quiet on them
    dict(name='action-map-as-lookup-table', file=CTRL, old="        self._private_attribute = attribute\n        if attribute == 'status':\n            self._private_attribute = '_user_status'\n        elif attribute == 'leak_status':\n            self._private_attribute = '_leak_status'\n        elif attribute == 'setting':\n            self._private_attribute = '_setting'\n", new="        self._private_attribute = {'status': '_user_status', 'leak_status': '_leak_status', 'setting': '_setting'}.get(attribute, attribute)\n", silent=True),
    dict(name='action-map-as-conditional-expression', file=CTRL, old="        self._private_attribute = attribute\n        if attribute == 'status':\n            self._private_attribute = '_user_status'\n        elif attribute == 'leak_status':\n            self._private_attribute = '_leak_status'\n        elif attribute == 'setting':\n            self._private_attribute = '_setting'\n", new="        private = '_user_status' if attribute == 'status' else ('_' + attribute if attribute in ('leak_status', 'setting') else attribute)\n        self._private_attribute = private\n", silent=True),
    dict(name='run-action-hoisted-locals', file=CTRL, old='        setattr(self._target_obj, self._private_attribute, self._value)\n        self.notify()', new='        target, field = self._target_obj, self._private_attribute\n        new_value = self._value\n        setattr(target, field, new_value)\n        self.notify()', silent=True),
    dict(name='target-via-temporary', file=CTRL, old='        return self._target_obj, self._attribute\n', new='        public = self._attribute\n        result = (self._target_obj, public)\n        return result\n', silent=True),
    dict(name='tracker-update-renamed-and-negated', file=CTRL, old='        obj_attr = subject.target()\n        val = getattr(*obj_attr)\n        for ref_point in self._previous_values.keys():\n            if val == self._previous_values[ref_point][obj_attr]:\n                self._changed[ref_point].discard(obj_attr)\n            else:\n                self._changed[ref_point].add(obj_attr)\n', new='        key = subject.target()\n        current = getattr(*key)\n        for point in self._previous_values.keys():\n            changed = self._changed[point]\n            if current != self._previous_values[point][key]:\n                changed.add(key)\n            else:\n                changed.discard(key)\n', silent=True),
    dict(name='tracker-update-unpacked-target', file=CTRL, old='        obj_attr = subject.target()\n        val = getattr(*obj_attr)\n        for ref_point in self._previous_values.keys():\n            if val == self._previous_values[ref_point][obj_attr]:\n                self._changed[ref_point].discard(obj_attr)\n            else:\n                self._changed[ref_point].add(obj_attr)\n', new='        obj, attr = subject.target()\n        val = getattr(obj, attr)\n        for ref_point in self._previous_values:\n            if val == self._previous_values[ref_point][(obj, attr)]:\n                self._changed[ref_point].discard((obj, attr))\n            else:\n                self._changed[ref_point].add((obj, attr))\n', silent=True),
    dict(name='notify-renamed-loop-variable', file=CTRL, old='        for o in self._observers:\n            o.update(self)\n', new='        for observer in self._observers:\n            observer.update(self)\n', silent=True),
    dict(name='control-due-early-returns', file=CTRL, old="        if do:\n            self._which = 'then'\n            return True, back\n        elif not do and self._else_actions is not None and len(self._else_actions) > 0:\n            self._which = 'else'\n            return True, back\n        else:\n            return False, None\n", new="        if do:\n            self._which = 'then'\n            return True, back\n        if self._else_actions is not None and len(self._else_actions) > 0:\n            self._which = 'else'\n            return True, back\n        return False, None\n", silent=True),
    dict(name='rule-run-single-loop', file=CTRL, old="        if self._which == 'then':\n            for control_action in self._then_actions:\n                control_action.run_control_action()\n        elif self._which == 'else':\n            for control_action in self._else_actions:\n                control_action.run_control_action()\n        else:\n            raise RuntimeError('control actions called even though if-then statement was False')\n", new="        if self._which == 'then':\n            actions_to_run = self._then_actions\n        elif self._which == 'else':\n            actions_to_run = self._else_actions\n        else:\n            raise RuntimeError('control actions called even though if-then statement was False')\n        for action in actions_to_run:\n            action.run_control_action()\n", silent=True),
    dict(name='rule-run-lookup-table', file=CTRL, old="        if self._which == 'then':\n            for control_action in self._then_actions:\n                control_action.run_control_action()\n        elif self._which == 'else':\n            for control_action in self._else_actions:\n                control_action.run_control_action()\n        else:\n            raise RuntimeError('control actions called even though if-then statement was False')\n", new="        branches = {'then': self._then_actions, 'else': self._else_actions}\n        if self._which not in branches:\n            raise RuntimeError('control actions called even though if-then statement was False')\n        for control_action in branches[self._which]:\n            control_action.run_control_action()\n", silent=True),
    dict(name='value-condition-conditional-expressions', file=CTRL, old='        cur_value = getattr(self._source_obj, self._source_attr)\n        thresh_value = self._threshold\n        relation = self._relation.func\n        if np.isnan(self._threshold):\n            relation = np.greater\n            thresh_value = 0.0\n        state = relation(np.round(cur_value,10), np.round(thresh_value,10))\n        return bool(state)\n', new='        no_threshold = np.isnan(self._threshold)\n        compare = np.greater if no_threshold else self._relation.func\n        limit = 0.0 if no_threshold else self._threshold\n        current = getattr(self._source_obj, self._source_attr)\n        return bool(compare(np.round(current, 10), np.round(limit, 10)))\n', silent=True),
    dict(name='parse-early-returns', file=CTRL, old='            return cls.eq\n        elif func in [np.not_equal,', new='            return cls.eq\n        if func in [np.not_equal,', also=[('            return cls.ne\n        elif func in [np.greater,', '            return cls.ne\n        if func in [np.greater,'), ('            return cls.gt\n        elif func in [np.less,', '            return cls.gt\n        if func in [np.less,')], silent=True),
    dict(name='reader-operator-lookup-table', file=IO, old='            if current[6] == \'ABOVE\':\n                oper = np.greater\n            elif current[6] == \'BELOW\':\n                oper = np.less\n            else:\n                raise RuntimeError("The following control is not recognized: " + line)\n', new='            operators = {\'ABOVE\': np.greater, \'BELOW\': np.less}\n            if current[6] not in operators:\n                raise RuntimeError("The following control is not recognized: " + line)\n            oper = operators[current[6]]\n', silent=True),
    dict(name='reader-operator-conditional-expression', file=IO, old='            if current[6] == \'ABOVE\':\n                oper = np.greater\n            elif current[6] == \'BELOW\':\n                oper = np.less\n            else:\n                raise RuntimeError("The following control is not recognized: " + line)\n', new='            keyword = current[6]\n            if keyword != \'ABOVE\' and keyword != \'BELOW\':\n                raise RuntimeError("The following control is not recognized: " + line)\n            oper = np.greater if keyword == \'ABOVE\' else np.less\n', silent=True),
    dict(name='conditional-control-positional', file=CTRL, old='        condition = ValueCondition(source_obj=source_obj, source_attr=source_attr, relation=operation,\n                                   threshold=threshold)\n        control = Control(condition=condition, then_action=control_action)\n        return control\n', new='        return Control(ValueCondition(source_obj, source_attr, operation, threshold), control_action)\n', silent=True),
    dict(name='value-condition-new-conditional-expression', file=CTRL, old="        if isinstance(source_obj, Tank) and source_attr in {'level',  'pressure', 'head'}:\n            return object.__new__(TankLevelCondition)\n        else:\n            return object.__new__(ValueCondition)\n", new="        on_tank_level = isinstance(source_obj, Tank) and source_attr in ('head', 'level', 'pressure')\n        return object.__new__(TankLevelCondition if on_tank_level else ValueCondition)\n", silent=True),
    dict(name='change-test-hoisted-positional', file=CORE, old="            if self._change_tracker.changes_made(ref_point='graph'):\n                resolve = True\n", new="            controls_changed_something = self._change_tracker.changes_made('graph')\n            if controls_changed_something:\n                resolve = True\n", silent=True),
    dict(name='trial-and-time-plain-assignment', file=CORE, old='                trial += 1\n', new='                trial = trial + 1\n', also=[('            self._wn.sim_time += self._hydraulic_timestep\n', '            self._wn.sim_time = self._wn.sim_time + self._hydraulic_timestep\n')], silent=True),
    dict(name='resolve-flag-renamed-and-compared', file=CORE, old='        resolve = False\n        # this is used', new='        solve_again = False\n        # this is used', also=[('            if not resolve:\n', '            if solve_again == False:\n'), ('            if not first_step and not resolve:\n', '            if not first_step and not solve_again:\n'), ('                resolve = True\n', '                solve_again = True\n'), ('            resolve = False\n            if not isinstance', '            solve_again = False\n            if not isinstance'), ('        trial = -1\n', '        attempt = -1\n'), ('                trial = 0\n', '                attempt = 0\n'), ('self._get_time(), trial, str(iter_count)', 'self._get_time(), attempt, str(iter_count)'), ('                trial += 1\n                if trial > max_trials:', '                attempt += 1\n                if attempt > max_trials:')], silent=True),
    dict(name='no-change-branch-first', file=CORE, old="            if self._change_tracker.changes_made(ref_point='graph'):\n                resolve = True\n", new="            if not self._change_tracker.changes_made(ref_point='graph'):\n                pass\n            else:\n                resolve = True\n", silent=True),
    dict(name='postsolve-loop-by-index', file=CORE, old="        for control, unused in postsolve_controls_to_run:\n            if logger.getEffectiveLevel() <= 1:\n                logger.log(1, '\\tactivating control {0}'.format(control))\n            control.run_control_action()\n", new="        for entry in postsolve_controls_to_run:\n            if logger.getEffectiveLevel() <= 1:\n                logger.log(1, '\\tactivating control {0}'.format(entry[0]))\n            entry[0].run_control_action()\n", silent=True),
    dict(name='graph-reference-reset-positional', file=CORE, old="        self._change_tracker.reset_reference_point(key='graph')\n", new="        tracker = self._change_tracker\n        tracker.reset_reference_point('graph')\n", silent=True),
    dict(name='control-type-early-returns', file=CTRL, old='            return _ControlType.pre_and_postsolve\n        elif isinstance(condition, (TimeOfDayCondition, SimTimeCondition)):\n            return _ControlType.presolve\n        else:\n            return _ControlType.postsolve\n', new='            return _ControlType.pre_and_postsolve\n        if isinstance(condition, (TimeOfDayCondition, SimTimeCondition)):\n            return _ControlType.presolve\n        return _ControlType.postsolve\n', silent=True),
    dict(name='control-type-inline-conditional-expression', file=CTRL, old='        if isinstance(condition, TankLevelCondition):\n            return _ControlType.pre_and_postsolve\n        elif isinstance(condition, (TimeOfDayCondition, SimTimeCondition)):\n            return _ControlType.presolve\n        else:\n            return _ControlType.postsolve\n', new='        timed = isinstance(condition, TimeOfDayCondition) or isinstance(condition, SimTimeCondition)\n        return (_ControlType.pre_and_postsolve if isinstance(condition, TankLevelCondition) else\n                _ControlType.presolve if timed else _ControlType.postsolve)\n', silent=True),
    dict(name='update-condition-type-first', file=CTRL, old='        super().update_condition(condition)\n        self._control_type = self._control_type_of(condition)\n', new='        self._control_type = Control._control_type_of(condition)\n        Rule.update_condition(self, condition)\n', silent=True),
    dict(name='tank-evaluate-renamed-locals-hoisted-guard', file=CTRL, old='        state = relation(np.round(cur_value,10), np.round(thresh_value,10))  # determine if the condition is satisfied\n', new='        satisfied = relation(np.round(cur_value,10), np.round(thresh_value,10))  # determine if the condition is satisfied\n', also=[('        if state and not relation(np.round(last_value,10), np.round(thresh_value,10)):', '        before = np.round(last_value, 10)\n        was_satisfied = relation(before, np.round(thresh_value,10))\n        if satisfied and was_satisfied == False:'), ('        self._last_value = cur_value  # update the last value\n        return bool(state)', '        self._last_value = cur_value  # update the last value\n        return bool(satisfied)')], silent=True),
    dict(name='report-pressure-conditional-expression', file=HYD, old="        if node._is_isolated:\n            node_res['pressure'][name].append(0.0)\n        else:\n            node_res['pressure'][name].append(node.head - node.elevation)\n", new="        pressure = 0.0 if node._is_isolated else node.head - node.elevation\n        node_res['pressure'][name].append(pressure)\n", silent=True),
    dict(name='store-head-hoisted-and-not-isolated-first', file=HYD, old='        if node._is_isolated:\n            # zero pressure: the head of a cut-off junction is its elevation (a head of 0 would be read as a\n            # real head by the status rules of check valves, pumps and tanks when the network lies below datum 0)\n            node._head = node.elevation\n            node._demand = 0\n            node._pressure = 0\n            node._leak_demand = 0\n        else:\n            node._head = m.head[name].value\n            node._pressure = m.head[name].value - node.elevation\n', new='        if node._is_isolated == False:\n            head = m.head[name].value\n            node._head = head\n            node._pressure = head - node.elevation\n        else:\n            node._head = node.elevation\n            node._demand = 0\n            node._pressure = 0\n            node._leak_demand = 0\n        if not node._is_isolated:\n', silent=True),
    dict(name='junction-loop-variable-renamed', file=HYD, old="    for name, node in wn.junctions():\n        node_res['head'][name].append(node.head)\n        node_res['demand'][name].append(node.demand)\n        if node._is_isolated:\n            node_res['pressure'][name].append(0.0)\n        else:\n            node_res['pressure'][name].append(node.head - node.elevation)\n        node_res['leak_demand'][name].append(node.leak_demand)\n", new="    for junction_name, junction in wn.junctions():\n        node_res['head'][junction_name].append(junction.head)\n        node_res['demand'][junction_name].append(junction.demand)\n        if junction._is_isolated:\n            node_res['pressure'][junction_name].append(0.0)\n        else:\n            node_res['pressure'][junction_name].append(junction.head - junction.elevation)\n        node_res['leak_demand'][junction_name].append(junction.leak_demand)\n", silent=True),
    dict(name='action-map-extracted-helper', file=CTRL, old="        self._private_attribute = attribute\n        if attribute == 'status':\n            self._private_attribute = '_user_status'\n        elif attribute == 'leak_status':\n            self._private_attribute = '_leak_status'\n        elif attribute == 'setting':\n            self._private_attribute = '_setting'\n\n    def requires(self):\n", new="        self._private_attribute = self._runtime_field(attribute)\n\n    @staticmethod\n    def _runtime_field(attribute):\n        if attribute == 'status':\n            return '_user_status'\n        if attribute in ('leak_status', 'setting'):\n            return '_' + attribute\n        return attribute\n\n    def requires(self):\n", silent=True),
    dict(name='reported-pressure-extracted-helper', file=HYD, old="        if node._is_isolated:\n            node_res['pressure'][name].append(0.0)\n        else:\n            node_res['pressure'][name].append(node.head - node.elevation)\n", new="        node_res['pressure'][name].append(_reported_junction_pressure(node))\n", also=[('def save_results(wn, node_res, link_res):\n', 'def _reported_junction_pressure(junction):\n    if junction._is_isolated:\n        return 0.0\n    return junction.head - junction.elevation\n\n\ndef save_results(wn, node_res, link_res):\n')], silent=True),
    dict(name='resolve-branch-extracted-helper', file=CORE, old="                resolve = True\n                self._update_internal_graph()\n                wntr.sim.hydraulics.update_model_for_controls(self._model, self._wn, self._model_updater, self._change_tracker)\n                diagnostics.run(last_step='postsolve controls and model updates', next_step='solve next trial')\n", new='                resolve = True\n                self._prepare_next_trial(diagnostics)\n', also=[('    def _initialize_name_id_maps(self):\n', "    def _prepare_next_trial(self, diagnostics):\n        self._update_internal_graph()\n        wntr.sim.hydraulics.update_model_for_controls(self._model, self._wn, self._model_updater, self._change_tracker)\n        diagnostics.run(last_step='postsolve controls and model updates', next_step='solve next trial')\n\n    def _initialize_name_id_maps(self):\n")], silent=True),
    dict(name='accept-step-extracted-helper', file=CORE, old='            wntr.sim.hydraulics.update_network_previous_values(self._wn)\n            first_step = False\n            self._wn.sim_time += self._hydraulic_timestep\n            overstep = float(self._wn.sim_time) % self._hydraulic_timestep\n            self._wn.sim_time -= overstep\n', new='            self._accept_step_and_advance()\n            first_step = False\n', also=[('    def _initialize_name_id_maps(self):\n', '    def _accept_step_and_advance(self):\n        wntr.sim.hydraulics.update_network_previous_values(self._wn)\n        self._wn.sim_time += self._hydraulic_timestep\n        overstep = float(self._wn.sim_time) % self._hydraulic_timestep\n        self._wn.sim_time -= overstep\n\n    def _initialize_name_id_maps(self):\n')], silent=True),
    dict(name='tracker-update-extracted-helper', file=CTRL, old='        for ref_point in self._previous_values.keys():\n            if val == self._previous_values[ref_point][obj_attr]:\n                self._changed[ref_point].discard(obj_attr)\n            else:\n                self._changed[ref_point].add(obj_attr)\n', new='        for ref_point in self._previous_values.keys():\n            self._record(ref_point, obj_attr, val)\n\n    def _record(self, ref_point, target, value):\n        if value == self._previous_values[ref_point][target]:\n            self._changed[ref_point].discard(target)\n        else:\n            self._changed[ref_point].add(target)\n', silent=True),
    dict(name='postsolve-loop-over-projection', file=CORE, old="        for control, unused in postsolve_controls_to_run:\n            if logger.getEffectiveLevel() <= 1:\n                logger.log(1, '\\tactivating control {0}'.format(control))\n            control.run_control_action()\n", new="        for control in [c for c, _ in postsolve_controls_to_run]:\n            if logger.getEffectiveLevel() <= 1:\n                logger.log(1, '\\tactivating control {0}'.format(control))\n            control.run_control_action()\n", silent=True),
    dict(name='notify-over-copy', file=CTRL, old='        for o in self._observers:\n            o.update(self)\n', new='        for o in list(self._observers):\n            o.update(self)\n', silent=True),
    dict(name='control-type-extracted-table', file=CTRL, old='        if isinstance(condition, TankLevelCondition):\n            return _ControlType.pre_and_postsolve\n        elif isinstance(condition, (TimeOfDayCondition, SimTimeCondition)):\n            return _ControlType.presolve\n        else:\n            return _ControlType.postsolve\n', new='        for classes, control_type in ((TankLevelCondition, _ControlType.pre_and_postsolve),\n                                      ((TimeOfDayCondition, SimTimeCondition), _ControlType.presolve)):\n            if isinstance(condition, classes):\n                return control_type\n        return _ControlType.postsolve\n', silent=True),
    dict(name='reader-conditional-control-extracted-helper', file=IO, old="            if node.node_type == 'Junction':\n                threshold = to_si(flow_units,\n                                  float(current[7]), HydParam.Pressure)# + node.elevation\n                control_obj = Control._conditional_control(node, 'pressure', oper, threshold, action_obj, control_name)\n            elif node.node_type == 'Tank':\n                threshold = to_si(flow_units, \n                                  float(current[7]), HydParam.HydraulicHead)# + node.elevation\n                control_obj = Control._conditional_control(node, 'level', oper, threshold, action_obj, control_name)\n", new="            attribute, param = {'Junction': ('pressure', HydParam.Pressure), 'Tank': ('level', HydParam.HydraulicHead)}.get(node.node_type, (None, None))\n            if attribute is not None:\n                threshold = to_si(flow_units, float(current[7]), param)\n                control_obj = Control._conditional_control(node, attribute, oper, threshold, action_obj, control_name)\n", silent=True),
    dict(name='tracker-first-reference-point-only', file=CTRL, old='                self._changed[ref_point].add(obj_attr)\n\n    def register_control(self, control):', new='                self._changed[ref_point].add(obj_attr)\n            break\n\n    def register_control(self, control):', rule='R-C05-2'),
    dict(name='tracker-compares-private-field', file=CTRL, old='        val = getattr(*obj_attr)\n', new='        val = getattr(subject._target_obj, subject._private_attribute)\n', rule='R-C05-2'),
    dict(name='value-condition-not-rounded', file=CTRL, old="        state = relation(np.round(cur_value,10), np.round(thresh_value,10))\n        return bool(state)\n\n\n@DocInheritor({'requires', 'evaluate', 'name'})\nclass FunctionCondition", new="        state = relation(cur_value, thresh_value)\n        return bool(state)\n\n\n@DocInheritor({'requires', 'evaluate', 'name'})\nclass FunctionCondition", rule='R-C05-3'),
    dict(name='action-notifies-before-writing', file=CTRL, old='        setattr(self._target_obj, self._private_attribute, self._value)\n        self.notify()', new='        self.notify()\n        setattr(self._target_obj, self._private_attribute, self._value)', rule='R-C05-2'),
    dict(name='tracker-update-over-items', file=CTRL, old='        val = getattr(*obj_attr)\n        for ref_point in self._previous_values.keys():\n            if val == self._previous_values[ref_point][obj_attr]:\n', new='        current_value = getattr(*obj_attr)\n        for ref_point, previous in self._previous_values.items():\n            if current_value == previous[obj_attr]:\n', silent=True),
    dict(name='control-due-explicit-bool-and-property-inlined', file=CTRL, old='        do = self._condition.evaluate()\n        back = self._condition.backtrack\n        if do:\n', new='        condition = self._condition\n        do = bool(condition.evaluate())\n        back = condition.backtrack\n        if do == True:\n', silent=True),
    dict(name='value-condition-builtin-round', file=CTRL, old="        state = relation(np.round(cur_value,10), np.round(thresh_value,10))\n        return bool(state)\n\n\n@DocInheritor({'requires', 'evaluate', 'name'})\nclass FunctionCondition", new="        digits = 10\n        return bool(relation(np.around(cur_value, decimals=digits), np.around(thresh_value, decimals=digits)))\n\n\n@DocInheritor({'requires', 'evaluate', 'name'})\nclass FunctionCondition", silent=True),
    dict(name='internal-action-hoisted-target', file=CTRL, old='        setattr(self._target_obj, self._internal_attr, self._value)\n        self.notify()', new='        target = self._target_obj\n        setattr(target, self._internal_attr, self._value)\n        self.notify()', silent=True),
    dict(name='accept-step-in-else-branch', file=CORE, old="                continue\n\n            diagnostics.run(last_step='postsolve controls and model updates', next_step='advance time')\n\n            logger.debug('no changes made by postsolve controls; moving to next timestep')\n\n            resolve = False\n            if not isinstance(self._report_timestep, str):  # same test as in _setup_sim_options (numpy integers are numbers too)\n                if self._wn.sim_time % self._report_timestep == 0:\n                    wntr.sim.hydraulics.save_results(self._wn, node_res, link_res)\n                    if len(results.time) > 0 and int(self._wn.sim_time) == results.time[-1]:\n                        if int(self._wn.sim_time) != self._wn.sim_time:\n                            raise RuntimeError('Time steps increments smaller than 1 second are forbidden.'+\n                                               ' Keep time steps as an integer number of seconds.')\n                        else:\n                            raise RuntimeError('Simulation already solved this timestep')\n                    results.time.append(int(self._wn.sim_time))\n            elif self._report_timestep.upper() == 'ALL':\n                wntr.sim.hydraulics.save_results(self._wn, node_res, link_res)\n                if len(results.time) > 0 and int(self._wn.sim_time) == results.time[-1]:\n                    raise RuntimeError('Simulation already solved this timestep')\n                results.time.append(int(self._wn.sim_time))\n            wntr.sim.hydraulics.update_network_previous_values(self._wn)\n            first_step = False\n            self._wn.sim_time += self._hydraulic_timestep\n            overstep = float(self._wn.sim_time) % self._hydraulic_timestep\n            self._wn.sim_time -= overstep\n\n            if self._wn.sim_time > self._wn.options.time.duration:\n                break\n", new="            else:\n                diagnostics.run(last_step='postsolve controls and model updates', next_step='advance time')\n\n                logger.debug('no changes made by postsolve controls; moving to next timestep')\n\n                resolve = False\n                if not isinstance(self._report_timestep, str):  # same test as in _setup_sim_options (numpy integers are numbers too)\n                    if self._wn.sim_time % self._report_timestep == 0:\n                        wntr.sim.hydraulics.save_results(self._wn, node_res, link_res)\n                        if len(results.time) > 0 and int(self._wn.sim_time) == results.time[-1]:\n                            if int(self._wn.sim_time) != self._wn.sim_time:\n                                raise RuntimeError('Time steps increments smaller than 1 second are forbidden.'+\n                                                   ' Keep time steps as an integer number of seconds.')\n                            else:\n                                raise RuntimeError('Simulation already solved this timestep')\n                        results.time.append(int(self._wn.sim_time))\n                elif self._report_timestep.upper() == 'ALL':\n                    wntr.sim.hydraulics.save_results(self._wn, node_res, link_res)\n                    if len(results.time) > 0 and int(self._wn.sim_time) == results.time[-1]:\n                        raise RuntimeError('Simulation already solved this timestep')\n                    results.time.append(int(self._wn.sim_time))\n                wntr.sim.hydraulics.update_network_previous_values(self._wn)\n                first_step = False\n                self._wn.sim_time += self._hydraulic_timestep\n                overstep = float(self._wn.sim_time) % self._hydraulic_timestep\n                self._wn.sim_time -= overstep\n\n                if self._wn.sim_time > self._wn.options.time.duration:\n                    break\n", silent=True),
]
