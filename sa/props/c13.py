"""C13 -- dictionary / JSON representations round-trip the model.

to_dict is generic (it walks dir(self)); from_dict is a hand-written list of keys.  The core rule (R-C13-1) derives, per element class,
the set of keys to_dict can emit from the class table (properties, setters, exclusion lists) and compares it with what the from_dict
branch of that class consumes and where each key lands.  The module has grown beyond that; in DESIGN 2b terms it mixes
* T1 table agreement read off the AST.  The CONSUMER side (from_dict, _read_control_line, add_* signatures) of R-C13-1, -1b, -2, -3b,
  -3c, -3d, -3e, -4, the LinkStatus half of -5 and all of -8 is AST / text pattern matching: literal-key reads on a loop variable,
  integer-literal subscripts on `.split()` locals, 'simple' / 'system' string constants, and the hard-coded source texts `current[6]`,
  `FlowUnits.SI`, `dict(self)`, `options.__init__(**d['options'])`, `LinkStatus[initial_status]`, `not isinstance(x, tuple)`;
* T2 path enumeration by TemplateExec (every path of a __str__ / explicit to_dict to string / dict templates with symbolic holes; no
  fixtures, no sympy): the emitting side of R-C13-1b, -3c, -3e, -3f;
* T3 finite evaluation on fixtures by concrete_evaluator / enum_evaluator (sa/peval + _shared._string_evaluator), bounded to them: the
  generic to_dict per attribute name (R-C13-1), _read_control_line on one line per kind token (-3a), Comparison.text and the
  mixing_model setter on every enum member (-3b, -5: exhaustive over that finite domain), 24 rule-action fixtures (-3g), one fixture
  dict per (class, key) for -6 and the single value 0.0 for -7.
R-C13-9 (T3, sa/concrete): the patterns / curves / sources sections of from_dict interpreted on one fixture dictionary per value of each object's small
emitted domain (incl. falsy values) against a recording mock model; R-C13-3h (T3+T1): io.to_dict interpreted on a mock model with three controls, the
keys of each emitted entry compared with the keys the from_dict branch of that control type reads.
R-C13-10 (T3, sa/concrete.py with the real numpy / re / enum modules): a fixture model with every element kind, option group, control and rule shape is
built through the public API by the repository's real constructors and methods, serialised, JSON-normalised, re-created and serialised again -- the two
dictionaries must be equal section by section, and appending must equal creating (sa/props/c13_fixture.py holds the recipe).
R-C13-1, -3a and -3e fall back silently to a purely syntactic reading when the evaluator meets an unsupported construct, so which
technique decided depends on the repository's shape.  R-C13-3 is only the family name of 3a..3g.
"""
import ast
import re

from ..src import (walk, calls, call_name, last_attr, dotted, norm, loc, const, AnchorError, ExtractError,
                   parent, unparse, str_consts)

NIO = "wntr/network/io.py"
BASE = "wntr/network/base.py"
ELEM = "wntr/network/elements.py"
MODEL = "wntr/network/model.py"
CTRL = "wntr/network/controls.py"
EIO = "wntr/epanet/io.py"
OPTS = "wntr/network/options.py"
EUTIL = "wntr/epanet/util.py"

EXPLANATION = (
    "Serializer / deserializer agreement of to_dict / from_dict. T1 = table agreement read off the AST (consumer side by AST / text patterns), T2 = "
    "path enumeration of a __str__ / to_dict to templates (TemplateExec), T3 = finite evaluation on fixtures by the in-house evaluator, bounded to "
    "them. R-C13-1 (T1+T3): every settable key Node/Link.to_dict can emit (class table; generic to_dict evaluated per attribute name) is read by the "
    "class's from_dict branch and lands in the attribute of that name. R-C13-1b (T1+T2): keys of Pattern / Curve / Source / TimeSeries.to_dict are "
    "read. R-C13-2 (T1, text): a setter spelled `not isinstance(x, tuple)` is fed a tuple(...) by from_dict. R-C13-3 = family of 3a-3g, control text: "
    "3a (T3, one line per kind token) leak-capable kinds are fetched with get_node; 3b (T3 exhaustive over Comparison members + text `current[6]`) "
    "every relation word is accepted; 3c (T2+T1) every varying token of the simple-control __str__ is indexed by the re-reader; 3d (T1, text "
    "`FlowUnits.SI`) units are SI; 3e (T1+T2) every control-dict key is read; 3f (T2+T3, two fixture trees) nested AND/OR texts differ; 3g (T3, 24 "
    "fixtures) each ControlAction text is read back as the same action. R-C13-4 (T1, two text matches): options classes store each constructor "
    "keyword under its own name. R-C13-5 (T3 exhaustive over MixType; AST pattern `LinkStatus[initial_status]`): emitted enum strings are accepted. "
    "R-C13-6 (T3, one fixture dict per key): an embedded object is re-bound to the model's registry object. R-C13-7 (T3, value 0.0 only): 0.0 "
    "survives from_dict. R-C13-8 (T1, syntactic dtype classifier): Pattern._multipliers stores are float like the constructor's. "
    "Decides these agreements, not value equality of models.")
RULE_TEXT = ("one instance = one (class, key) pair, one control-text token, one options parameter or one enum member; distinct = distinct "
             "constructs")
ASSUMPTIONS = [
    "options: where a group's __setattr__ validation cannot be evaluated, values emitted by to_dict are taken to pass it unchanged (the sample 'setattr_validation_not_evaluable' lists such classes; none today)",
    "to_dict emits exactly the public non-method attributes found statically in the class bodies and __init__ (no attributes added at run time except user-defined ones, which from_dict copies generically)",
    "priority and name of simple controls are not part of the dictionary and therefore outside the statement's equality criterion",
    "rule conditions that EPANET's rule grammar cannot express (RelativeCondition, FunctionCondition, one-day TimeOfDayCondition) are not analysed",
]

NODE_BRANCHES = {"Junction": ["Junction"], "Tank": ["Tank"], "Reservoir": ["Reservoir"]}
LINK_BRANCHES = {"Pipe": ["Pipe"], "Pump": ["HeadPump", "PowerPump"],
                 "Valve": ["PRValve", "PSValve", "PBValve", "FCValve", "TCValve", "GPValve"]}
DISCRIMINATORS = {"name", "node_type", "link_type", "pump_type", "valve_type"}


# --------------------------------------------------------------------------- class table
class ClassTable(object):
    def __init__(self, repo):
        self.repo = repo
        self.classes = {}
        for rel in (BASE, ELEM):
            for k, v in repo.classes(rel).items():
                self.classes[k] = v

    def bases(self, c):
        return [b.id for b in c.bases if isinstance(b, ast.Name)]

    def mro(self, name):
        seen, todo = [], [name]
        while todo:
            n = todo.pop(0)
            if n in seen or n not in self.classes:
                continue
            seen.append(n)
            todo += self.bases(self.classes[n])
        return seen

    def public(self, name):
        """name -> dict(getter, setter, kind) for public non-method attributes, most-derived definition wins."""
        pub = {}
        for k in reversed(self.mro(name)):
            c = self.classes[k]
            for n in c.body:
                if isinstance(n, ast.FunctionDef):
                    isprop = any(isinstance(d, ast.Name) and d.id == "property" for d in n.decorator_list)
                    isset = any(isinstance(d, ast.Attribute) and d.attr == "setter" for d in n.decorator_list)
                    if n.name == "__init__":
                        for a in walk(n):
                            if (isinstance(a, ast.Attribute) and isinstance(a.ctx, ast.Store) and isinstance(a.value, ast.Name)
                                    and a.value.id == "self" and not a.attr.startswith("_")):
                                pub.setdefault(a.attr, {"kind": "inst", "getter": None, "setter": None, "cls": k})
                    if n.name.startswith("_"):
                        continue
                    n._rel = getattr(c, "_rel", None)
                    n._qual = "%s.%s" % (k, n.name)
                    if isprop:
                        pub[n.name] = {"kind": "prop", "getter": n, "setter": None, "cls": k}
                    elif isset:
                        if n.name in pub and pub[n.name]["kind"] == "prop":
                            pub[n.name]["setter"] = n
                    else:
                        pub[n.name] = {"kind": "method", "cls": k}
                elif isinstance(n, ast.Assign):
                    for t in n.targets:
                        if isinstance(t, ast.Name) and not t.id.startswith("_"):
                            pub[t.id] = {"kind": "classattr", "getter": None, "setter": None, "cls": k}
        return {k: v for k, v in pub.items() if v["kind"] != "method"}

    def methods(self, name):
        out = {}
        for k in reversed(self.mro(name)):
            for n in self.classes[k].body:
                if isinstance(n, ast.FunctionDef):
                    out.setdefault(n.name, []).append(n)
        return out


def names_in_load(fn):
    return sorted({n.id for n in walk(fn) if isinstance(n, ast.Name) and isinstance(n.ctx, ast.Load)})


def only_raises(fn):
    body = [s for s in fn.body if not (isinstance(s, ast.Expr) and isinstance(s.value, ast.Constant))]
    return bool(body) and all(isinstance(s, ast.Raise) for s in body)


def backing_fields(getter):
    """private self fields a getter returns (directly)."""
    out = set()
    for n in walk(getter):
        if isinstance(n, ast.Return) and n.value is not None:
            for a in ast.walk(n.value):
                if isinstance(a, ast.Attribute) and isinstance(a.value, ast.Name) and a.value.id == "self" and a.attr.startswith("_"):
                    out.add(a.attr)
    return out


def api_writers(ct, cname, fields):
    """public methods (not __init__, not properties) of the class that assign one of the private fields."""
    out = []
    for mname, defs in ct.methods(cname).items():
        if mname.startswith("_"):
            continue
        for fn in defs:
            if any(isinstance(d, (ast.Name, ast.Attribute)) for d in fn.decorator_list):
                continue
            for a in walk(fn):
                if (isinstance(a, ast.Attribute) and isinstance(a.ctx, ast.Store) and isinstance(a.value, ast.Name)
                        and a.value.id == "self" and a.attr in fields):
                    out.append(mname)
                    break
    return sorted(set(out))


def exclusion_list(fn, repo=None):
    """(syntactic fallback) the list literal in `k not in [...]` / `k in (...)` of a generic to_dict, also through a module constant."""
    for n in walk(fn):
        if isinstance(n, ast.Compare) and len(n.ops) == 1 and isinstance(n.ops[0], (ast.NotIn, ast.In)):
            lst = n.comparators[0]
            if isinstance(lst, ast.Name) and repo is not None:
                try:
                    lst = repo.module_assign(fn._rel, lst.id)
                except AnchorError:
                    continue
            if isinstance(lst, (ast.List, ast.Tuple, ast.Set)):
                vals = [const(e) for e in lst.elts]
                if vals and all(isinstance(v, str) for v in vals):
                    return set(vals)
    raise ExtractError("exclusion list of %s not found" % fn._qual)


def generic_emitter(repo, fn):
    """decides, by EVALUATING a generic to_dict (the one that walks dir(self)) for one attribute name at a time, whether the
    name ends up as a key: emits(k) for a plain value, emits(k, 'ref') for a value that is an object reference (has to_ref)
    whose `<k>_name` twin is set.  The shape of the filter (nested ifs, guard clauses with continue, inline list or module
    constant, extracted conversion helper) does not matter.  Raises ExtractError when the function leaves the evaluable fragment."""
    from ..peval import Obj, Unknown, Raised
    Ev, hook0 = concrete_evaluator(repo)
    rel = fn._rel

    def consts(d):
        if "." in d:
            raise Unknown("unknown dotted name %s" % d)
        try:
            node = repo.module_assign(rel, d)
        except AnchorError:
            raise Unknown("unbound name %s" % d)
        return Ev({}, consts, hook0).ev(node)

    cache = {}

    def emits(k, mode="plain"):
        if (k, mode) in cache:
            return cache[(k, mode)]
        me, val = Obj("self", {}), Obj("value of the attribute", {})

        def hook(name, n, ev):
            if name == "dir" and len(n.args) == 1:
                return [k]
            if name == "getattr" and len(n.args) >= 2:
                o, a = ev.ev(n.args[0]), ev.ev(n.args[1])
                if o is me:
                    return val if a == k else Obj("self.%s" % a, {})
            if name == "hasattr" and len(n.args) == 2:
                o, a = ev.ev(n.args[0]), ev.ev(n.args[1])
                if o is val:
                    return mode == "ref" and a == "to_ref"
                if o is me:
                    return mode == "ref" and a == k + "_name"
            if name == "isinstance" and len(n.args) == 2 and ev.ev(n.args[0]) is val:
                return False        # neither a bound method nor an enum member
            if isinstance(n.func, ast.Attribute) and n.func.attr in ("to_ref", "to_list", "to_dict") and ev.ev(n.func.value) is val:
                return Obj("image of the value", {})
            return hook0(name, n, ev)

        def attr_hook(obj, attr):
            if obj is me:
                return Obj("self.%s" % attr, {})
            return NotImplemented
        try:
            res = Ev({params_all(fn)[0]: me}, consts, hook, attr_hook).run(fn.body)
        except (Unknown, Raised, _PyExc, _Continue, _Break) as e:
            raise ExtractError("%s is not evaluable for the attribute %r: %s" % (fn._qual, k, e))
        if not isinstance(res, dict):
            raise ExtractError("%s does not return the dictionary it builds (got %r)" % (fn._qual, res))
        cache[(k, mode)] = k in res
        return cache[(k, mode)]
    return emits


def params_all(fn):
    a = fn.args
    return [x.arg for x in a.posonlyargs + a.args]


def generic_walks_dir(fn):
    return any(isinstance(n, ast.For) and isinstance(n.iter, ast.Call) and call_name(n.iter) == "dir" for n in walk(fn))


# --------------------------------------------------------------------------- from_dict branches
def find_branches(fd, listkey, typekey):
    """for X in d[listkey]: if X[typekey] == 'T': ... -> (loopvar, {T: body})"""
    for n in walk(fd):
        if isinstance(n, ast.For) and isinstance(n.iter, ast.Subscript) and const(n.iter.slice) == listkey and isinstance(n.target, ast.Name):
            var = n.target.id
            out = {}
            # the discriminator may be hoisted: ntype = X[typekey]
            disc = {s.targets[0].id for s in n.body if isinstance(s, ast.Assign) and len(s.targets) == 1 and isinstance(s.targets[0], ast.Name)
                    and isinstance(s.value, ast.Subscript) and const(s.value.slice) == typekey and isinstance(s.value.value, ast.Name) and s.value.value.id == var}

            def is_disc(e):
                return (isinstance(e, ast.Subscript) and const(e.slice) == typekey) or (isinstance(e, ast.Name) and e.id in disc)
            for s in n.body:
                cur = s
                while isinstance(cur, ast.If):
                    t = cur.test
                    if isinstance(t, ast.Compare) and len(t.comparators) == 1 and isinstance(t.ops[0], ast.Eq):
                        if is_disc(t.left) and isinstance(const(t.comparators[0]), str):
                            out[const(t.comparators[0])] = cur.body
                        elif is_disc(t.comparators[0]) and isinstance(const(t.left), str):
                            out[const(t.left)] = cur.body
                    cur = cur.orelse[0] if (len(cur.orelse) == 1 and isinstance(cur.orelse[0], ast.If)) else None
            if out:
                return var, out, n
    raise ExtractError("from_dict: loop over d[%r] with %r dispatch not found" % (listkey, typekey))


def keys_of(expr, var):
    """string keys read from dict variable `var` inside expr: var['k'], var.setdefault('k', ..), var.get('k')"""
    out = set()
    for n in ast.walk(expr):
        if isinstance(n, ast.Subscript) and isinstance(n.value, ast.Name) and n.value.id == var and isinstance(const(n.slice), str):
            out.add(const(n.slice))
        if (isinstance(n, ast.Call) and isinstance(n.func, ast.Attribute) and n.func.attr in ("setdefault", "get", "pop")
                and isinstance(n.func.value, ast.Name) and n.func.value.id == var and n.args and isinstance(const(n.args[0]), str)):
            out.add(const(n.args[0]))
    return out


class Branch(object):
    """consumed keys and landings of one from_dict branch."""

    def __init__(self, body, var):
        self.var = var
        self.body = body
        self.consumed = set()
        self.local = {}        # local name -> set of keys it carries
        self.attr_land = {}    # key -> set of attribute names assigned directly (obj.attr = ...)
        self.attr_expr = {}    # (key, attr) -> value expression
        self.call_land = {}    # key -> set of (callee attr name, param name or position)
        self.meth_land = {}    # key -> set of (element method name, param name or position)
        stmts = []
        for s in body:
            stmts.extend(self._flat(s))
        for _ in range(3):   # propagate locals to a fixpoint (tiny)
            for s in stmts:
                if isinstance(s, ast.Assign) and len(s.targets) == 1 and isinstance(s.targets[0], ast.Name):
                    self.local.setdefault(s.targets[0].id, set()).update(self._keys(s.value))
        for s in stmts:
            for e in ast.walk(s) if not isinstance(s, (ast.If, ast.For, ast.While)) else ast.walk(getattr(s, "test", None) or getattr(s, "iter", None)):
                pass
        self.guarded_by = {}   # key -> set of OTHER keys whose truth decides whether key is read at all (None = read unconditionally somewhere)
        self.guards_methods = {}   # key -> element methods called in the body of an `if` whose test reads the key
        for s in stmts:
            if isinstance(s, ast.If):
                for k in self._keys(s.test):
                    for c in calls(ast.Module(body=s.body, type_ignores=[])):
                        if isinstance(c.func, ast.Attribute) and isinstance(c.func.value, ast.Name) and c.func.value.id not in ("wn", var):
                            self.guards_methods.setdefault(k, set()).add(c.func.attr)
        for s in stmts:
            exprs = [s] if not isinstance(s, (ast.If, ast.For, ast.While)) else [getattr(s, "test", None) or s.iter]
            gk = set()
            q = s
            while q is not None and not (isinstance(q, ast.stmt) and q in body):
                pq = getattr(q, "_parent", None)
                if isinstance(pq, ast.If) and q in pq.body + pq.orelse:
                    gk |= self._keys(pq.test)
                q = pq
            for ex in exprs:
                ks = keys_of(ex, var)
                for k in ks:
                    others = gk - {k} - DISCRIMINATORS
                    if not others:
                        self.guarded_by[k] = None
                    elif self.guarded_by.get(k, set()) is not None:
                        self.guarded_by.setdefault(k, set()).update(others)
            for ex in exprs:
                self.consumed |= keys_of(ex, var)
            if isinstance(s, ast.Assign) and len(s.targets) == 1 and isinstance(s.targets[0], ast.Attribute) and isinstance(s.targets[0].value, ast.Name):
                for k in self._keys(s.value):
                    self.attr_land.setdefault(k, set()).add(s.targets[0].attr)
                    self.attr_expr[(k, s.targets[0].attr)] = s.value
            for c in (calls(s) if not isinstance(s, (ast.If, ast.For, ast.While)) else []):
                nm = last_attr(c)
                if nm and isinstance(c.func, ast.Attribute) and isinstance(c.func.value, ast.Name) and c.func.value.id not in ("wn", var) and not nm.startswith("set"):
                    # method of the element object itself: j.add_leak(wn, area=.., discharge_coeff=..)
                    for i, a in enumerate(c.args):
                        for k in self._keys(a):
                            self.meth_land.setdefault(k, set()).add((nm, i))
                    for kw in c.keywords:
                        for k in self._keys(kw.value):
                            self.meth_land.setdefault(k, set()).add((nm, kw.arg))
                    continue
                if nm and (nm.startswith("add_")):
                    for i, a in enumerate(c.args):
                        for k in self._keys(a):
                            self.call_land.setdefault(k, set()).add((nm, i))
                    for kw in c.keywords:
                        for k in self._keys(kw.value):
                            self.call_land.setdefault(k, set()).add((nm, kw.arg))

    def _flat(self, s):
        out = [s]
        for fld in ("body", "orelse"):
            for x in getattr(s, fld, []) or []:
                if isinstance(x, ast.stmt):
                    out.extend(self._flat(x))
        return out

    def _keys(self, expr):
        ks = set(keys_of(expr, self.var))
        for n in ast.walk(expr):
            if isinstance(n, ast.Name) and n.id in self.local:
                ks |= self.local[n.id]
        return ks


def forward_map(repo, wn_fn, regattr):
    """param of WaterNetworkModel.add_X -> (registry method, registry param) through the forwarding call self.<reg>.add_X(...)."""
    for c in calls(wn_fn):
        if isinstance(c.func, ast.Attribute) and c.func.attr == wn_fn.name and dotted(c.func.value) == "self." + regattr:
            return c
    raise ExtractError("%s does not forward to self.%s.%s" % (wn_fn._qual, regattr, wn_fn.name))


def params(fn):
    a = fn.args
    return [x.arg for x in a.posonlyargs + a.args if x.arg != "self"]


def registry_param_attrs(reg_fn):
    """registry add_X: param -> set of attributes assigned from it (obj.attr = f(param)), plus ('call', method) uses."""
    ps = params(reg_fn)
    out = {p: set() for p in ps}
    for n in walk(reg_fn):
        if isinstance(n, ast.Assign) and len(n.targets) == 1 and isinstance(n.targets[0], ast.Attribute) and isinstance(n.targets[0].value, ast.Name):
            names = {x.id for x in ast.walk(n.value) if isinstance(x, ast.Name)}
            for p in ps:
                if p in names:
                    out[p].add(n.targets[0].attr)
        if isinstance(n, ast.Call) and isinstance(n.func, ast.Attribute) and isinstance(n.func.value, ast.Name) and n.func.attr.startswith("add_"):
            for a in list(n.args) + [k.value for k in n.keywords]:
                for x in ast.walk(a):
                    if isinstance(x, ast.Name) and x.id in out:
                        out[x.id].add("call:" + n.func.attr)
        if isinstance(n, ast.Call) and isinstance(n.func, ast.Name) and n.func.id[:1].isupper():
            # constructor: Pipe(name, start_node_name, end_node_name, self)
            for a in n.args:
                if isinstance(a, ast.Name) and a.id in out:
                    out[a.id].add("ctor:" + n.func.id)
    return out


def resolve_landing(repo, branch, key, wn_cls_methods, reg_methods, ct=None, classes=()):
    """set of attribute names key lands in (through add_* or direct assignment)."""
    lands = set(branch.attr_land.get(key, ()))
    for meth in branch.guards_methods.get(key, ()):
        # `if d[key]: obj.method(...)` restores a boolean key when the method sets its backing field to a constant
        for cn in classes:
            for fn in (ct.methods(cn).get(meth, []) if ct is not None else []):
                for n in walk(fn):
                    if isinstance(n, ast.Assign) and isinstance(n.targets[0], ast.Attribute) and isinstance(n.targets[0].value, ast.Name) and n.targets[0].value.id == "self" \
                            and n.targets[0].attr in ("_" + key, key) and const(n.value, None) is True:
                        lands.add(n.targets[0].attr)
    for (meth, p) in branch.meth_land.get(key, ()):
        for cn in classes:
            for fn in (ct.methods(cn).get(meth, []) if ct is not None else []):
                ps = params(fn)
                pname = ps[p] if isinstance(p, int) and p < len(ps) else p
                for n in walk(fn):
                    if isinstance(n, ast.Assign) and isinstance(n.targets[0], ast.Attribute) and isinstance(n.targets[0].value, ast.Name) and n.targets[0].value.id == "self":
                        if any(isinstance(x, ast.Name) and x.id == pname for x in ast.walk(n.value)):
                            lands.add(n.targets[0].attr)
    for (meth, p) in branch.call_land.get(key, ()):
        wn_fn = wn_cls_methods.get(meth)
        if wn_fn is None:
            continue
        wps = params(wn_fn)
        pname = wps[p] if isinstance(p, int) and p < len(wps) else p
        # forward to the registry
        fwd = None
        for regattr in ("_node_reg", "_link_reg", "_curve_reg", "_pattern_reg", "_sources"):
            try:
                fwd = forward_map(repo, wn_fn, regattr)
                break
            except ExtractError:
                continue
        if fwd is None:
            lands.add("param:" + str(pname))
            continue
        reg_fn = reg_methods.get(meth)
        if reg_fn is None:
            lands.add("param:" + str(pname))
            continue
        rps = params(reg_fn)
        rp = None
        for i, a in enumerate(fwd.args):
            if isinstance(a, ast.Name) and a.id == pname and i < len(rps):
                rp = rps[i]
        for kw in fwd.keywords:
            if isinstance(kw.value, ast.Name) and kw.value.id == pname:
                rp = kw.arg
        if rp is None:
            lands.add("param:" + str(pname))
            continue
        lands |= registry_param_attrs(reg_fn).get(rp, set()) or {"param:" + rp}
    return lands


def returned_dicts(fn):
    """the dictionaries a to_dict can return, one per path ({key: value}); built key by key, by dict(k=..), by a dict display or
    by update() -- all the same.  [] when the function does not return a dictionary it builds in that way."""
    try:
        vals = TemplateExec(fn).returns()
    except ExtractError:
        return []
    if not vals or not all(isinstance(v, dict) for v in vals):
        return []
    return vals


def explicit_dict_keys(fn):
    """keys of an explicit to_dict -> {key: conditional?} (conditional = not on every path)."""
    ds = returned_dicts(fn)
    if ds:
        allk = []
        for d_ in ds:
            for k in d_:
                if k not in allk:
                    allk.append(k)
        return {k: not all(k in d_ for d_ in ds) for k in allk}
    out = {}
    for n in walk(fn):
        if isinstance(n, ast.Call) and isinstance(n.func, ast.Name) and n.func.id == "dict":
            for kw in n.keywords:
                if kw.arg:
                    out[kw.arg] = False
        if isinstance(n, ast.Dict):
            for k in n.keys:
                if isinstance(const(k), str):
                    out[const(k)] = False
        if isinstance(n, ast.Assign):
            for t in n.targets:
                if isinstance(t, ast.Subscript) and isinstance(const(t.slice), str):
                    p = parent(n)
                    out[const(t.slice)] = isinstance(p, ast.If)
    return out


# --------------------------------------------------------------------------- string templates (what text does a __str__ produce?)
class Hole(object):
    """a varying piece of a produced string; `text` is the source expression with every local resolved through its definition."""

    def __init__(self, text, spec=""):
        self.text = text
        self.spec = spec

    def __repr__(self):
        return "{%s}" % self.text


class Sym(object):
    """a non-string value known only as an expression over self / parameters (locals already substituted)."""

    def __init__(self, text):
        self.text = text

    def __repr__(self):
        return "Sym(%s)" % self.text


class Tmpl(object):
    """a produced string: literal pieces (str) and Holes."""

    def __init__(self, segs=()):
        self.segs = []
        for x in segs:
            self.add(x)

    def add(self, x):
        if isinstance(x, Tmpl):
            for y in x.segs:
                self.add(y)
        elif isinstance(x, str):
            if x:
                if self.segs and isinstance(self.segs[-1], str):
                    self.segs[-1] += x
                else:
                    self.segs.append(x)
        else:
            self.segs.append(x)

    def tokens(self):
        """whitespace separated tokens; each token is a list of pieces (str / Hole)."""
        out, cur = [], []
        for sg in self.segs:
            if isinstance(sg, Hole):
                cur.append(sg)
                continue
            for part in re.split(r"(\s+)", sg):
                if not part:
                    continue
                if part.isspace():
                    if cur:
                        out.append(cur)
                        cur = []
                else:
                    cur.append(part)
        if cur:
            out.append(cur)
        return out

    def __repr__(self):
        return "".join(x if isinstance(x, str) else repr(x) for x in self.segs)


class _Ret(Exception):
    def __init__(self, value):
        self.value = value


class _PathEnds(Exception):
    pass


_PCT = re.compile(r"%(?:\((\w+)\))?([#0\- +]*(?:\*|\d+)?(?:\.(?:\*|\d+))?)[hlL]?([diouxXeEfFgGcrsa%])")
_STR_METHODS = ("upper", "lower", "strip", "lstrip", "rstrip", "title", "capitalize")


class TemplateExec(object):
    """Path-enumerating evaluation of a small string-producing function to the string templates it can return.  It follows
    temporaries (locals are substituted by their definitions), if/elif statements and conditional expressions alike (a test
    that is not decided by constants forks the path), and gives `'..{}..'.format(a)`, `'..%s..' % a`, f-strings, `+`
    concatenation and `sep.join([..])` the same meaning: a sequence of literal text and holes.  Unsupported statements raise
    ExtractError (never guesses)."""

    MAX_PATHS = 256

    def __init__(self, fn):
        self.fn = fn

    # ------------------------------------------------------------ driver
    def returns(self):
        work, out = [[]], []
        while work:
            self.script = work.pop()
            self.k = 0
            self.work = work
            try:
                self.block(self.fn.body, {})
                val = None
            except _Ret as r:
                val = r.value
            except _PathEnds:
                continue
            out.append(val)
            if len(out) > self.MAX_PATHS:
                raise ExtractError("%s: too many paths for the string-template evaluation" % getattr(self.fn, "_qual", self.fn.name))
        return out

    def templates(self):
        """the string templates of all returning paths (a symbolic return value is one hole)."""
        res = []
        for v in self.returns():
            if v is None:
                continue
            res.append(self.as_tmpl(v))
        return res

    def decide(self):
        if self.k < len(self.script):
            d = self.script[self.k]
        else:
            d = False
            self.work.append(self.script[:self.k] + [True])
            self.script.append(False)
        self.k += 1
        return d

    # ------------------------------------------------------------ values
    def as_tmpl(self, v, spec="", conv=None):
        if isinstance(v, Tmpl) and not spec and conv in (None, "s"):
            return v
        if isinstance(v, (str, int, float, bool)) or v is None:
            if conv in (None, "s"):
                try:
                    return Tmpl([format(v if conv is None else str(v), spec)])
                except (ValueError, TypeError):
                    pass
            if conv == "r" and not spec:
                return Tmpl([repr(v)])
        t = self.vtext(v)
        if conv == "r":
            t = "repr(%s)" % t
        elif conv == "a":
            t = "ascii(%s)" % t
        if not spec or spec == "s":
            # format(x, '') is str(x): str(x) in a plain hole and x in a plain hole are the same text
            m = re.match(r"^str\((.*)\)$", t)
            if m and _balanced(m.group(1)):
                t = m.group(1)
        return Tmpl([Hole(t, spec)])

    def vtext(self, v):
        if isinstance(v, Sym):
            return v.text
        if isinstance(v, Tmpl):
            return "<%r>" % v
        if isinstance(v, list):
            return "[%s]" % ", ".join(self.vtext(x) for x in v)
        if isinstance(v, dict):
            return "{%s}" % ", ".join("%r: %s" % (k, self.vtext(x)) for k, x in v.items())
        return repr(v)

    def subst(self, n, env):
        """source text of n with every local replaced by its (symbolic) definition."""
        class T(ast.NodeTransformer):
            def visit_Name(self, m):
                if isinstance(m.ctx, ast.Load) and m.id in env:
                    v = env[m.id]
                    if isinstance(v, Sym):
                        try:
                            return ast.parse(v.text, mode="eval").body
                        except SyntaxError:
                            return m
                    if isinstance(v, (str, int, float, bool)) or v is None:
                        return ast.Constant(value=v)
                    if isinstance(v, Tmpl) and all(isinstance(x, str) for x in v.segs):
                        return ast.Constant(value="".join(v.segs))
                return m
        # (re-parse instead of deepcopy: the repository trees carry parent links)
        return unparse(ast.fix_missing_locations(T().visit(ast.parse(unparse(n), mode="eval").body)))

    # ------------------------------------------------------------ expressions
    def ev(self, n, env):
        if isinstance(n, ast.Constant):
            return n.value
        if isinstance(n, ast.Name):
            if n.id in env:
                return env[n.id]
            if n.id in ("True", "False", "None"):
                return {"True": True, "False": False, "None": None}[n.id]
            return Sym(n.id)
        if isinstance(n, (ast.Tuple, ast.List)):
            return [self.ev(e, env) for e in n.elts]
        if isinstance(n, ast.Dict) and all(k is not None for k in n.keys):
            out = {}
            for k, v in zip(n.keys, n.values):
                kk = self.ev(k, env)
                out[kk if isinstance(kk, (str, int)) else self.vtext(kk)] = self.ev(v, env)
            return out
        if isinstance(n, ast.Call) and isinstance(n.func, ast.Name) and n.func.id == "dict" and not n.args and all(k.arg for k in n.keywords):
            return {k.arg: self.ev(k.value, env) for k in n.keywords}
        if isinstance(n, ast.JoinedStr):
            t = Tmpl()
            for part in n.values:
                if isinstance(part, ast.Constant):
                    t.add(str(part.value))
                else:
                    spec = ""
                    if part.format_spec is not None:
                        sv = self.ev(part.format_spec, env)
                        if isinstance(sv, Tmpl) and all(isinstance(x, str) for x in sv.segs):
                            spec = "".join(sv.segs)
                        elif isinstance(sv, str):
                            spec = sv
                        else:
                            spec = "?"
                    conv = {-1: None, 115: "s", 114: "r", 97: "a"}.get(part.conversion)
                    t.add(self.as_tmpl(self.ev(part.value, env), spec, conv))
            return t
        if isinstance(n, ast.IfExp):
            c = self.ev(n.test, env)
            if isinstance(c, (Sym, Tmpl, list, dict)):
                c = self.decide()
            return self.ev(n.body if c else n.orelse, env)
        if isinstance(n, ast.BinOp) and isinstance(n.op, ast.Add):
            a, b = self.ev(n.left, env), self.ev(n.right, env)
            if isinstance(a, (str, Tmpl)) or isinstance(b, (str, Tmpl)):
                return Tmpl([self.as_tmpl(a) if not isinstance(a, str) else a, self.as_tmpl(b) if not isinstance(b, str) else b])
            if isinstance(a, (int, float)) and isinstance(b, (int, float)):
                return a + b
            return Sym(self.subst(n, env))
        if isinstance(n, ast.BinOp) and isinstance(n.op, ast.Mod):
            a = self.ev(n.left, env)
            if isinstance(a, (str, Tmpl)):
                return self.percent(a, self.ev(n.right, env), isinstance(n.right, ast.Tuple), n)
            return Sym(self.subst(n, env))
        if isinstance(n, ast.Call):
            f = n.func
            if isinstance(f, ast.Attribute):
                if f.attr in ("format", "join") or f.attr in _STR_METHODS:
                    base = self.ev(f.value, env)
                    if isinstance(base, (str, Tmpl)):
                        if f.attr == "format":
                            return self.fmt(base, [self.ev(a, env) for a in n.args], {k.arg: self.ev(k.value, env) for k in n.keywords}, n)
                        if f.attr == "join" and len(n.args) == 1:
                            items = self.ev(n.args[0], env)
                            if isinstance(items, list):
                                t = Tmpl()
                                for i, it in enumerate(items):
                                    if i:
                                        t.add(base)
                                    t.add(it if isinstance(it, str) else self.as_tmpl(it))
                                return t
                        if f.attr in _STR_METHODS and not n.args:
                            return self.str_method(base, f.attr)
            if isinstance(f, ast.Name) and f.id == "str" and len(n.args) == 1 and not n.keywords:
                v = self.ev(n.args[0], env)
                if isinstance(v, (str, Tmpl)):
                    return v
                if isinstance(v, (int, float, bool)) or v is None:
                    return str(v)
            return Sym(self.subst(n, env))
        return Sym(self.subst(n, env))

    def str_method(self, base, meth):
        if isinstance(base, str):
            return getattr(base, meth)()
        if meth in ("upper", "lower"):
            return Tmpl([getattr(x, meth)() if isinstance(x, str) else Hole("%s.%s()" % (_paren(x.text), meth), x.spec) for x in base.segs])
        return Tmpl([Hole("%s.%s()" % (self.vtext(base), meth))])

    def fmt(self, base, args, kwargs, node):
        import string
        if isinstance(base, Tmpl):
            if not all(isinstance(x, str) for x in base.segs):
                raise ExtractError("format() applied to a string that already has varying parts: %s" % unparse(node))
            base = "".join(base.segs)
        t = Tmpl()
        auto = 0
        try:
            fields = list(string.Formatter().parse(base))
        except ValueError as e:
            raise ExtractError("format string %r not parseable: %s" % (base, e))
        for lit, field, spec, conv in fields:
            t.add(lit)
            if field is None:
                continue
            m = re.match(r"^([^.\[]*)(.*)$", field)
            head, rest = m.group(1), m.group(2)
            if head == "":
                idx = auto
                auto += 1
            elif head.isdigit():
                idx = int(head)
            else:
                idx = head
            if isinstance(idx, int):
                if idx >= len(args):
                    raise ExtractError("format field %r has no argument in %s" % (field, unparse(node)))
                v = args[idx]
            else:
                if idx not in kwargs:
                    raise ExtractError("format field %r has no argument in %s" % (field, unparse(node)))
                v = kwargs[idx]
            if rest:
                v = Sym(_paren(self.vtext(v)) + rest)
            t.add(self.as_tmpl(v, spec or "", conv))
        return t

    def percent(self, base, right, is_tuple, node):
        if isinstance(base, Tmpl):
            if not all(isinstance(x, str) for x in base.segs):
                raise ExtractError("%% applied to a string that already has varying parts: %s" % unparse(node))
            base = "".join(base.segs)
        args = list(right) if (is_tuple and isinstance(right, list)) else [right]
        t = Tmpl()
        pos = ai = 0
        for m in _PCT.finditer(base):
            t.add(base[pos:m.start()])
            pos = m.end()
            key, flags, c = m.group(1), m.group(2), m.group(3)
            if c == "%":
                t.add("%")
                continue
            if key is not None:
                raise ExtractError("mapping-key %%-format not modelled: %s" % unparse(node))
            if ai >= len(args):
                raise ExtractError("%%-format has more fields than arguments: %s" % unparse(node))
            v = args[ai]
            ai += 1
            if c == "s" and not flags:
                t.add(self.as_tmpl(v))
            elif c == "r" and not flags:
                t.add(self.as_tmpl(v, "", "r"))
            elif isinstance(v, (int, float)) and not isinstance(v, bool):
                t.add(("%" + flags + c) % v)
            else:
                t.add(Tmpl([Hole(self.vtext(v), "%" + flags + c)]))
        t.add(base[pos:])
        return t

    # ------------------------------------------------------------ statements
    def block(self, stmts, env):
        for s in stmts:
            self.stmt(s, env)

    def stmt(self, s, env):
        if isinstance(s, ast.Expr) and isinstance(s.value, ast.Call) and isinstance(s.value.func, ast.Attribute) and s.value.func.attr == "update" \
                and isinstance(s.value.func.value, ast.Name) and isinstance(env.get(s.value.func.value.id), dict):
            tgt = env[s.value.func.value.id]
            for a in s.value.args:
                v = self.ev(a, env)
                if not isinstance(v, dict):
                    raise ExtractError("%s: update() with %s is outside the fragment" % (getattr(self.fn, "_qual", self.fn.name), unparse(a)))
                tgt.update(v)
            for k in s.value.keywords:
                if k.arg is None:
                    raise ExtractError("%s: update(**..) is outside the fragment" % getattr(self.fn, "_qual", self.fn.name))
                tgt[k.arg] = self.ev(k.value, env)
            return
        if isinstance(s, (ast.Pass, ast.Expr, ast.Import, ast.ImportFrom)):
            return
        if isinstance(s, ast.Assign):
            v = self.ev(s.value, env)
            for t in s.targets:
                if isinstance(t, ast.Name):
                    env[t.id] = v
                elif isinstance(t, ast.Subscript) and isinstance(t.value, ast.Name) and isinstance(env.get(t.value.id), dict):
                    kk = self.ev(t.slice, env)
                    env[t.value.id][kk if isinstance(kk, (str, int)) else self.vtext(kk)] = v
                elif isinstance(t, (ast.Tuple, ast.List)) and isinstance(v, list) and len(v) == len(t.elts) and all(isinstance(e, ast.Name) for e in t.elts):
                    for e, x in zip(t.elts, v):
                        env[e.id] = x
                elif isinstance(t, (ast.Tuple, ast.List)):
                    for i, e in enumerate(t.elts):
                        if isinstance(e, ast.Name):
                            env[e.id] = Sym("%s[%d]" % (_paren(self.vtext(v)), i))
            return
        if isinstance(s, ast.AugAssign) and isinstance(s.target, ast.Name) and isinstance(s.op, ast.Add):
            env[s.target.id] = self.ev(ast.BinOp(left=ast.Name(id=s.target.id, ctx=ast.Load()), op=ast.Add(), right=s.value), env)
            return
        if isinstance(s, ast.If):
            c = self.ev(s.test, env)
            if isinstance(c, (Sym, Tmpl, list, dict)):
                c = self.decide()
            self.block(s.body if c else s.orelse, env)
            return
        if isinstance(s, ast.Return):
            raise _Ret(self.ev(s.value, env) if s.value is not None else None)
        if isinstance(s, ast.Raise):
            raise _PathEnds()
        raise ExtractError("%s: statement %s at line %s is outside the string-template fragment" % (
            getattr(self.fn, "_qual", self.fn.name), type(s).__name__, getattr(s, "lineno", "?")))


def _balanced(t):
    d = 0
    for ch in t:
        if ch in "([{":
            d += 1
        elif ch in ")]}":
            d -= 1
            if d < 0:
                return False
    return d == 0


def _paren(t):
    try:
        n = ast.parse(t, mode="eval").body
    except SyntaxError:
        return "(%s)" % t
    return t if isinstance(n, (ast.Name, ast.Attribute, ast.Call, ast.Subscript, ast.Constant)) else "(%s)" % t


def token_table(templates):
    """{token index: sorted hole texts} over all templates: the tokens that vary; plus the literal tokens per index."""
    varying, literal = {}, {}
    for t in templates:
        for i, tok in enumerate(t.tokens()):
            holes = [p.text for p in tok if isinstance(p, Hole)]
            if holes:
                varying.setdefault(i, set()).add(" + ".join(holes) if len(holes) > 1 else holes[0])
            else:
                literal.setdefault(i, set()).add("".join(tok))
    return {i: sorted(v) for i, v in varying.items()}, literal


# identities of recorded findings were fixed when the hole was still named after a local temporary of the serialiser; the
# semantic identity (the resolved expression) is mapped to that recorded label so that the record stays attached to the same fact
RECORDED_LABELS = {("ValueCondition.__str__", "self._source_attr.upper()"): "att.upper()"}


def hole_label(qual, texts):
    return " | ".join(RECORDED_LABELS.get((qual, t), t) for t in texts)


# --------------------------------------------------------------------------- the rules
def rule_keys(repo, chk):
    ct = ClassTable(repo)
    fd = repo.func(NIO, "from_dict")
    chk.fn(fd)
    node_td = repo.func(BASE, "Node.to_dict")
    link_td = repo.func(BASE, "Link.to_dict")
    chk.fn(node_td, link_td)
    for f in (node_td, link_td):
        if not generic_walks_dir(f):
            raise ExtractError("%s no longer walks dir(self): the key derivation does not apply" % f._qual)
    # which public attributes become keys: the generic to_dict is evaluated per attribute name (syntactic reading of the
    # exclusion list only if it is outside the evaluable fragment)
    emits = {}
    for kind_, f in (("node", node_td), ("link", link_td)):
        try:
            em = generic_emitter(repo, f)
            em("name")
            emits[kind_] = em
        except ExtractError:
            ex_ = exclusion_list(f, repo)
            emits[kind_] = (lambda ex_, kind_: (lambda k, mode="plain": k not in ex_ and not (mode == "ref" and kind_ == "link")))(ex_, kind_)
    wn_methods = {n.name: n for n in repo.cls(MODEL, "WaterNetworkModel").body if isinstance(n, ast.FunctionDef)}
    for n in wn_methods.values():
        n._rel = MODEL
        n._qual = "WaterNetworkModel." + n.name
    reg_methods = {}
    for rc in ("NodeRegistry", "LinkRegistry", "CurveRegistry", "PatternRegistry", "SourceRegistry"):
        if repo.has_cls(MODEL, rc):
            for n in repo.cls(MODEL, rc).body:
                if isinstance(n, ast.FunctionDef) and n.name.startswith("add_"):
                    n._rel = MODEL
                    n._qual = rc + "." + n.name
                    reg_methods[n.name] = n
    total = 0
    for kind, listkey, typekey, table in (("node", "nodes", "node_type", NODE_BRANCHES), ("link", "links", "link_type", LINK_BRANCHES)):
        var, bodies, loop = find_branches(fd, listkey, typekey)
        for tname, classes in table.items():
            if tname not in bodies:
                chk.bad("R-C13-1", "from_dict has a branch for %s %r" % (kind, tname), loc(fd, loop), "no branch dispatches on this type")
                continue
            br = Branch(bodies[tname], var)
            emitted = {}
            for cn in classes:
                if cn not in ct.classes:
                    raise AnchorError("class %s vanished from elements.py" % cn)
                pub = ct.public(cn)
                for k, info in pub.items():
                    if not emits[kind](k):
                        continue
                    if (k + "_name") in pub and not emits[kind](k, "ref"):
                        continue      # object view of a *_name key (Link.to_dict skips it when the name is set)
                    emitted.setdefault(k, []).append((cn, info))
            sample = {"class": tname, "emitted": sorted(emitted), "consumed": sorted(br.consumed)}
            chk.sample(sample)
            for k in sorted(emitted):
                cn, info = emitted[k][0]
                if k in DISCRIMINATORS or k.endswith("_node_name"):
                    chk.expect(k in br.consumed or k in ("name",) or any(k in keys_of(loop, var) for _ in [0]), "R-C13-1",
                               "%s.%s (identity / discriminator key) is read by from_dict" % (tname, k), loc(fd, loop))
                    total += 1
                    continue
                # is the state behind this key settable through the API?
                writable, why = False, ""
                if info["kind"] in ("inst", "classattr"):
                    writable, why = True, "plain attribute"
                elif info.get("setter") is not None and not only_raises(info["setter"]):
                    writable, why = True, "setter"
                elif info.get("getter") is not None:
                    if only_raises(info["getter"]):
                        writable, why = False, "deprecated (getter raises)"
                    else:
                        ws = api_writers(ct, cn, backing_fields(info["getter"]))
                        if ws:
                            writable, why = True, "backing field written by %s()" % ", ".join(ws)
                        else:
                            why = "read-only derived property"
                construct = "%s key %r (%s) is consumed by from_dict and lands in attribute %r" % (tname, k, why, k)
                if not writable:
                    chk.ok("R-C13-1", "%s key %r is derived (%s): no obligation" % (tname, k, why), loc(fd, loop))
                    total += 1
                    continue
                total += 1
                if k not in br.consumed:
                    chk.bad("R-C13-1", construct, loc(fd, loop),
                            "to_dict emits %r for %s (class %s, %s) but the %s branch of from_dict never reads it: the value is lost" % (k, tname, cn, why, tname),
                            expected="a read of %s[%r]" % (var, k), found="keys read: %s" % sorted(br.consumed))
                    continue
                gb = br.guarded_by.get(k)
                if gb:
                    chk.bad("R-C13-1", construct, loc(fd, loop),
                            "key %r is read only when key(s) %s are truthy: to_dict emits it regardless (e.g. after remove_leak the area and coefficient remain while "
                            "leak is False), so the value is lost in that case" % (k, sorted(gb)), expected="unconditional restore of %s" % k, found="guarded by %s" % sorted(gb))
                    continue
                lands = resolve_landing(repo, br, k, wn_methods, reg_methods, ct, classes)
                ok = (k in lands) or (("_" + k) in lands) or any(l == "call:add_demand" for l in lands)
                if k == "demand_timeseries_list":
                    ok = any(l.startswith("call:add_demand") or l.startswith("param:") for l in lands) or ok
                chk.expect(ok, "R-C13-1", construct, loc(fd, loop),
                           "key %r is read but stored into %s" % (k, sorted(lands)), expected="attribute %s" % k, found=sorted(lands))
    chk.floor("R-C13-1", 90)
    return ct, fd, emits


# --------------------------------------------------------------------------- from_dict evaluated on one element dictionary
def _names_loaded(node):
    return {x.id for x in ast.walk(node) if isinstance(x, ast.Name) and isinstance(x.ctx, ast.Load)}


def landing_slice(body, attrs):
    """the part of a statement list that decides what is stored into `<obj>.<attr>` (attr in attrs): those assignments, the
    assignments of the locals they (transitively) read, and the enclosing if / try / loop statements with only these members."""
    needed, keep = set(), set()

    def scan(stmts, guards):
        changed = False
        for st in stmts:
            if isinstance(st, (ast.Assign, ast.AugAssign, ast.AnnAssign)):
                tg = st.targets if isinstance(st, ast.Assign) else [st.target]
                hit = False
                for t in tg:
                    for e in ([t] + list(t.elts) if isinstance(t, (ast.Tuple, ast.List)) else [t]):
                        if isinstance(e, ast.Attribute) and e.attr in attrs:
                            hit = True
                        if isinstance(e, ast.Name) and e.id in needed:
                            hit = True
                if hit and id(st) not in keep:
                    keep.add(id(st))
                    changed = True
                if id(st) in keep:
                    before = len(needed)
                    needed.update(_names_loaded(st))
                    for g in guards:
                        keep.add(id(g))
                        for fld in ("test", "iter"):
                            if getattr(g, fld, None) is not None:
                                needed.update(_names_loaded(getattr(g, fld)))
                    changed = changed or len(needed) != before
            for fld in ("body", "orelse", "finalbody"):
                blk = getattr(st, fld, None)
                if isinstance(blk, list) and blk and isinstance(blk[0], ast.stmt) and not isinstance(st, (ast.FunctionDef, ast.ClassDef)):
                    changed = scan(blk, guards + [st]) or changed
            for h in getattr(st, "handlers", []) or []:
                changed = scan(h.body, guards + [st]) or changed
        return changed
    for _ in range(20):
        if not scan(body, []):
            break

    def rebuild(stmts):
        out = []
        for st in stmts:
            if id(st) not in keep:
                continue
            if isinstance(st, ast.If):
                out.append(ast.If(test=st.test, body=rebuild(st.body) or [ast.Pass()], orelse=rebuild(st.orelse)))
            elif isinstance(st, ast.Try):
                out.append(ast.Try(body=rebuild(st.body) or [ast.Pass()], handlers=[ast.ExceptHandler(type=h.type, name=h.name, body=rebuild(h.body) or [ast.Pass()]) for h in st.handlers],
                                   orelse=rebuild(st.orelse), finalbody=rebuild(st.finalbody)))
            elif isinstance(st, ast.For):
                out.append(ast.For(target=st.target, iter=st.iter, body=rebuild(st.body) or [ast.Pass()], orelse=[]))
            elif isinstance(st, (ast.While, ast.With)):
                raise ExtractError("from_dict: a store of %s sits in a %s statement (outside the evaluable fragment)" % (sorted(attrs), type(st).__name__))
            else:
                out.append(st)
        return out
    sl = rebuild(body)
    for st in sl:
        ast.fix_missing_locations(ast.copy_location(st, body[0])) if not hasattr(st, "lineno") else None
    return sl


def element_landing(repo, loop, var, element, attrs):
    """EVALUATE the part of a from_dict element loop body that decides what lands in <element object>.<attr> on ONE concrete element
    dictionary: -> ('stored', value) | ('absent', None) | ('raises', text).  The model is abstract: wn.get_*(x) is 'the registry
    object named x', wn.add_*() does nothing.  Whatever spelling the branch uses (guards, temporaries, conditional expressions,
    helpers inlined by the normaliser) the answer is what the code would store."""
    from ..peval import Obj, Unknown, Raised
    Ev, hook0 = concrete_evaluator(repo)
    pytypes = {"dict": dict, "str": str, "list": list, "tuple": tuple, "float": float, "int": int, "bool": bool, "six.string_types": str}
    made = []

    def hook(name, n, ev):
        f = n.func
        if isinstance(f, ast.Attribute):
            if f.attr in ("setdefault", "pop") and 1 <= len(n.args) <= 2 and not n.keywords:
                base = ev.ev(f.value)
                if isinstance(base, dict):
                    k = ev.ev(n.args[0])
                    dflt = ev.ev(n.args[1]) if len(n.args) == 2 else None
                    if f.attr == "setdefault":
                        return base.setdefault(k, dflt)
                    if k in base or len(n.args) == 2:
                        return base.pop(k, dflt)
                    raise _PyExc("KeyError")
            if f.attr == "keys" and not n.args:
                base = ev.ev(f.value)
                if isinstance(base, dict):
                    return list(base.keys())
            b = None
            if isinstance(f.value, ast.Name) and isinstance(ev.env.get(f.value.id), Obj):
                b = ev.env[f.value.id]
            if b is not None and b.name == "wn":
                args = [ev.ev(a) for a in n.args]
                if f.attr.startswith("get_"):
                    o = Obj("wn.%s" % f.attr, {}, cls="registry object")
                    o.arg = args[0] if args else None
                    made.append(o)
                    return o
                if f.attr.startswith("add_"):
                    return None
        if name == "isinstance" and len(n.args) == 2:
            v = ev.ev(n.args[0])
            tn = _type_names(n.args[1])
            if all(t in pytypes for t in tn):
                return (not isinstance(v, Obj)) and isinstance(v, tuple(pytypes[t] for t in tn)) and not (isinstance(v, bool) and tn <= {"int", "float"} and False)
            if isinstance(v, (dict, str, list, tuple, float, int)) or v is None:
                return False        # a JSON value is not an instance of a model class
            raise Unknown("isinstance(%r, %s)" % (v, sorted(tn)))
        return hook0(name, n, ev)

    def attr_hook(obj, attr):
        if isinstance(obj, Obj) and obj.name == "wn":
            return Obj("wn.%s" % attr, {}, cls="registry")
        return NotImplemented

    class E(Ev):
        def subscript_of(self, b, n):
            if isinstance(b, Obj) and b.cls == "registry":
                o = Obj("%s[..]" % b.name, {}, cls="registry object")
                o.arg = self.ev(n.slice)
                made.append(o)
                return o
            return Ev.subscript_of(self, b, n)

    def consts(dn):
        raise Unknown("unbound name %s" % dn)
    sl = landing_slice(loop.body, set(attrs))
    if not sl:
        return "absent", None
    ev = E({var: element, "wn": Obj("wn", {})}, consts, hook, attr_hook)
    try:
        ev.block(sl)
    except Raised as r:
        return "raises", norm(r.node)
    except _PyExc as e:
        return "raises", e.kind
    except (_Continue, _Break):
        pass
    except Unknown as e:
        raise ExtractError("from_dict: the statements deciding %s are not evaluable on %r: %s" % (sorted(attrs), element, e))
    for o in made:
        for a in attrs:
            if a in o.attrs:
                return "stored", o.attrs[a]
    return "absent", None


class _StopAtCall(Exception):
    pass


def call_landing(repo, body, var, element):
    """EVALUATE a from_dict branch on ONE concrete element dictionary up to its first `wn.add_*(...)` call: -> ('called', callee, positional values,
    keyword values) | ('raises', text) | ('none',).  Same abstract model as element_landing."""
    from ..peval import Obj, Unknown, Raised
    Ev, hook0 = concrete_evaluator(repo)
    got = []

    def hook(name, n, ev):
        f = n.func
        if isinstance(f, ast.Attribute):
            if f.attr in ("setdefault", "pop", "get") and 1 <= len(n.args) <= 2 and not n.keywords:
                base = ev.ev(f.value)
                if isinstance(base, dict):
                    k = ev.ev(n.args[0])
                    dflt = ev.ev(n.args[1]) if len(n.args) == 2 else None
                    if f.attr == "setdefault":
                        return base.setdefault(k, dflt)
                    if f.attr == "get":
                        return base.get(k, dflt)
                    if k in base or len(n.args) == 2:
                        return base.pop(k, dflt)
                    raise _PyExc("KeyError")
            if f.attr in ("lower", "upper", "strip") and not n.args:
                b = ev.ev(f.value)
                if isinstance(b, str):
                    return getattr(b, f.attr)()
            if isinstance(f.value, ast.Name) and isinstance(ev.env.get(f.value.id), Obj) and ev.env[f.value.id].name == "wn" and f.attr.startswith("add_"):
                got.append((f.attr, [ev.ev(a) for a in n.args], {kw.arg: ev.ev(kw.value) for kw in n.keywords if kw.arg}))
                raise _StopAtCall()
        return hook0(name, n, ev)

    def consts(dn):
        raise Unknown("unbound name %s" % dn)
    ev = Ev({var: element, "wn": Obj("wn", {})}, consts, hook, lambda obj, attr: NotImplemented)
    try:
        ev.block(list(body))
    except _StopAtCall:
        return ("called",) + got[0]
    except Raised as r:
        return ("raises", norm(r.node))
    except _PyExc as e:
        return ("raises", e.kind)
    except (_Continue, _Break):
        pass
    except Unknown as e:
        raise ExtractError("from_dict: the statements before the add_* call of the branch are not evaluable on %r: %s" % (element, e))
    return ("none",)


def doc_type_words(getter):
    """identifiers in the type part (before the first ':' of the first line) of a numpy-style property docstring."""
    doc = ast.get_docstring(getter) or "" if getter is not None else ""
    first = doc.strip().split("\n")[0] if doc.strip() else ""
    if ":" not in first:
        return set()
    head = first.split(":")[0] if not first.startswith(":class:") else first.split("`")[1] if "`" in first else ""
    return set(re.findall(r"[A-Za-z_][A-Za-z0-9_]*", head))


def numeric_domain(ct, cn, k, info):
    """is the attribute behind key k numeric (legal values include 0 / 0.0)?  Evidence: the documented type of the property, a float()/int()
    conversion in its setter, or a numeric initial value of the field in a constructor of the class."""
    if info.get("getter") is not None:
        w = doc_type_words(info["getter"])
        if w & {"float", "int", "number"} and not w & {"bool", "str", "dict", "list", "tuple"}:
            return "documented as %s" % "/".join(sorted(w & {"float", "int", "number"}))
    st = info.get("setter")
    if st is not None:
        for c in calls(st):
            if isinstance(c.func, ast.Name) and c.func.id in ("float", "int"):
                return "setter converts with %s()" % c.func.id
    for fn in ct.methods(cn).get("__init__", []):
        for n in walk(fn):
            if isinstance(n, ast.Assign) and isinstance(n.targets[0], ast.Attribute) and isinstance(n.targets[0].value, ast.Name) and n.targets[0].value.id == "self" \
                    and n.targets[0].attr in (k, "_" + k) and isinstance(const(n.value), (int, float)) and not isinstance(const(n.value), bool):
                return "initialised to %r" % const(n.value)
    return None


def embeddable_classes(ct):
    """classes with an own to_dict that are not elements: objects the generic Node/Link.to_dict embeds as a dictionary."""
    return {cn for cn, c in ct.classes.items() if any(isinstance(n, ast.FunctionDef) and n.name == "to_dict" for n in c.body)} - {"Node", "Link", "Registry"}


def inp_reader_object_attrs(repo, emb):
    """attribute -> classes, from the INP reader's assignments `<elem>.<attr> = <wn.get_<class>(..)>` (directly or through a local)."""
    getters = {"get_" + cn.lower(): cn for cn in emb}
    out = {}
    try:
        t = repo.tree(EIO)
    except AnchorError:
        return out
    for fn in ast.walk(t):
        if not isinstance(fn, ast.FunctionDef):
            continue
        local, stores = {}, []
        for n in ast.walk(fn):
            if isinstance(n, ast.Assign) and len(n.targets) == 1:
                if isinstance(n.targets[0], ast.Name) and isinstance(n.value, ast.Call) and last_attr(n.value) in getters:
                    local[n.targets[0].id] = getters[last_attr(n.value)]
                if isinstance(n.targets[0], ast.Attribute):
                    stores.append(n)
        for n in stores:
            v = n.value
            if isinstance(v, ast.Call) and last_attr(v) in getters:
                out.setdefault(n.targets[0].attr, set()).add(getters[last_attr(v)])
            elif isinstance(v, ast.Name) and v.id in local:
                out.setdefault(n.targets[0].attr, set()).add(local[v.id])
    return out


def object_domain(emb, inp_attrs, k, info):
    """embeddable classes the attribute behind key k can hold.  Evidence: the documented type of the property, or an INP-reader
    assignment `<elem>.<k> = <registry lookup>`."""
    out = set(inp_attrs.get(k, ()))
    if info.get("getter") is not None:
        out |= doc_type_words(info["getter"]) & emb
    return out


def rule_values(repo, chk, ct, fd, emits):
    """R-C13-6 / R-C13-7: from_dict evaluated on one element dictionary per (class, key): an embedded object is re-bound to the model's
    object of that name; the legal value 0.0 of a numeric key is restored."""
    emb = embeddable_classes(ct)
    inp_attrs = inp_reader_object_attrs(repo, emb)
    for kind, listkey, typekey, table in (("node", "nodes", "node_type", NODE_BRANCHES), ("link", "links", "link_type", LINK_BRANCHES)):
        var, bodies, loop = find_branches(fd, listkey, typekey)
        for tname, classes in table.items():
            if tname not in bodies:
                continue
            br = Branch(bodies[tname], var)
            for cn in classes:
                pub = ct.public(cn)
                base = {"name": "E1", typekey: tname}
                if "pump_type" in pub:
                    g = pub["pump_type"].get("getter")
                    vals = [const(r.value) for r in walk(g) if isinstance(r, ast.Return)] if g is not None else []
                    if vals and isinstance(vals[0], str):
                        base["pump_type"] = vals[0]
                if "valve_type" in pub:
                    g = pub["valve_type"].get("getter")
                    vals = [const(r.value) for r in walk(g) if isinstance(r, ast.Return)] if g is not None else []
                    if vals and isinstance(vals[0], str):
                        base["valve_type"] = vals[0]
                for k, info in sorted(pub.items()):
                    if k in DISCRIMINATORS or not emits[kind](k) or ((k + "_name") in pub and not emits[kind](k, "ref")):
                        continue
                    lands = {a for a in br.attr_land.get(k, ()) if a in (k, "_" + k)}
                    if not lands:
                        # restored through an argument of wn.add_*(...): R-C13-1 decides WHERE it lands; R-C13-7b that the legal value 0.0 reaches the call
                        sites = sorted(br.call_land.get(k, ()), key=str)
                        why = numeric_domain(ct, cn, k, info) if sites else None
                        # an int() / float() conversion in the setter alone is weak evidence here (initial_status converts an enum member with int();
                        # to_dict emits its name, never the number 0): only a documented numeric type or a numeric initial value counts
                        if why and not why.startswith("setter converts"):
                            base0 = dict(base)
                            for k2 in pub:
                                if k2.endswith("_node_name"):
                                    base0[k2] = "N_" + k2
                            ref = call_landing(repo, loop.body, var, dict(base0, **{k: 7.25}))
                            got = call_landing(repo, loop.body, var, dict(base0, **{k: 0.0}))

                            def where(res, value):
                                if res[0] != "called":
                                    return None
                                hits = [("#%d" % i) for i, v in enumerate(res[2]) if isinstance(v, (int, float)) and not isinstance(v, bool) and v == value]
                                hits += [kw for kw, v in res[3].items() if isinstance(v, (int, float)) and not isinstance(v, bool) and v == value]
                                return hits
                            w_ref = where(ref, 7.25)
                            if not w_ref:
                                continue          # the key is not handed to the call as a number of its own (a pump's power / curve parameter): outside this rule
                            w0 = where(got, 0.0) or []
                            ok = got[0] == "called" and all(p_ in w0 for p_ in w_ref)
                            chk.expect(ok, "R-C13-7b", "%s key %r (numeric: %s): the value 0.0 reaches %s(...) like any other number" % (cn, k, why, ref[1]), loc(fd, loop),
                                       "to_dict emits %r = 0.0 (a legal value); the %s branch of from_dict evaluated on such a dictionary must hand 0.0 to the same parameter that receives "
                                       "7.25 -- a default substituted through `or` / a truthiness test treats 0.0 like a missing key" % (k, tname),
                                       expected="0.0 in %s" % w_ref, found="%s" % (got[1:] if got[0] == "called" else got,))
                        continue
                    settable = info["kind"] in ("inst", "classattr") or (info.get("setter") is not None and not only_raises(info["setter"]))
                    # --- R-C13-6: embedded objects
                    objs = object_domain(emb, inp_attrs, k, info) if settable else set()
                    for oc in sorted(objs):
                        tds = returned_dicts(repo.func(ELEM, oc + ".to_dict"))
                        if not tds or "name" not in tds[0]:
                            raise ExtractError("%s.to_dict: the embedded image (a dictionary with a 'name') could not be derived" % oc)
                        from ..peval import Obj
                        image = {kk: ("OBJ1" if kk == "name" else Obj("image of %s.%s" % (oc, kk), {})) for kk in tds[0]}
                        el = dict(base)
                        el[k] = image
                        res, val = element_landing(repo, loop, var, el, lands)
                        ok = res == "stored" and isinstance(val, Obj) and val.cls == "registry object" and getattr(val, "arg", None) == "OBJ1"
                        shown = "the embedded dictionary itself" if val is image else (val.name if isinstance(val, Obj) else repr(val))
                        chk.expect(ok, "R-C13-6", "%s key %r (a %s, embedded by to_dict as its dictionary) is re-bound by from_dict to the model's %s of that name" % (
                            cn, k, oc, oc), loc(fd, loop),
                            "to_dict emits %s.%s as the dictionary %s.to_dict() returns; from_dict stores %s in %s.%s: the re-created element does not refer to the "
                            "model's %s (to_dict of the copy differs, the INP writer reads .name of a dict)" % (cn, k, oc, shown, cn, k, oc),
                            expected="wn.get_%s(<name>)" % oc.lower(), found="%s: %s" % (res, shown))
                    # --- R-C13-7: zero is a value
                    why = numeric_domain(ct, cn, k, info) if settable or lands else None
                    if why and not objs:
                        el = dict(base)
                        el[k] = 0.0
                        res, val = element_landing(repo, loop, var, el, lands)
                        ok = res == "stored" and isinstance(val, (int, float)) and not isinstance(val, bool) and val == 0.0
                        chk.expect(ok, "R-C13-7", "%s key %r (numeric: %s): the value 0.0 is restored by from_dict" % (cn, k, why), loc(fd, loop),
                                   "to_dict emits %r = 0.0; evaluating the %s branch of from_dict on such a dictionary gives %s: the value is dropped (a truthiness "
                                   "test on a number treats 0.0 like a missing key)" % (k, tname, "%s %r" % (res, val)),
                                   expected="%s.%s = 0.0" % (cn, k), found="%s %r" % (res, val))
    chk.floor("R-C13-6", 2)
    chk.floor("R-C13-7", 12)
    chk.floor("R-C13-7b", 8)


def demand_entry_reads(body):
    """keys read from the FIRST entry of a list-valued key and from every FURTHER entry, in a from_dict branch: reads through
    `lst[0].setdefault('k')` / `.get('k')` / `['k']`, directly or through a temporary bound to the entry (`first = lst[0]`,
    `entry = lst[i]`, `for entry in lst[1:]`)."""
    mod = ast.Module(body=list(body), type_ignores=[])
    role = {}

    def entry_kind(e):
        if isinstance(e, ast.Name):
            return role.get(e.id)
        if isinstance(e, ast.Subscript) and isinstance(e.value, ast.Name) and not isinstance(e.slice, ast.Slice) and not isinstance(const(e.slice), str):
            return "first" if const(e.slice) == 0 else "further"
        return None
    for _ in range(2):
        for n in ast.walk(mod):
            if isinstance(n, ast.Assign) and len(n.targets) == 1 and isinstance(n.targets[0], ast.Name) and entry_kind(n.value):
                role[n.targets[0].id] = entry_kind(n.value)
            if isinstance(n, ast.For) and isinstance(n.target, ast.Name) and isinstance(n.iter, ast.Subscript) and isinstance(n.iter.slice, ast.Slice) \
                    and isinstance(const(n.iter.slice.lower), int) and const(n.iter.slice.lower) >= 1:
                role[n.target.id] = "further"
    out = {"first": set(), "further": set()}
    for n in ast.walk(mod):
        if (isinstance(n, ast.Call) and isinstance(n.func, ast.Attribute) and n.func.attr in ("setdefault", "get", "pop") and n.args
                and isinstance(const(n.args[0]), str) and entry_kind(n.func.value)):
            out[entry_kind(n.func.value)].add(const(n.args[0]))
        if isinstance(n, ast.Subscript) and isinstance(const(n.slice), str) and entry_kind(n.value):
            out[entry_kind(n.value)].add(const(n.slice))
    return out["first"], out["further"]


def rule_explicit(repo, chk, fd):
    """Pattern / Curve / Source / TimeSeries: explicit to_dict keys vs from_dict reads."""
    table = [("Pattern", "patterns", "pattern"), ("Curve", "curves", "curve"), ("Source", "sources", "source")]
    for cname, listkey, _ in table:
        td = repo.func(ELEM, cname + ".to_dict")
        chk.fn(td)
        keys = explicit_dict_keys(td)
        loop = None
        for n in walk(fd):
            if isinstance(n, ast.For) and isinstance(n.iter, ast.Subscript) and const(n.iter.slice) == listkey and isinstance(n.target, ast.Name):
                loop = n
        if loop is None:
            raise ExtractError("from_dict: loop over d[%r] not found" % listkey)
        read = keys_of(loop, loop.target.id)
        chk.sample({"class": cname, "emitted": sorted(keys), "consumed": sorted(read)})
        for k in sorted(keys):
            if cname == "Source" and k == "species":
                chk.ok("R-C13-1b", "Source key 'species' (multi-species extension only, absent for EPANET sources): no obligation", loc(fd, loop))
                continue
            chk.expect(k in read, "R-C13-1b", "%s key %r emitted by %s.to_dict is read by from_dict" % (cname, k, cname), loc(fd, loop),
                       "to_dict emits %r%s but from_dict never reads it" % (k, " (conditionally)" if keys[k] else ""),
                       expected="%s[%r]" % (loop.target.id, k), found=sorted(read))
    # demand entries
    td = repo.func(ELEM, "TimeSeries.to_dict")
    keys = explicit_dict_keys(td)
    var, bodies, loop = find_branches(fd, "nodes", "node_type")
    jb = bodies.get("Junction", [])
    reads0, readsi = demand_entry_reads(jb)
    for k in sorted(keys):
        chk.expect(k in reads0, "R-C13-1b", "demand entry key %r is read for the first demand" % k, loc(fd, loop), found=sorted(reads0))
        chk.expect(k in readsi, "R-C13-1b", "demand entry key %r is read for every further demand" % k, loc(fd, loop), found=sorted(readsi))
    chk.floor("R-C13-1b", 3 + 3 + 5 + 6)


def rule_json_shapes(repo, chk, ct, fd):
    """R-C13-2: a setter fed from from_dict that insists on tuples must be fed tuples."""
    n_inst = 0
    for kind, listkey, typekey, table in (("node", "nodes", "node_type", NODE_BRANCHES), ("link", "links", "link_type", LINK_BRANCHES)):
        var, bodies, loop = find_branches(fd, listkey, typekey)
        for tname, classes in table.items():
            if tname not in bodies:
                continue
            br = Branch(bodies[tname], var)
            pub = ct.public(classes[0])
            for (k, attr), expr in sorted(br.attr_expr.items()):
                info = pub.get(attr)
                if not info or info.get("setter") is None:
                    continue
                st = info["setter"]
                strict = []
                for n in walk(st):
                    if isinstance(n, ast.Call) and isinstance(n.func, ast.Name) and n.func.id == "isinstance" and len(n.args) == 2:
                        t = n.args[1]
                        if isinstance(t, ast.Name) and t.id == "tuple":
                            # strict only if used negated in a raising test
                            p = parent(n)
                            if isinstance(p, ast.UnaryOp) and isinstance(p.op, ast.Not):
                                strict.append(n)
                if not strict:
                    chk.ok("R-C13-2", "%s.%s setter accepts lists (no tuple-only test)" % (tname, attr), loc(st))
                    n_inst += 1
                    continue
                converts = any(isinstance(x, ast.Call) and isinstance(x.func, ast.Name) and x.func.id == "tuple" for x in ast.walk(expr))
                n_inst += 1
                chk.expect(converts, "R-C13-2", "%s.%s: the setter insists on tuples, from_dict converts the JSON lists" % (tname, attr), loc(fd, expr),
                           "setter %s rejects non-tuples (%s) but from_dict passes the raw value %s: read_json of a model with %s raises" % (
                               st._qual, norm(strict[0]), norm(expr), attr),
                           expected="tuple(...) conversion in from_dict", found=norm(expr))
    chk.floor("R-C13-2", 20)


def enum_members(repo, rel, name):
    c = repo.cls(rel, name)
    canon, seen = [], {}
    for n in c.body:
        if isinstance(n, ast.Assign) and len(n.targets) == 1 and isinstance(n.targets[0], ast.Name):
            v = unparse(n.value)
            if v not in seen:
                seen[v] = n.targets[0].id
                canon.append(n.targets[0].id)
    strfn = [n for n in c.body if isinstance(n, ast.FunctionDef) and n.name == "__str__"]
    returns_name = bool(strfn) and any(isinstance(r, ast.Return) and unparse(r.value) == "self.name" for r in walk(strfn[0]))
    all_names = [n.targets[0].id for n in c.body if isinstance(n, ast.Assign) and len(n.targets) == 1 and isinstance(n.targets[0], ast.Name)]
    return canon, all_names, returns_name, c


class _PyExc(Exception):
    """a Python exception the modelled code would raise (KeyError of an enum / dict lookup ...)."""

    def __init__(self, kind):
        Exception.__init__(self, kind)
        self.kind = kind


class _Continue(Exception):
    pass


class _Break(Exception):
    pass


def _type_names(t):
    if isinstance(t, (ast.Tuple, ast.List)):
        out = set()
        for e in t.elts:
            out |= _type_names(e)
        return out
    return {dotted(t) or unparse(t)}


def concrete_evaluator(repo):
    """the partial evaluator of sa/peval.py with the modelled str / re calls of _shared._string_evaluator, extended by the
    statement and expression forms small dispatch code uses: dict displays, `d[k]` loads and stores, `k in d`, `d.get(k)`,
    `for x in <concrete list>` with continue / break, try/except around a modelled failing lookup.
    -> (Evaluator class, call hook); nothing of the repository runs."""
    from ._shared import _string_evaluator
    Base, base_hook = _string_evaluator(repo)

    def hook(name, n, ev):
        if isinstance(n.func, ast.Attribute) and n.func.attr == "get" and 1 <= len(n.args) <= 2 and not n.keywords:
            base = ev.ev(n.func.value)
            if isinstance(base, dict):
                return base.get(ev.ev(n.args[0]), ev.ev(n.args[1]) if len(n.args) == 2 else None)
        if name == "dict" and not n.args:
            return {k.arg: ev.ev(k.value) for k in n.keywords}
        if name in ("list", "tuple") and not n.args and not n.keywords:
            return []
        if isinstance(n.func, ast.Attribute) and n.func.attr in ("items", "keys", "values") and not n.args and not n.keywords:
            base = ev.ev(n.func.value)
            if isinstance(base, dict):
                return [[k, v] for k, v in base.items()] if n.func.attr == "items" else list(getattr(base, n.func.attr)())
        if name in ("max", "min") and len(n.args) >= 2 and not n.keywords:
            vals = [ev.ev(a) for a in n.args]
            if all(isinstance(v, (int, float)) for v in vals):
                return max(vals) if name == "max" else min(vals)
        if name in ("str.upper", "str.lower", "str.strip") and len(n.args) == 1:
            v = ev.ev(n.args[0])
            if isinstance(v, str):
                return getattr(v, name.split(".")[1])()
            raise _PyExc("TypeError")
        if name in ("float", "int") and len(n.args) == 1 and not n.keywords:
            v = ev.ev(n.args[0])
            if isinstance(v, (str, int, float)):
                try:
                    return float(v) if name == "float" else int(v)
                except ValueError:
                    raise _PyExc("ValueError")
        if isinstance(n.func, ast.Attribute) and n.func.attr == "join" and len(n.args) == 1 and not n.keywords:
            base = ev.ev(n.func.value)
            if isinstance(base, str):
                items = ev.ev(n.args[0])
                if isinstance(items, (list, tuple)) and all(isinstance(x, str) for x in items):
                    return base.join(items)
        if isinstance(n.func, ast.Attribute) and n.func.attr == "append" and len(n.args) == 1:
            base = ev.ev(n.func.value)
            if isinstance(base, list):
                base.append(ev.ev(n.args[0]))
                return None
        return base_hook(name, n, ev)

    class Ev(Base):
        def e_Dict(self, n):
            return {self.ev(k): self.ev(v) for k, v in zip(n.keys, n.values)}

        def binop(self, op, a, b, n):
            if isinstance(op, ast.Mod) and isinstance(a, str):
                from ..peval import Unknown, Obj
                args = tuple(b) if isinstance(b, (list, tuple)) else (b,)
                if any(isinstance(x, (Obj, dict, list)) for x in args):
                    raise Unknown("%%-format over %r" % (args,))
                try:
                    return a % args
                except (TypeError, ValueError) as e:
                    raise Unknown("%%-format: %s" % e)
            return Base.binop(self, op, a, b, n)

        def _comprehend(self, gens, emit):
            from ..peval import Unknown
            saved = dict(self.env)

            def rec(i):
                if i == len(gens):
                    emit()
                    return
                g = gens[i]
                items = self.ev(g.iter)
                if isinstance(items, dict):
                    items = list(items.keys())
                if not isinstance(items, (list, tuple)):
                    raise Unknown("comprehension over %r" % (items,))
                for it in list(items):
                    self.assign(g.target, it)
                    if all(self.truth(self.ev(c)) for c in g.ifs):
                        rec(i + 1)
            try:
                rec(0)
            finally:
                self.env.clear()
                self.env.update(saved)

        def e_ListComp(self, n):
            out = []
            self._comprehend(n.generators, lambda: out.append(self.ev(n.elt)))
            return out

        e_GeneratorExp = e_SetComp = e_ListComp

        def e_DictComp(self, n):
            out = {}

            def put():
                out[self.ev(n.key)] = self.ev(n.value)
            self._comprehend(n.generators, put)
            return out

        def e_JoinedStr(self, n):
            from ..peval import Unknown, Obj
            out = []
            for part in n.values:
                if isinstance(part, ast.Constant):
                    out.append(str(part.value))
                    continue
                v = self.ev(part.value)
                if isinstance(v, Obj) or isinstance(v, (dict, list)):
                    raise Unknown("f-string over %r" % (v,))
                spec = self.ev(part.format_spec) if part.format_spec is not None else ""
                v = {115: str, 114: repr, 97: ascii}.get(part.conversion, lambda x: x)(v)
                out.append(format(v, spec))
            return "".join(out)

        def e_Subscript(self, n):
            b = self.ev(n.value)
            if isinstance(b, dict):
                k = self.ev(n.slice)
                if k in b:
                    return b[k]
                raise _PyExc("KeyError")
            return self.subscript_of(b, n)

        def subscript_of(self, b, n):
            if isinstance(b, (str, list, tuple)):
                if isinstance(n.slice, ast.Slice):
                    lo = self.ev(n.slice.lower) if n.slice.lower is not None else None
                    hi = self.ev(n.slice.upper) if n.slice.upper is not None else None
                    return b[lo:hi]
                i = self.ev(n.slice)
                try:
                    return b[i]
                except IndexError:
                    raise _PyExc("IndexError")
            from ..peval import Unknown
            raise Unknown("subscript of %r" % (b,))

        def e_Compare(self, n):
            # `x in {..}` / `x in dict`: membership among the keys
            if len(n.ops) == 1 and isinstance(n.ops[0], (ast.In, ast.NotIn)):
                right = self.ev(n.comparators[0])
                if isinstance(right, dict):
                    r = self.ev(n.left) in right
                    return r if isinstance(n.ops[0], ast.In) else not r
            return Base.e_Compare(self, n)

        def assign(self, t, v):
            if isinstance(t, ast.Subscript):
                b = self.ev(t.value)
                if isinstance(b, dict):
                    b[self.ev(t.slice)] = v
                    return
            return Base.assign(self, t, v)

        def stmt(self, s_):
            if isinstance(s_, ast.Continue):
                raise _Continue()
            if isinstance(s_, ast.Break):
                raise _Break()
            if isinstance(s_, ast.For) and not s_.orelse:
                items = self.ev(s_.iter)
                if not isinstance(items, (list, tuple)):
                    from ..peval import Unknown
                    raise Unknown("loop over %r" % (items,))
                for it in items:
                    self.assign(s_.target, it)
                    try:
                        self.block(s_.body)
                    except _Continue:
                        continue
                    except _Break:
                        break
                return
            if isinstance(s_, ast.Try) and not s_.finalbody:
                try:
                    self.block(s_.body)
                except _PyExc as e:
                    for h in s_.handlers:
                        hn = _type_names(h.type) if h.type is not None else {"Exception"}
                        if e.kind in hn or hn & {"Exception", "BaseException"} or (e.kind in ("KeyError", "IndexError") and "LookupError" in hn):
                            self.block(h.body)
                            return
                    raise
                self.block(s_.orelse)
                return
            return Base.stmt(self, s_)
    return Ev, hook


def enum_evaluator(repo, rel, enums):
    """concrete evaluator (sa/peval.py + the modelled str/re calls of _shared._string_evaluator) for small functions that
    dispatch on strings / enum members: knows the members of the given enum classes ({name: (rel, class name)}) as abstract
    objects (aliases are the same object), module-level constants of `rel`, dict displays and `.get`, subscripts, isinstance
    on strings and enum members, and try/except around a failing lookup.  Nothing of the repository runs.
    -> (make(env) -> evaluator, members {enum: {member name: Obj}})"""
    from ..peval import Obj, Unknown, Raised
    Base, base_hook = concrete_evaluator(repo)
    members, lookup = {}, {}
    for en, (erel, ecls) in enums.items():
        c = repo.cls(erel, ecls)
        byval, tab = {}, {}
        for n in c.body:
            if isinstance(n, ast.Assign) and len(n.targets) == 1 and isinstance(n.targets[0], ast.Name):
                v = unparse(n.value)
                if v not in byval:
                    byval[v] = Obj("%s.%s" % (en, n.targets[0].id), {"name": n.targets[0].id, "value": const(n.value, v)}, cls=en)
                tab[n.targets[0].id] = byval[v]
        members[en] = tab
        # MixType-style __init__ registers the upper / lower case spellings of every name in _member_map_
        look = dict(tab)
        ini = [n for n in c.body if isinstance(n, ast.FunctionDef) and n.name == "__init__"]
        if ini and "_member_map_" in unparse(ini[0]):
            for nm, o in tab.items():
                if "upper()" in unparse(ini[0]):
                    look.setdefault(nm.upper(), o)
                if "lower()" in unparse(ini[0]):
                    look.setdefault(nm.lower(), o)
        lookup[en] = look

    def class_attr(d):
        parts = d.split(".")
        if parts[0] in members:
            if len(parts) == 1:
                return Obj("enum:" + parts[0], {}, cls="enumclass")
            if parts[1] in members[parts[0]]:
                o = members[parts[0]][parts[1]]
                for extra in parts[2:]:
                    if not isinstance(o, Obj) or extra not in o.attrs:
                        raise Unknown("attribute %s" % d)
                    o = o.attrs[extra]
                return o
            raise Unknown("no member %s" % d)
        if len(parts) == 1:
            try:
                node = repo.module_assign(rel, d)
            except AnchorError:
                raise Unknown("unbound name %s" % d)
            return make({}).ev(node)
        raise Unknown("unknown dotted name %s" % d)

    def hook(name, n, ev):
        if name == "isinstance" and len(n.args) == 2:
            v = ev.ev(n.args[0])
            tn = _type_names(n.args[1])
            if isinstance(v, str):
                return bool(tn & {"str", "six.string_types", "basestring", "object"})
            if isinstance(v, Obj) and v.cls in members:
                return bool(tn & {v.cls, "enum.Enum", "Enum", "object"})
            if isinstance(v, bool):
                return bool(tn & {"bool", "int", "object"})
            if isinstance(v, (int, float)):
                return bool(tn & {type(v).__name__, "object"})
            if v is None:
                return bool(tn & {"type(None)", "object"})
            raise Unknown("isinstance of %r" % (v,))
        if name in members and len(n.args) == 1:     # MixType(0): lookup by value
            v = ev.ev(n.args[0])
            for o in members[name].values():
                if o.attrs["value"] == v:
                    return o
            raise _PyExc("ValueError")
        return base_hook(name, n, ev)

    class Ev(Base):
        def subscript_of(self, b, n):
            if isinstance(b, Obj) and b.cls == "enumclass":
                k = self.ev(n.slice)
                tab = lookup[b.name.split(":", 1)[1]]
                if isinstance(k, str) and k in tab:
                    return tab[k]
                raise _PyExc("KeyError")
            return Base.subscript_of(self, b, n)

    def make(env):
        return Ev(env, class_attr, hook)
    return make, members


def run_setter(make, fn, value):
    """evaluate a property setter `fn(self, value)` concretely: -> ('stored', {field: value}) or ('raises', text)."""
    from ..peval import Obj, Raised, Unknown
    ps = params(fn)
    if len(ps) != 1:
        raise ExtractError("%s: setter with %d parameters" % (fn._qual, len(ps)))
    me = Obj("self", {})
    ev = make({"self": me, ps[0]: value})
    try:
        ev.run(fn.body)
    except Raised as r:
        return "raises", norm(r.node)
    except _PyExc as e:
        return "raises", e.kind
    except Unknown as e:
        raise ExtractError("%s not evaluable for the value %r: %s" % (fn._qual, value, e))
    return "stored", dict(me.attrs)


def rule_enum_vocab(repo, chk, ct):
    """R-C13-5: strings an enum-valued key is emitted as are accepted where the key lands."""
    # Tank.mixing_model : MixType
    pub = ct.public("Tank")
    st = pub["mixing_model"]["setter"]
    if st is None:
        raise AnchorError("Tank.mixing_model setter vanished")
    chk.fn(st)
    canon, all_names, returns_name, c = enum_members(repo, EUTIL, "MixType")
    if not returns_name:
        raise ExtractError("MixType.__str__ no longer returns self.name; emitted strings unknown")
    fields = backing_fields(pub["mixing_model"]["getter"])
    if not fields:
        raise ExtractError("Tank.mixing_model getter: backing field not found")
    # the setter is EVALUATED on every string to_dict can emit (and, for the message, on every string it mentions): whatever
    # its shape (if/elif chain, `in` tests, lookup table, MixType[...] lookup), the emitted name must be stored as the same member
    make, members = enum_evaluator(repo, ELEM, {"MixType": (EUTIL, "MixType")})
    vocab = set(str_consts(st))
    for nm in names_in_load(st):
        try:
            vocab |= set(str_consts(repo.module_assign(ELEM, nm)))
        except AnchorError:
            pass
    accepted = sorted(v for v in vocab if " " not in v and run_setter(make, st, v)[0] == "stored")
    chk.sample({"enum": "MixType", "canonical_members": canon, "str_returns_name": returns_name, "setter_accepts": accepted})
    for m in canon:
        kind, res = run_setter(make, st, m)
        got = [res[f] for f in sorted(fields) if f in res] if kind == "stored" else []
        ok = kind == "stored" and bool(got) and all(g == members["MixType"][m] for g in got)
        if kind == "stored":
            why = "the setter stores %s for the string %r" % (got, m)
        else:
            why = "the setter accepts only %s: from_dict raises ValueError for such a tank" % accepted
        chk.expect(ok, "R-C13-5", "Tank.mixing_model setter accepts %r, the string to_dict emits for MixType.%s" % (m, m), loc(st),
                   "to_dict emits str(MixType.%s) = %r; %s" % (m, m, why), expected="MixType.%s" % m, found=got if kind == "stored" else accepted)
    # initial_status : LinkStatus, converted by LinkStatus[...] in the registry add_* methods
    canon, all_names, returns_name, c = enum_members(repo, BASE, "LinkStatus")
    if not returns_name:
        raise ExtractError("LinkStatus.__str__ no longer returns self.name")
    for meth in ("add_pipe", "add_pump", "add_valve"):
        fn = repo.func(MODEL, "LinkRegistry." + meth)
        chk.fn(fn)
        conv = [n for n in walk(fn) if isinstance(n, ast.Subscript) and isinstance(n.value, ast.Name) and n.value.id == "LinkStatus"
                and isinstance(n.slice, ast.Name) and n.slice.id == "initial_status"]
        chk.expect(bool(conv), "R-C13-5", "LinkRegistry.%s converts a string initial_status by name lookup LinkStatus[...]" % meth, loc(fn),
                   "to_dict emits str(LinkStatus.X) = 'X' (the member name); the consumer must look the name up", found="no LinkStatus[initial_status]")
    chk.floor("R-C13-5", len(canon) and 4 + 3)


def comparison_texts(repo, text_fn):
    """Comparison member -> the word Comparison.text returns for it, by evaluating the property on every member (an if/elif
    chain, early returns and a lookup table all evaluate alike); members for which it raises emit nothing."""
    from ..peval import Unknown, Raised
    make, members = enum_evaluator(repo, CTRL, {"Comparison": (CTRL, "Comparison")})
    out = {}
    for nm, obj in sorted(members["Comparison"].items()):
        if obj.attrs["name"] != nm:
            continue      # alias
        try:
            v = make({"self": obj}).run(text_fn.body)
        except (Raised, _PyExc):
            continue
        except Unknown as e:
            raise ExtractError("Comparison.text not evaluable for member %s: %s" % (nm, e))
        if isinstance(v, str):
            out[nm] = v
    return out


def aliases_of(fn, subject):
    """names that hold `subject` (source text, e.g. 'current[6]'), possibly upper/lower-cased or stripped, through plain assignments."""
    al = {subject}
    for _ in range(3):
        for n in walk(fn):
            if isinstance(n, ast.Assign) and len(n.targets) == 1 and isinstance(n.targets[0], ast.Name):
                v = n.value
                while isinstance(v, ast.Call) and isinstance(v.func, ast.Attribute) and v.func.attr in ("upper", "lower", "strip") and not v.args:
                    v = v.func.value
                if unparse(v) in al:
                    al.add(n.targets[0].id)
    return al


def dispatched_strings(fn, subject):
    """the strings `subject` (or a temporary holding it) is tested against / looked up with: `s == 'X'`, `'X' == s`,
    `s in ('X', ..)`, and the keys of a dict display indexed with it (`{..}[s]`, `{..}.get(s)`, also through a local table)."""
    al = aliases_of(fn, subject)

    def is_subj(e):
        while isinstance(e, ast.Call) and isinstance(e.func, ast.Attribute) and e.func.attr in ("upper", "lower", "strip") and not e.args:
            e = e.func.value
        return unparse(e) in al

    tables = {}
    for n in walk(fn):
        if isinstance(n, ast.Assign) and len(n.targets) == 1 and isinstance(n.targets[0], ast.Name) and isinstance(n.value, ast.Dict):
            tables[n.targets[0].id] = n.value

    def table(e):
        if isinstance(e, ast.Dict):
            return e
        if isinstance(e, ast.Name):
            return tables.get(e.id)
        return None

    out = set()
    for n in walk(fn):
        if isinstance(n, ast.Compare) and len(n.ops) == 1:
            l, r = n.left, n.comparators[0]
            if isinstance(n.ops[0], ast.Eq):
                if is_subj(l) and isinstance(const(r), str):
                    out.add(const(r))
                if is_subj(r) and isinstance(const(l), str):
                    out.add(const(l))
            if isinstance(n.ops[0], ast.In) and is_subj(l):
                if isinstance(r, (ast.Tuple, ast.List, ast.Set)):
                    out |= {const(e) for e in r.elts if isinstance(const(e), str)}
                elif table(r) is not None:
                    out |= {const(k) for k in table(r).keys if isinstance(const(k), str)}
        if isinstance(n, ast.Subscript) and table(n.value) is not None and is_subj(n.slice):
            out |= {const(k) for k in table(n.value).keys if isinstance(const(k), str)}
        if isinstance(n, ast.Call) and isinstance(n.func, ast.Attribute) and n.func.attr == "get" and n.args and table(n.func.value) is not None and is_subj(n.args[0]):
            out |= {const(k) for k in table(n.func.value).keys if isinstance(const(k), str)}
    return out


def node_dispatch_tokens(repo, rcl, kinds):
    """first tokens of a control line for which _read_control_line fetches the element with get_node (not get_link).
    Decided by EVALUATING the head of the function (up to the binding of the element) on a line starting with each kind, so
    any shape of the dispatch (in-test, == chain, lookup table, conditional expression, hoisted temporaries) gives the same
    answer; only if that head is outside the evaluable fragment the syntactic reading of the `if` is used."""
    from ..peval import Obj, Unknown, Raised, Returned
    Ev, hook0 = concrete_evaluator(repo)
    ps = params(rcl)
    if len(ps) < 2:
        raise ExtractError("_read_control_line: signature changed: %s" % ps)

    def hook(name, n, ev):
        if isinstance(n.func, ast.Attribute) and n.func.attr in ("get_node", "get_link"):
            return Obj(n.func.attr, {"arg": ev.ev(n.args[0]) if n.args else None})
        if isinstance(n.func, ast.Name) and isinstance(ev.env.get(n.func.id), Obj) and ev.env[n.func.id].name == "bound method":
            return Obj(ev.env[n.func.id].attrs["meth"], {"arg": ev.ev(n.args[0]) if n.args else None})
        return hook0(name, n, ev)

    def attr_hook(obj, attr):
        if attr in ("get_node", "get_link") and isinstance(obj, Obj) and obj.name == "wn":
            return Obj("bound method", {"meth": attr})
        return NotImplemented

    def consts(d):
        try:
            node = repo.module_assign(EIO, d)
        except AnchorError:
            raise Unknown("unbound name %s" % d)
        return Ev({}, consts, hook).ev(node)

    out, evaluable = set(), True
    for k in kinds:
        env = {ps[0]: "%s e1 TRUE AT TIME 3600" % k, ps[1]: Obj("wn", {})}
        for extra in ps[2:]:
            env[extra] = Obj(extra, {})
        ev = Ev(env, consts, hook, attr_hook)
        fetched = None
        try:
            for st in rcl.body:
                ev.stmt(st)
                fetched = [v for v in ev.env.values() if isinstance(v, Obj) and v.name in ("get_node", "get_link") and v.attrs.get("arg") == "e1"]
                if fetched:
                    break
        except (Unknown, Raised, Returned, _PyExc, _Continue, _Break, TypeError, IndexError, KeyError, AttributeError):
            fetched = None
        if not fetched:
            evaluable = False
            break
        if all(v.name == "get_node" for v in fetched):
            out.add(k)
    if evaluable:
        return out
    node_tokens = set()
    for n in walk(rcl):
        if isinstance(n, ast.If) and any(isinstance(c, ast.Call) and last_attr(c) == "get_node" and "element" in unparse(parent(c)) for c in calls(ast.Module(body=n.body, type_ignores=[]))):
            t = n.test
            if isinstance(t, ast.Compare) and "current[0]" in unparse(t.left):
                comp = t.comparators[0]
                if isinstance(t.ops[0], ast.Eq) and isinstance(const(comp), str):
                    node_tokens.add(const(comp))
                elif isinstance(t.ops[0], ast.In) and isinstance(comp, (ast.Tuple, ast.List, ast.Set)):
                    node_tokens |= {const(e) for e in comp.elts}
    if not node_tokens:
        raise ExtractError("_read_control_line: node / link dispatch on the first token not found")
    return node_tokens


def rule_action_round_trip(repo, chk):
    """R-C13-3g: every action text ControlAction.__str__ can write (one per element kind; the value words of leak_status and status) is
    read back by the rule reader (_EpanetRule.generate_control, THEN and ELSE clauses) as the same action: target resolved in the
    matching registry, same attribute, same value.  Both sides are EVALUATED on concrete actions (writer: __str__ and the methods it
    calls; reader: the body of the clause loop) -- 24 fixtures: 6 element kinds x 2 values x THEN / ELSE, bounded to them.  Two things are
    still located by shape: the THEN / ELSE loops by the text `_then_clauses` / `_else_clauses` in the unparsed iterator, and the result
    by a `ControlAction(` call with 3 positional arguments."""
    from ..peval import Obj, Unknown, Raised
    ct = ClassTable(repo)
    wfn = repo.func(CTRL, "ControlAction.__str__")
    gen = repo.func(EIO, "_EpanetRule.generate_control")
    chk.fn(wfn, gen)
    Ev, hook0 = concrete_evaluator(repo)
    make_enum, members = enum_evaluator(repo, CTRL, {"LinkStatus": (BASE, "LinkStatus")})
    ctrl_classes = repo.classes(CTRL)

    def method(cname, mname):
        seen, todo = set(), [cname]
        while todo:
            c = todo.pop(0)
            if c in seen or c not in ctrl_classes:
                continue
            seen.add(c)
            for n in ctrl_classes[c].body:
                if isinstance(n, ast.FunctionDef) and n.name == mname:
                    return n
            todo += [b.id for b in ctrl_classes[c].bases if isinstance(b, ast.Name)]
        return None

    def kinds():
        out = []
        for cn in ("Junction", "Tank", "Reservoir", "Pipe", "Pump", "Valve"):
            if cn not in ct.classes:
                raise AnchorError("class %s vanished" % cn)
            pub = ct.public(cn)
            for key in ("node_type", "link_type"):
                g = pub.get(key, {}).get("getter")
                vals = [const(r.value) for r in walk(g) if isinstance(r, ast.Return)] if g is not None else []
                if vals and isinstance(vals[0], str):
                    out.append((cn, key, vals[0]))
        if len(out) < 6:
            raise ExtractError("node_type / link_type constants of the element classes not found: %s" % out)
        return out

    # ---------------- writer
    def write(tkey, tval, attribute, value):
        target = Obj("target", {"name": "e1", tkey: tval})
        me = Obj("self", {"_target_obj": target, "_attribute": attribute, "_value": value})

        def hook(name, n, ev):
            if name == "isinstance" and len(n.args) == 2 and ev.ev(n.args[0]) is target:
                tn = {t.split(".")[-1] for t in _type_names(n.args[1])}
                if tn <= {"Link", "Node"}:
                    return ("Link" in tn and tkey == "link_type") or ("Node" in tn and tkey == "node_type")
            if isinstance(n.func, ast.Attribute) and isinstance(n.func.value, ast.Name) and n.func.value.id == "self":
                m = method("ControlAction", n.func.attr)
                if m is not None:
                    ps = params(m)
                    sub = Ev(dict(zip(ps, [ev.ev(a) for a in n.args]), self=me), class_attr, hook)
                    return sub.run(m.body)
            return enum_hook(name, n, ev)
        e0 = make_enum({})
        class_attr, enum_hook = e0.class_attr, e0.call_hook
        try:
            return type(e0)({"self": me}, class_attr, hook).run(wfn.body)
        except (Unknown, Raised, _PyExc) as e:
            raise ExtractError("ControlAction.__str__ not evaluable for (%s, %r, %r): %s" % (tval, attribute, value, e))

    # ---------------- reader
    loops = {}
    for n in walk(gen):
        if isinstance(n, ast.For) and isinstance(n.target, ast.Name):
            it = unparse(n.iter)
            for clause, fld in (("THEN", "_then_clauses"), ("ELSE", "_else_clauses")):
                if fld in it:
                    loops[clause] = n
    if set(loops) != {"THEN", "ELSE"}:
        raise ExtractError("_EpanetRule.generate_control: loops over the THEN / ELSE clauses not found (%s)" % sorted(loops))
    empties = {n.targets[0].id for n in walk(gen) if isinstance(n, ast.Assign) and len(n.targets) == 1 and isinstance(n.targets[0], ast.Name)
               and (isinstance(n.value, ast.List) and not n.value.elts or (isinstance(n.value, ast.Call) and call_name(n.value) == "list" and not n.value.args))}
    gps = params(gen)
    if not gps:
        raise ExtractError("_EpanetRule.generate_control: signature changed")

    tokens = {}

    def read(clause, line):
        got = []
        model = Obj("model", {})
        me = Obj("self", {})

        def hook(name, n, ev):
            f = n.func
            if isinstance(f, ast.Attribute) and f.attr in ("get_node", "get_link") and ev.ev(f.value) is model:
                o = Obj(f.attr, {})
                o.arg = ev.ev(n.args[0]) if n.args else None
                return o
            if name.split(".")[-1] == "ControlAction" and len(n.args) == 3:
                got.append(tuple(ev.ev(a) for a in n.args))
                return Obj("action", {})
            if name == "to_si" and len(n.args) >= 2:
                return ev.ev(n.args[1])
            if isinstance(f, ast.Attribute) and isinstance(f.value, ast.Name) and f.value.id in ctrl_classes:
                m = method(f.value.id, f.attr)
                if m is not None:
                    ps = params_all(m)
                    args = [ev.ev(a) for a in n.args]
                    if any(isinstance(d, ast.Name) and d.id == "classmethod" for d in m.decorator_list):
                        args = [Obj("cls", {})] + args
                    return Ev(dict(zip(ps, args)), consts, hook, attr_hook).run(m.body)
            return hook0(name, n, ev)

        def attr_hook(obj, attr):
            if obj is me:
                return Obj("self.%s" % attr, {})
            return NotImplemented

        def consts(dn):
            # a module-level table of the reader's module (a literal display), or a member of an enum-like class used as an opaque token
            if "." not in dn:
                try:
                    v = repo.module_assign(EIO, dn)
                except AnchorError:
                    v = None
                if isinstance(v, (ast.Dict, ast.List, ast.Tuple, ast.Set, ast.Constant)):
                    return Ev({}, consts, hook, attr_hook).ev(v)
            elif re.match(r"^[A-Z]\w*\.[A-Za-z_]\w*$", dn):
                tok = tokens.setdefault(dn, Obj(dn, {}))
                return tok
            raise Unknown("unbound name %s" % dn)
        env = {nm: [] for nm in empties}
        env.update({gps[0]: model, "self": me, loops[clause].target.id: line})
        try:
            Ev(env, consts, hook, attr_hook).block(loops[clause].body)
        except Raised as r:
            return "raises %s" % norm(r.node), None
        except _PyExc as e:
            return "raises %s" % e.kind, None
        except (_Continue, _Break):
            pass
        except Unknown as e:
            raise ExtractError("_EpanetRule.generate_control (%s clause) not evaluable on %r: %s" % (clause, line, e))
        if len(got) != 1:
            return "builds %d actions" % len(got), None
        return "ok", got[0]

    n_inst = 0
    for cn, tkey, tval in kinds():
        if tkey == "node_type":
            cases = [("leak_status", True), ("leak_status", False)]
        else:
            cases = [("status", 1), ("status", 0)]
        for attribute, value in cases:
            text = write(tkey, tval, attribute, value)
            if not isinstance(text, str):
                raise ExtractError("ControlAction.__str__ did not evaluate to a string for (%s, %s, %r): %r" % (tval, attribute, value, text))
            for clause in ("THEN", "ELSE"):
                res, act = read(clause, "%s %s" % (clause, text))
                want = "get_node" if tkey == "node_type" else "get_link"
                if act is None:
                    ok, found = False, res
                else:
                    tgt, a2, v2 = act
                    ok = isinstance(tgt, Obj) and tgt.name == want and getattr(tgt, "arg", None) == "e1" and a2 == attribute \
                        and type(v2) in ((bool,) if isinstance(value, bool) else (int, float)) and v2 == value
                    found = "ControlAction(model.%s(%r), %r, %r)" % (tgt.name if isinstance(tgt, Obj) else tgt, getattr(tgt, "arg", None), a2, v2)
                n_inst += 1
                chk.expect(ok, "R-C13-3g", "rule reader (%s clause) reads the action text %r of a %s back as the same action" % (clause, text.strip(), cn), loc(gen, loops[clause]),
                           "ControlAction.__str__ writes %r for ControlAction(<%s e1>, %r, %r); Rule.to_dict emits it and from_dict re-reads it through "
                           "_EpanetRule.generate_control, which gives: %s" % (text.strip(), cn, attribute, value, found),
                           expected="ControlAction(model.%s('e1'), %r, %r)" % (want, attribute, value), found=found)
    chk.floor("R-C13-3g", 24)


def rule_control_text(repo, chk, fd):
    rcl = repo.func(EIO, "_read_control_line")
    chk.fn(rcl)
    ct = ClassTable(repo)
    # (a) node kinds that can carry a leak action are dispatched as nodes
    leak_kinds = []
    for cn in ("Junction", "Tank", "Reservoir"):
        c = ct.classes.get(cn)
        if c is None:
            raise AnchorError("class %s vanished" % cn)
        if any(isinstance(n, ast.FunctionDef) and n.name == "add_leak" for n in c.body):
            nt = [n for n in c.body if isinstance(n, ast.FunctionDef) and n.name == "node_type" and any(isinstance(d, ast.Name) and d.id == "property" for d in n.decorator_list)]
            val = None
            for r in walk(nt[0]) if nt else []:
                if isinstance(r, ast.Return) and isinstance(const(r.value), str):
                    val = const(r.value)
            if val is None:
                raise ExtractError("%s.node_type constant not found" % cn)
            leak_kinds.append(val.upper())
    act_str = repo.func(CTRL, "ControlAction.__str__")
    chk.fn(act_str)
    act_tokens, act_literal = token_table(TemplateExec(act_str).templates())
    first = act_tokens.get(0, [])
    if not first or not any("node_type" in t for t in first) or not all(t.endswith(".upper()") for t in first):
        raise ExtractError("ControlAction.__str__ no longer prefixes the upper-cased node_type/link_type (first token: %s)" % (first or sorted(act_literal.get(0, []))))
    node_tokens = node_dispatch_tokens(repo, rcl, sorted(set(leak_kinds) | {"JUNCTION", "TANK", "RESERVOIR", "PIPE", "PUMP", "VALVE", "LINK"}))
    chk.sample({"leak_capable_node_kinds": leak_kinds, "node_tokens_read_as_nodes": sorted(node_tokens)})
    for k in leak_kinds:
        chk.expect(k in node_tokens, "R-C13-3a", "a %s leak action line is dispatched as a node action by _read_control_line" % k, loc(rcl),
                   "ControlAction.__str__ writes '%s <name> LEAK_STATUS IS ...' for the leak controls add_leak creates; _read_control_line looks the "
                   "name up as a link unless the first token is in %s" % (k, sorted(node_tokens)), expected=k, found=sorted(node_tokens))
    chk.floor("R-C13-3a", 2)

    # (b) relation vocabulary of simple controls
    text = repo.func(CTRL, "Comparison.text")
    emitted = comparison_texts(repo, text)
    if len(emitted) < 6:
        raise ExtractError("Comparison.text table incomplete: %s" % emitted)
    vstr = repo.func(CTRL, "ValueCondition.__str__")
    chk.fn(vstr, text)
    cond_tokens, _ = token_table(TemplateExec(vstr).templates())
    if not any(t.startswith("self._relation.text") for ts in cond_tokens.values() for t in ts):
        raise ExtractError("ValueCondition.__str__ no longer prints _relation.text")
    accepted = dispatched_strings(rcl, "current[6]")
    chk.sample({"relation_tokens_emitted": emitted, "relation_tokens_accepted": sorted(accepted)})
    for mem, tok in sorted(emitted.items()):
        chk.expect(tok.upper() in accepted, "R-C13-3b",
                   "simple-control relation token %r (Comparison.%s) emitted by ValueCondition.__str__ is accepted by _read_control_line" % (tok.upper(), mem),
                   loc(rcl), "from_dict re-reads a simple control through _read_control_line, which raises 'control is not recognized' for %r" % tok.upper(),
                   expected=tok.upper(), found=sorted(accepted))
    chk.floor("R-C13-3b", 6)

    # (c) token positions: every varying token of the serialised condition / action is used by from_dict
    simple = None
    for n in walk(fd):
        if isinstance(n, ast.If) and "simple" in str_consts(n.test):
            simple = n
    if simple is None:
        raise ExtractError("from_dict: simple-control branch not found")
    # the token lists: locals bound to <control>[...then_actions...]...split() / <control>['condition'].split(), whatever their names
    role = {}
    simple_mod = ast.Module(body=simple.body, type_ignores=[])
    for n in ast.walk(simple_mod):
        if isinstance(n, ast.Assign) and len(n.targets) == 1 and isinstance(n.targets[0], ast.Name) and isinstance(n.value, ast.Call) \
                and isinstance(n.value.func, ast.Attribute) and n.value.func.attr == "split":
            ks = str_consts(n.value.func.value)
            if "then_actions" in ks:
                role[n.targets[0].id] = "ta"
            elif "condition" in ks:
                role[n.targets[0].id] = "cond"
    if set(role.values()) != {"ta", "cond"}:
        raise ExtractError("from_dict: token lists of the action / condition text of a simple control not found (%s)" % role)
    def used_in(node):
        u = {"ta": set(), "cond": set()}
        for n in ast.walk(node):
            if isinstance(n, ast.Subscript) and isinstance(n.value, ast.Name) and n.value.id in role and isinstance(const(n.slice), int):
                u[role[n.value.id]].add(const(n.slice))
        return u
    used = used_in(simple_mod)
    # time conditions ('SYSTEM ...') and value conditions are rebuilt by different arms of one `if`: each kind of condition is
    # held against the tokens its own arm uses (when the arms cannot be told apart, against all tokens used)
    used_time = used_value = used["cond"]
    arms = [n for n in ast.walk(simple_mod) if isinstance(n, ast.If) and "system" in [c.lower() for c in str_consts(n.test)]
            and isinstance(n.test, ast.Compare) and len(n.test.ops) == 1 and isinstance(n.test.ops[0], (ast.Eq, ast.NotEq)) and n.orelse]
    if len(arms) == 1:
        a_sys, a_val = ast.Module(body=arms[0].body, type_ignores=[]), ast.Module(body=arms[0].orelse, type_ignores=[])
        if isinstance(arms[0].test.ops[0], ast.NotEq):
            a_sys, a_val = a_val, a_sys
        used_time, used_value = used_in(a_sys)["cond"], used_in(a_val)["cond"]

    def varying_tokens(fn, first_token=None):
        """token index -> label of what the token carries, from the string templates the serialiser can return (any of
        str.format / % / f-string / concatenation, with or without temporaries)."""
        tmpls = TemplateExec(fn).templates()
        if first_token is not None:
            tmpls = [t for t in tmpls if t.tokens() and t.tokens()[0] == [first_token]]
        if not tmpls:
            raise ExtractError("%s: no returned string%s found" % (fn._qual, " starting with %r" % first_token if first_token else ""))
        var, lit = token_table(tmpls)
        if not var:
            raise ExtractError("%s: the returned string has no varying token" % fn._qual)
        return var

    for i, texts in sorted(act_tokens.items()):
        what = hole_label(act_str._qual, texts)
        chk.expect(i in used["ta"], "R-C13-3c", "action token %d (%s) of ControlAction.__str__ is used by from_dict" % (i, what), loc(fd, simple),
                   "from_dict rebuilds the control line from tokens %s of the action text; token %d carries %s and is dropped" % (sorted(used["ta"]), i, what))
    for i, texts in sorted(cond_tokens.items()):
        what = hole_label(vstr._qual, texts)
        chk.expect(i in used_value, "R-C13-3c", "condition token %d (%s) of ValueCondition.__str__ is used by from_dict" % (i, what), loc(fd, simple),
                   "from_dict rebuilds the control line from tokens %s of the condition text; token %d carries %s and is dropped "
                   "(the re-reader then assumes tank level / junction pressure)" % (sorted(used_value), i, what))
    # time conditions: 'SYSTEM TIME <REL> <t>' / 'SYSTEM CLOCKTIME <REL> <t> <AM/PM>'
    for cn in ("SimTimeCondition", "TimeOfDayCondition"):
        sfn = repo.func(CTRL, cn + ".__str__")
        chk.fn(sfn)
        for i, texts in sorted(varying_tokens(sfn, "SYSTEM").items()):
            what = hole_label(sfn._qual, texts)
            chk.expect(i in used_time, "R-C13-3c", "condition token %d (%s) of %s.__str__ is used by from_dict" % (i, what, cn), loc(fd, simple),
                       "from_dict rebuilds 'AT TIME/CLOCKTIME t' from tokens %s; token %d carries %s and is dropped (every time condition reads back as 'Is')" % (
                           sorted(used_time), i, what))
    chk.floor("R-C13-3c", 3 + 5 + 4)

    # (d) units: the re-reader must not convert (the dictionary is SI)
    cs = [c for c in calls(ast.Module(body=simple.body, type_ignores=[])) if last_attr(c) == "_read_control_line"]
    rps = params(rcl)
    units = []
    for c in cs:
        u = c.args[2] if len(c.args) >= 3 else None
        for kw in c.keywords:
            if len(rps) >= 3 and kw.arg == rps[2]:
                u = kw.value
        if isinstance(u, ast.Name):     # hoisted into a local of from_dict
            defs = [a.value for a in walk(fd) if isinstance(a, ast.Assign) and len(a.targets) == 1 and isinstance(a.targets[0], ast.Name) and a.targets[0].id == u.id]
            u = defs[0] if len(defs) == 1 else u
        units.append(unparse(u) if u is not None else None)
    chk.expect(bool(cs) and all(u is not None and u.endswith("FlowUnits.SI") for u in units), "R-C13-3d",
               "from_dict re-reads simple controls with FlowUnits.SI (no unit conversion)", loc(fd, simple), found=[norm(c) for c in cs])
    prl = repo.func(EIO, "_EpanetRule.parse_rules_lines")
    d = None
    a = prl.args
    names = [x.arg for x in a.args]
    if "flow_units" in names:
        i = names.index("flow_units") - (len(names) - len(a.defaults))
        d = unparse(a.defaults[i]) if i >= 0 else None
    rule_calls = [c for c in calls(fd) if last_attr(c) == "parse_rules_lines"]
    passes = any(any(kw.arg == "flow_units" for kw in c.keywords) or len(c.args) > 1 for c in rule_calls)
    chk.expect(bool(rule_calls) and (passes or (d or "").endswith("FlowUnits.SI")), "R-C13-3d",
               "from_dict re-reads rules with SI units (default flow_units of parse_rules_lines)", loc(prl), found="default=%s" % d)
    # keys of control dictionaries
    ctd = repo.func(CTRL, "Control.to_dict") if repo.has_func(CTRL, "Control.to_dict") else repo.func(CTRL, "ControlBase.to_dict") if repo.has_func(CTRL, "ControlBase.to_dict") else None
    if ctd is None:
        for cname, c in repo.classes(CTRL).items():
            for n in c.body:
                if isinstance(n, ast.FunctionDef) and n.name == "to_dict":
                    ctd = n
                    ctd._rel = CTRL
                    ctd._qual = cname + ".to_dict"
    if ctd is None:
        raise AnchorError("control to_dict not found")
    emitted = {}
    for d_ in returned_dicts(ctd):
        br = d_.get("type") if isinstance(d_.get("type"), str) else "?"
        emitted.setdefault(br, set()).update(k for k in d_ if isinstance(k, str))
    if not emitted:
        for n in walk(ctd):
            if isinstance(n, ast.Assign) and isinstance(n.targets[0], ast.Subscript) and isinstance(const(n.targets[0].slice), str):
                br = "rule" if (isinstance(parent(n), ast.If) and n in parent(n).body) else "simple"
                emitted.setdefault(br, set()).add(const(n.targets[0].slice))
    ctrl_loop = None
    for n in walk(fd):
        if isinstance(n, ast.For) and isinstance(n.iter, ast.Subscript) and const(n.iter.slice) == "controls":
            ctrl_loop = n
    read = keys_of(ctrl_loop, ctrl_loop.target.id)
    chk.sample({"control_keys_emitted": {k: sorted(v) for k, v in emitted.items()}, "control_keys_read": sorted(read)})
    for br, ks in sorted(emitted.items()):
        for k in sorted(ks):
            chk.expect(k in read, "R-C13-3e", "control key %r (%s) is read by from_dict" % (k, br), loc(fd, ctrl_loop), found=sorted(read))
    chk.floor("R-C13-3e", 8)


# --------------------------------------------------------------------------- element type of array-valued fields
_FLOAT_TYPES = {"np.float64", "numpy.float64", "float", "np.float_", "np.double", "np.floating", "'float64'", "'float'", "'f8'", "'d'", "'<f8'", "np.dtype('float64')", "np.dtype(float)"}
_ARRAY_MAKERS = {"array", "asarray", "asanyarray", "ascontiguousarray", "fromiter", "zeros", "ones", "empty", "full", "zeros_like", "ones_like", "full_like"}


def element_type(expr, env, depth=0):
    """abstract element type of an array / list expression: 'float64' (every element is a float: a dtype=float64 array, astype(float),
    float() applied element-wise, float literals), or 'as given' (depends on what the caller passed).  Locals are followed (env: name -> exprs)."""
    if depth > 6:
        return "as given"
    if isinstance(expr, ast.Name) and expr.id in env:
        ts = {element_type(v, env, depth + 1) for v in env[expr.id]}
        return ts.pop() if len(ts) == 1 else "as given"
    if isinstance(expr, ast.IfExp):
        ts = {element_type(expr.body, env, depth + 1), element_type(expr.orelse, env, depth + 1)}
        return ts.pop() if len(ts) == 1 else "as given"
    if isinstance(expr, ast.Call):
        nm = last_attr(expr) or call_name(expr)
        if nm == "astype" and expr.args:
            return "float64" if unparse(expr.args[0]) in _FLOAT_TYPES else "as given"
        if nm in _ARRAY_MAKERS:
            for kw in expr.keywords:
                if kw.arg == "dtype":
                    return "float64" if unparse(kw.value) in _FLOAT_TYPES else "as given"
            if nm in ("zeros", "ones", "empty"):
                return "float64"            # numpy's default dtype
            if nm in ("array", "asarray", "asanyarray") and len(expr.args) >= 2:
                return "float64" if unparse(expr.args[1]) in _FLOAT_TYPES else "as given"
            return element_type(expr.args[0], env, depth + 1) if expr.args else "as given"
        if nm in ("list", "tuple") and len(expr.args) == 1:
            return element_type(expr.args[0], env, depth + 1)
        if nm == "tolist" and isinstance(expr.func, ast.Attribute):
            return "python numbers"
        if nm == "map" and len(expr.args) == 2 and unparse(expr.args[0]) == "float":
            return "float64"
    if isinstance(expr, (ast.ListComp, ast.GeneratorExp)):
        e = expr.elt
        if isinstance(e, ast.Call) and isinstance(e.func, ast.Name) and e.func.id == "float":
            return "float64"
        return "as given"
    if isinstance(expr, (ast.List, ast.Tuple)):
        ts = set()
        for e in expr.elts:
            if isinstance(const(e), float) or (isinstance(e, ast.Call) and isinstance(e.func, ast.Name) and e.func.id == "float"):
                ts.add("float64")
            else:
                ts.add("as given")
        return ts.pop() if len(ts) == 1 else "as given"
    if isinstance(expr, ast.BinOp) and isinstance(expr.op, ast.Mult):
        # [0.0] * n
        for side in (expr.left, expr.right):
            if isinstance(side, (ast.List, ast.Tuple)):
                return element_type(side, env, depth + 1)
    return "as given"


def rule_sibling_element_types(repo, chk):
    """R-C13-8: every place of class Pattern that stores _multipliers produces the same element type as the constructor (float64), or
    to_dict converts the elements to Python numbers: otherwise to_dict emits numpy integers for a pattern set through that place and
    write_json raises."""
    cname, field, key = "Pattern", "_multipliers", "multipliers"
    c = repo.cls(ELEM, cname)
    td = repo.func(ELEM, cname + ".to_dict")
    chk.fn(td)
    # does to_dict convert?  (value of the key in the returned dictionary)
    conv = False
    tvals = []
    for n in walk(td):
        if isinstance(n, ast.keyword) and n.arg == key:
            tvals.append(n.value)
        if isinstance(n, ast.Dict):
            tvals += [v for k_, v in zip(n.keys, n.values) if const(k_) == key]
        if isinstance(n, ast.Assign) and isinstance(n.targets[0], ast.Subscript) and const(n.targets[0].slice) == key:
            tvals.append(n.value)
    if not tvals:
        raise ExtractError("%s.to_dict: value of the key %r not found" % (cname, key))
    tenv = {}
    for n in walk(td):
        if isinstance(n, ast.Assign) and len(n.targets) == 1 and isinstance(n.targets[0], ast.Name):
            tenv.setdefault(n.targets[0].id, []).append(n.value)
    conv = all(element_type(v, tenv) in ("float64", "python numbers") for v in tvals)
    sites = []
    for fn in c.body:
        if not isinstance(fn, ast.FunctionDef):
            continue
        env = {}
        for n in walk(fn):
            if isinstance(n, ast.Assign) and len(n.targets) == 1 and isinstance(n.targets[0], ast.Name):
                env.setdefault(n.targets[0].id, []).append(n.value)
        role = "setter" if any(isinstance(d, ast.Attribute) and d.attr == "setter" for d in fn.decorator_list) else "method"
        i = 0
        for n in walk(fn):
            if isinstance(n, ast.Assign) and any(isinstance(t, ast.Attribute) and t.attr == field and isinstance(t.value, ast.Name) and t.value.id == "self" for t in n.targets):
                i += 1
                sites.append((fn, "%s.%s%s" % (cname, fn.name, " (setter)" if role == "setter" else ""), i, n, element_type(n.value, env)))
    ctor = [x for x in sites if x[0].name == "__init__"]
    if not ctor:
        raise ExtractError("%s.__init__ does not store %s" % (cname, field))
    ref = ctor[-1][4]
    chk.sample({"class": cname, "field": field, "stores": [(q, i, t) for _, q, i, _, t in sites], "to_dict_converts": conv})
    for fn, q, i, n, t in sites:
        fn._rel, fn._qual = ELEM, q
        ok = conv or (t == "float64" and ref == "float64")
        chk.expect(ok, "R-C13-8", "%s store #%d of %s has float elements like every other store (or %s.to_dict converts the elements)" % (q, i, field, cname),
                   loc(fn, n), "%s stores %s = %s: element type %s, the constructor's is %s, and to_dict emits the elements unconverted (%s): a pattern given as "
                   "integers through this place serialises as numpy integers, which json.dump rejects (write_json raises TypeError)" % (
                       q, field, norm(n.value), t, ref, ", ".join(norm(v) for v in tvals)),
                   expected="float64", found=t)
    chk.floor("R-C13-8", 3)


# --------------------------------------------------------------------------- nested rule conditions
def rule_condition_grouping(repo, chk):
    """R-C13-3f: the condition text Rule.to_dict emits must tell Or(And(A,B),C) from And(A,Or(B,C)).  AndCondition.__str__ and
    OrCondition.__str__ are evaluated (string templates) on both trees with leaf texts A, B, C."""
    def shape(cls):
        fn = repo.func(CTRL, cls + ".__str__")
        ini = repo.func(CTRL, cls + ".__init__")
        chk.fn(fn)
        ps = params(ini)
        kids = []
        for p_ in ps[:2]:
            at = [n.targets[0].attr for n in walk(ini) if isinstance(n, ast.Assign) and len(n.targets) == 1 and isinstance(n.targets[0], ast.Attribute)
                  and dotted(n.targets[0].value) == "self" and isinstance(n.value, ast.Name) and n.value.id == p_]
            if len(at) != 1:
                raise ExtractError("%s.__init__: field holding the operand %r not found" % (cls, p_))
            kids.append("self." + at[0])
        ts = TemplateExec(fn).templates()
        if len(ts) != 1:
            raise ExtractError("%s.__str__ returns %d different templates" % (cls, len(ts)))
        for sg in ts[0].segs:
            if isinstance(sg, Hole) and sg.text not in kids:
                raise ExtractError("%s.__str__ prints %s, which is not one of its operands" % (cls, sg.text))
        return ts[0], kids

    shapes = {"And": shape("AndCondition"), "Or": shape("OrCondition")}

    def text(tree):
        if isinstance(tree, str):
            return tree
        t, kids = shapes[tree[0]]
        return "".join(sg if isinstance(sg, str) else text(tree[1 + kids.index(sg.text)]) for sg in t.segs)
    t1, t2 = ("Or", ("And", "A", "B"), "C"), ("And", "A", ("Or", "B", "C"))
    s1, s2 = text(t1).split(), text(t2).split()
    # any other encoding of the tree in the dictionary?
    ctd = repo.func(CTRL, "Rule.to_dict")
    chk.fn(ctd)
    ds = [d_ for d_ in returned_dicts(ctd) if d_.get("type") == "rule"] or returned_dicts(ctd)
    if not ds:
        raise ExtractError("Rule.to_dict: returned dictionary not derivable")
    ex = TemplateExec(ctd)
    carriers = sorted({k for d_ in ds for k, v in d_.items() if "_condition" in ex.vtext(v)})
    plain = all(re.sub(r"\s", "", ex.vtext(d_[k])) in ("str(self._condition)", "self._condition.__str__()", "<{self._condition}>", "'%s'%self._condition")
                for d_ in ds for k in carriers if k in d_)
    chk.sample({"Or(And(A,B),C)": " ".join(s1), "And(A,Or(B,C))": " ".join(s2), "keys_carrying_the_condition": carriers})
    ok = s1 != s2 or len(carriers) != 1 or not plain
    chk.expect(ok, "R-C13-3f", "Rule.to_dict condition text distinguishes Or(And(A,B),C) from And(A,Or(B,C))", loc(ctd),
               "both trees are written %r (AndCondition.__str__ / OrCondition.__str__ add no grouping) and the dictionary carries the condition only as that "
               "text (keys %s): the rule reader regroups 'A AND B OR C' as And(A, Or(B, C)), so a rule with a nested Or(And(..),..) condition changes meaning "
               "in a to_dict / from_dict round trip" % (" ".join(s1), carriers), expected="different texts or a structural encoding", found=" ".join(s2))
    chk.floor("R-C13-3f", 1)


# --------------------------------------------------------------------------- the options object graph, evaluated
def options_object_model(repo):
    """a concrete evaluator for the classes of wntr/network/options.py: class objects, instantiation (parameters bound like Python binds
    them: defaults, **kwargs, TypeError for an unexpected keyword), classmethods (factory), __setattr__ overrides (an assignment to an
    attribute of an instance runs the class's __setattr__; `self.__dict__[name] = value` stores), module-level helper functions, and
    inspect.signature(...).parameters read off the __init__ of the class.  -> instantiate(class name, args, kwargs) -> instance (peval.Obj
    whose attrs are the instance __dict__); fell_back: set of classes whose __setattr__ left the evaluable fragment (plain store used)."""
    from ..peval import Obj, Unknown, Raised, Returned
    Ev, hook0 = concrete_evaluator(repo)
    tree = repo.tree(OPTS)
    classes = {n.name: n for n in tree.body if isinstance(n, ast.ClassDef)}
    funcs = {n.name: n for n in tree.body if isinstance(n, ast.FunctionDef)}
    cobjs = {}
    fell_back = set()
    pytypes = {"dict": dict, "list": list, "tuple": tuple, "str": str, "int": int, "float": float, "bool": bool, "six.string_types": str}

    def cobj(name):
        if name not in cobjs:
            cobjs[name] = Obj("class %s" % name, {"__name__": name}, cls="class")
            cobjs[name].cname = name
        return cobjs[name]

    def mro(name):
        out, todo = [], [name]
        while todo:
            c = todo.pop(0)
            if c in out or c not in classes:
                continue
            out.append(c)
            todo += [b.id for b in classes[c].bases if isinstance(b, ast.Name)]
        return out

    def find(cname, meth):
        for c in mro(cname):
            for n in classes[c].body:
                if isinstance(n, ast.FunctionDef) and n.name == meth:
                    return n
        return None

    def class_attr(d):
        if d in classes:
            return cobj(d)
        if "." not in d:
            try:
                node = repo.module_assign(OPTS, d)
            except AnchorError:
                raise Unknown("unbound name %s" % d)
            return make({}).ev(node)
        raise Unknown("unknown dotted name %s" % d)

    def bind(fn, args, kwargs, what):
        a = fn.args
        names = [x.arg for x in a.posonlyargs + a.args]
        env = {}
        if len(args) > len(names) and not a.vararg:
            raise _PyExc("TypeError")
        for nme, v in zip(names, args):
            env[nme] = v
        if a.vararg:
            env[a.vararg.arg] = list(args[len(names):])
        kwonly = [x.arg for x in a.kwonlyargs]
        extra = {}
        for k, v in kwargs.items():
            if k in names[len(a.posonlyargs):] or k in kwonly:
                if k in env:
                    raise _PyExc("TypeError")
                env[k] = v
            elif a.kwarg:
                extra[k] = v
            else:
                raise _PyExc("TypeError")       # unexpected keyword argument
        if a.kwarg:
            env[a.kwarg.arg] = extra
        dflt = dict(zip(names[len(names) - len(a.defaults):], a.defaults))
        dflt.update({k: d for k, d in zip(kwonly, a.kw_defaults) if d is not None})
        for nme in names + kwonly:
            if nme not in env:
                if nme not in dflt:
                    raise _PyExc("TypeError")   # missing argument
                env[nme] = make({}).ev(dflt[nme])
        return env

    def call_fn(fn, args, kwargs, what):
        ev = make(bind(fn, args, kwargs, what))
        return ev.run(fn.body)

    def instantiate(cname, args, kwargs):
        inst = Obj("instance of %s" % cname, {}, cls="instance")
        inst.cname = cname
        ini = find(cname, "__init__")
        if ini is None:
            if args or kwargs:
                raise _PyExc("TypeError")
            return inst
        call_fn(ini, [inst] + list(args), kwargs, "%s.__init__" % cname)
        return inst

    def isinst(v, texpr, ev):
        ts = texpr.elts if isinstance(texpr, (ast.Tuple, ast.List)) else [texpr]
        for t in ts:
            d = dotted(t)
            if d in pytypes:
                if not isinstance(v, Obj) and isinstance(v, pytypes[d]) and not (isinstance(v, bool) and d in ("int", "float") and False):
                    return True
                continue
            tv = ev.ev(t)
            if isinstance(tv, Obj) and tv.cls == "class":
                if isinstance(v, Obj) and v.cls == "instance" and tv.cname in mro(v.cname):
                    return True
                continue
            raise Unknown("isinstance against %s" % unparse(t))
        return False

    def call_args(n, ev):
        args, kwargs = [], {}
        for a in n.args:
            if isinstance(a, ast.Starred):
                v = ev.ev(a.value)
                if not isinstance(v, (list, tuple)):
                    raise Unknown("*%r" % (v,))
                args.extend(v)
            else:
                args.append(ev.ev(a))
        for k in n.keywords:
            if k.arg is None:
                v = ev.ev(k.value)
                if not isinstance(v, dict):
                    raise Unknown("**%r" % (v,))
                kwargs.update(v)
            else:
                kwargs[k.arg] = ev.ev(k.value)
        return args, kwargs

    def signature_of(target):
        """parameters mapping as inspect.signature gives it: of a function object, or of a class (its __init__ without self)."""
        if isinstance(target, Obj) and target.cls == "function":
            fn, skip = target.fn, 1 if target.bound else 0
        elif isinstance(target, Obj) and target.cls == "class":
            fn, skip = find(target.cname, "__init__"), 1
            if fn is None:
                return {}
        else:
            raise Unknown("inspect.signature(%r)" % (target,))
        a = fn.args
        names = [x.arg for x in a.posonlyargs + a.args][skip:]
        if a.vararg:
            names.append(a.vararg.arg)
        names += [x.arg for x in a.kwonlyargs]
        if a.kwarg:
            names.append(a.kwarg.arg)
        return {nme: Obj("parameter %s" % nme, {"name": nme}) for nme in names}

    def hook(name, n, ev):
        f = n.func
        if name.split(".")[0] in ("logger", "logging", "warnings"):
            return None
        if name == "isinstance" and len(n.args) == 2:
            return isinst(ev.ev(n.args[0]), n.args[1], ev)
        if name in ("inspect.signature", "signature") and len(n.args) == 1:
            return Obj("signature", {"parameters": signature_of(ev.ev(n.args[0]))})
        if name in ("copy.deepcopy", "copy.copy", "deepcopy") and len(n.args) >= 1:
            return ev.ev(n.args[0])
        if name == "dict" and len(n.args) == 1:
            v = ev.ev(n.args[0])
            if isinstance(v, dict):
                out = dict(v)
                out.update({k.arg: ev.ev(k.value) for k in n.keywords if k.arg})
                return out
            raise _PyExc("TypeError")
        if name in ("hasattr", "getattr") and len(n.args) >= 2:
            o, a_ = ev.ev(n.args[0]), ev.ev(n.args[1])
            if isinstance(o, Obj) and o.cls == "instance" and isinstance(a_, str):
                has = a_ in o.attrs or find(o.cname, a_) is not None
                if name == "hasattr":
                    return has
                if a_ in o.attrs:
                    return o.attrs[a_]
                if len(n.args) == 3:
                    return ev.ev(n.args[2])
        if isinstance(f, ast.Name):
            tgt = ev.env.get(f.id)
            if tgt is None and f.id in classes:
                tgt = cobj(f.id)
            if isinstance(tgt, Obj) and tgt.cls == "class":
                args, kwargs = call_args(n, ev)
                return instantiate(tgt.cname, args, kwargs)
            if f.id in funcs and f.id not in ev.env:
                args, kwargs = call_args(n, ev)
                return call_fn(funcs[f.id], args, kwargs, f.id)
        if isinstance(f, ast.Attribute) and f.attr not in ("get", "items", "keys", "values", "append", "join", "format", "upper", "lower", "strip"):
            try:
                base = ev.ev(f.value)
            except Unknown:
                base = None
            if isinstance(base, Obj) and base.cls in ("class", "instance"):
                m = find(base.cname, f.attr)
                if m is not None:
                    args, kwargs = call_args(n, ev)
                    decos = {dotted(d) for d in m.decorator_list}
                    if "classmethod" in decos:
                        first = [base if base.cls == "class" else cobj(base.cname)]
                    elif "staticmethod" in decos:
                        first = []
                    else:
                        first = [base] if base.cls == "instance" else []
                    return call_fn(m, first + args, kwargs, "%s.%s" % (base.cname, f.attr))
        return hook0(name, n, ev)

    def attr_hook(obj, attr):
        if isinstance(obj, Obj) and obj.cls == "instance":
            if attr == "__dict__":
                return obj.attrs
            if attr == "__class__":
                return cobj(obj.cname)
            if attr not in obj.attrs:
                m = find(obj.cname, attr)
                if m is not None:
                    fo = Obj("function %s.%s" % (obj.cname, attr), {}, cls="function")
                    fo.fn, fo.bound = m, True       # inspect.signature of a bound method drops self
                    return fo
        if isinstance(obj, Obj) and obj.cls == "class":
            if attr == "__name__":
                return obj.cname
            m = find(obj.cname, attr)
            if m is not None:
                fo = Obj("function %s.%s" % (obj.cname, attr), {}, cls="function")
                fo.fn, fo.bound = m, False
                return fo
        return NotImplemented

    class E(Ev):
        def assign(self, t, v):
            if isinstance(t, ast.Attribute):
                base = self.ev(t.value)
                if isinstance(base, Obj) and base.cls == "instance":
                    sa = find(base.cname, "__setattr__")
                    if sa is None:
                        base.attrs[t.attr] = v
                        return
                    before = dict(base.attrs)
                    try:
                        call_fn(sa, [base, t.attr, v], {}, "%s.__setattr__" % base.cname)
                    except Unknown:
                        # validation outside the evaluable fragment: values emitted by to_dict are assumed to pass it unchanged
                        fell_back.add(base.cname)
                        base.attrs.clear()
                        base.attrs.update(before)
                        base.attrs[t.attr] = v
                    return
            return Ev.assign(self, t, v)

        def e_Attribute(self, n):
            base_is_name = isinstance(n.value, ast.Name)
            if base_is_name and n.value.id in self.env or not base_is_name:
                base = self.ev(n.value)
                r = attr_hook(base, n.attr)
                if r is not NotImplemented:
                    return r
                if isinstance(base, Obj) and n.attr in base.attrs:
                    return base.attrs[n.attr]
                if isinstance(base, Obj) and base.cls == "instance":
                    raise _PyExc("AttributeError")
            return Ev.e_Attribute(self, n)

    def make(env):
        return E(env, class_attr, hook, attr_hook)
    return instantiate, fell_back, classes


def rule_options_round_trip(repo, chk, groups, init):
    """R-C13-4 (evaluated): the dictionary to_dict emits for every options group, passed back as from_dict does --
    Options.__init__(**d['options']) -> <Group>.factory(<dict>) -> <Group>.__init__ / __setattr__ -- re-creates every key under
    the same name with the same value.  Includes the open-ended group (UserOptions: arbitrary keys)."""
    from ..peval import Obj, Unknown, Raised
    instantiate, fell_back, classes = options_object_model(repo)

    def guarded(what, f):
        try:
            return "ok", f()
        except Raised as r:
            return "raises %s" % norm(r.node), None
        except _PyExc as e:
            return "raises %s" % e.kind, None
        except (Unknown, RecursionError) as e:
            raise ExtractError("options: %s is outside the evaluable fragment: %s" % (what, e))

    emitted = {}
    for g, (cls, arg) in sorted(groups.items()):
        if cls not in classes:
            raise AnchorError("options class %s vanished" % cls)
        st, inst = guarded("%s()" % cls, lambda: instantiate(cls, [], {}))
        chk.expect(st == "ok", "R-C13-4", "options group %s is constructible with its defaults (the keys of its __dict__ are what to_dict emits)" % cls, loc(init),
                   "%s() %s: __init__ stores an attribute its own __setattr__ rejects, or a default is refused" % (cls, st), found=st)
        if st != "ok":
            continue
        d_ = dict(inst.attrs)
        ini = [n for n in classes[cls].body if isinstance(n, ast.FunctionDef) and n.name == "__init__"]
        open_ended = bool(ini) and ini[0].args.kwarg is not None
        if open_ended or not d_:
            # user-defined entries: any name, any JSON value
            d_.update({"x": 7, "label": "mc-run"})
        emitted[g] = (cls, d_, open_ended)
    st, opt = guarded("Options(**d['options'])", lambda: instantiate("Options", [], {g: dict(v[1]) for g, v in emitted.items()}))
    chk.sample({"options_groups_evaluated": {g: sorted(v[1]) for g, v in emitted.items()}, "setattr_validation_not_evaluable": sorted(fell_back)})
    missing = object()
    for g, (cls, d_, open_ended) in sorted(emitted.items()):
        ginst = opt.attrs.get(g) if st == "ok" else None
        for k, v in sorted(d_.items()):
            if st != "ok":
                ok, found = False, "Options.__init__(**d['options']) %s" % st
            elif not (isinstance(ginst, Obj) and ginst.cls == "instance" and ginst.cname == cls):
                ok, found = False, "options.%s is %r, not a %s" % (g, ginst, cls)
            else:
                got = ginst.attrs.get(k, missing)
                ok = got is not missing and type(got) is not Obj and got == v or (got is v)
                found = "<missing>" if got is missing else repr(got)
            chk.expect(ok, "R-C13-4", "options.%s key %r%s survives Options.__init__(**d['options']) -> %s.factory(dict) -> %s.__init__" % (
                g, k, " (user-defined entry)" if open_ended and k in ("x", "label") else "", cls, cls), loc(init),
                "to_dict emits options[%r][%r] = %r; passing the dictionary back the way from_dict does re-creates the group with %s for that key: "
                "the entry is lost or changed in a to_dict / from_dict (read_json, append) round trip" % (g, k, v, found),
                expected=repr(v), found=found)


def rule_options(repo, chk):
    """R-C13-4: Options.to_dict = dict(self) yields each options object's __dict__; from_dict feeds it to __init__(**d)."""
    top = repo.cls(OPTS, "Options")
    init = [n for n in top.body if isinstance(n, ast.FunctionDef) and n.name == "__init__"][0]
    init._rel = OPTS
    init._qual = "Options.__init__"
    chk.fn(init)
    groups = {}
    for n in walk(init):
        if isinstance(n, ast.Assign) and isinstance(n.targets[0], ast.Attribute) and dotted(n.targets[0].value) == "self" and isinstance(n.value, ast.Call):
            f = n.value.func
            if isinstance(f, ast.Attribute) and f.attr == "factory" and isinstance(f.value, ast.Name):
                arg = n.value.args[0].id if n.value.args and isinstance(n.value.args[0], ast.Name) else None
                groups[n.targets[0].attr] = (f.value.id, arg)
    ps = params(init)
    for g, (cls, arg) in sorted(groups.items()):
        chk.expect(g in ps and arg == g, "R-C13-4", "Options.__init__ takes keyword %r and stores %s.factory(%s) under the same name" % (g, cls, g), loc(init),
                   found="param=%s stored from %s" % (g in ps, arg))
    td = [n for n in top.body if isinstance(n, ast.FunctionDef) and n.name == "to_dict"]
    chk.expect(bool(td) and "dict(self)" in unparse(td[0]), "R-C13-4", "Options.to_dict is dict(self) (keys = __dict__ of each options object)", loc(OPTS, td[0] if td else top))
    fd = repo.func(NIO, "from_dict")
    chk.expect(any("options.__init__(**d['options'])" in unparse(n).replace('"', "'") for n in walk(fd) if isinstance(n, ast.Expr)), "R-C13-4",
               "from_dict re-initialises options with __init__(**d['options'])", loc(fd))
    rule_options_round_trip(repo, chk, groups, init)
    for g, (cls, arg) in sorted(groups.items()):
        if cls == "UserOptions":
            continue        # no named keywords to compare one by one; decided by the evaluated round trip above
        c = repo.cls(OPTS, cls)
        ini = [n for n in c.body if isinstance(n, ast.FunctionDef) and n.name == "__init__"]
        if not ini:
            raise AnchorError("%s.__init__ vanished" % cls)
        ini = ini[0]
        ini._rel = OPTS
        ini._qual = cls + ".__init__"
        chk.fn(ini)
        pp = params(ini)
        stored = {}
        for n in walk(ini):
            if isinstance(n, ast.Assign) and isinstance(n.targets[0], ast.Attribute) and dotted(n.targets[0].value) == "self":
                names = {x.id for x in ast.walk(n.value) if isinstance(x, ast.Name)}
                stored.setdefault(n.targets[0].attr, set()).update(names)     # union over the arms of a two-way choice
        for a, names in sorted(stored.items()):
            chk.expect(a in pp and a in names, "R-C13-4", "%s: __dict__ key %r is a constructor keyword stored from itself" % (cls, a), loc(ini),
                       "to_dict emits key %r (it is in __dict__); from_dict passes it to %s(**d): it must be an accepted keyword stored under the same name" % (a, cls),
                       expected="parameter %s" % a, found="params=%s, value reads %s" % (a in pp, sorted(names)))
        for p in pp:
            chk.expect(p in stored, "R-C13-4", "%s: constructor keyword %r is stored (and therefore emitted by to_dict)" % (cls, p), loc(ini))
    chk.floor("R-C13-4", 100)


# --------------------------------------------------------------------------- sections of the model dictionary, interpreted
class _Rec(object):
    """plain attribute bag handed to the interpreted from_dict / to_dict (a read of an attribute it lacks is `could not analyse`)"""
    _sa_mock = True

    def __init__(self, label, **kw):
        self._label = label
        self.__dict__.update(kw)

    def __repr__(self):
        return "<%s>" % self._label


def _io_world(repo):
    from ..concrete import World, stdlib_overrides
    ov, _state = stdlib_overrides()
    ov["wntr.__version__"] = "0.0"
    return World(repo, ov)


def rule_sections(repo, chk, fd):
    """R-C13-9 (T3, bounded to the fixtures): the patterns / curves / sources sections of from_dict, run by the in-house interpreter on one dictionary per
    section object with every value of its small emitted domain (incl. the falsy ones: wrap False, strength 0.0, pattern None), hand the add_* method /
    the created object exactly the emitted values.
    R-C13-3h (T3 + T1): the entries io.to_dict emits for the controls of a model (Control.to_dict per type, plus whatever io.to_dict adds, evaluated on a
    mock model whose controls are registered under names unlike 'control N') carry only keys the from_dict branch of that type reads."""
    from ..concrete import ProgramError
    import collections
    world = _io_world(repo)
    fdc = world.function(NIO, "from_dict")
    tdc = world.function(NIO, "to_dict")

    def interp(what, thunk):
        try:
            return thunk()
        except ProgramError as e:
            if isinstance(e.exc, (AttributeError, NameError)):
                raise ExtractError("%s needs something the mock model does not provide: %s (line %s)" % (what, e, e.lineno))
            raise ExtractError("%s: the interpreted program raised %s (line %s)" % (what, e, e.lineno))

    def recorder():
        calls_, pats = [], {}

        def add_pattern(name=None, pattern=None, *a, **k):
            pats[name] = _Rec("pattern %s" % name, name=name, multipliers=pattern, wrap=True)      # Pattern's constructor default: wrap=True
            calls_.append(("add_pattern", dict(name=name, pattern=pattern)))

        def get_pattern(name):
            return pats[name]

        def add_curve(name=None, curve_type=None, xy_tuples_list=None, *a, **k):
            calls_.append(("add_curve", dict(name=name, curve_type=curve_type, xy_tuples_list=xy_tuples_list)))

        def add_source(name=None, node_name=None, source_type=None, quality=None, pattern=None, *a, **k):
            calls_.append(("add_source", dict(name=name, node_name=node_name, source_type=source_type, quality=quality, pattern=pattern)))
        wn = _Rec("model", add_pattern=add_pattern, get_pattern=get_pattern, add_curve=add_curve, add_source=add_source, name=None, _references=None,
                  options=_Rec("options", __init__=lambda **k: None))
        return wn, calls_, pats
    # ---- patterns
    pini = repo.func(ELEM, "Pattern.__init__")
    dflt = {a.arg: const(d_) for a, d_ in zip(pini.args.args[len(pini.args.args) - len(pini.args.defaults):], pini.args.defaults)}
    if dflt.get("wrap") is not True:
        raise ExtractError("Pattern.__init__: default of wrap is no longer True (the recorder of R-C13-9 assumes it)")
    n9 = 0
    for label, entry, want in (("wrap False (the only value Pattern.to_dict writes)", {"name": "P1", "multipliers": [1.0, 0.5], "wrap": False}, False),
                               ("wrap True", {"name": "P1", "multipliers": [1.0, 0.5], "wrap": True}, True),
                               ("no wrap key (a wrapping pattern)", {"name": "P1", "multipliers": [1.0, 0.5]}, True)):
        wn, calls_, pats = recorder()
        interp("from_dict(patterns)", lambda: fdc({"patterns": [dict(entry)]}, append=wn))
        got = pats["P1"].wrap if "P1" in pats else "pattern not added"
        mult = pats["P1"].multipliers if "P1" in pats else None
        n9 += 1
        chk.expect(got is want and mult == entry["multipliers"], "R-C13-9", "from_dict restores a pattern with %s" % label, loc(fd),
                   "Pattern.to_dict writes 'wrap' only when it is False; a from_dict that tests the value for truth (or skips the key) turns every non-wrapping pattern (binary_pattern, "
                   "fire-fighting demand) into a repeating one", expected="wrap = %s, multipliers %s" % (want, entry["multipliers"]), found="wrap = %r, multipliers %r" % (got, mult))
    # ---- curves
    for ctype, pts in (("HEAD", [[0.0, 10.0], [1.0, 5.0]]), (None, [])):
        wn, calls_, pats = recorder()
        interp("from_dict(curves)", lambda: fdc({"curves": [{"name": "C1", "curve_type": ctype, "points": list(pts)}]}, append=wn))
        got = [c for c in calls_ if c[0] == "add_curve"]
        n9 += 1
        chk.expect(len(got) == 1 and got[0][1] == dict(name="C1", curve_type=ctype, xy_tuples_list=pts), "R-C13-9", "from_dict restores a curve of type %s with %d point(s)" % (ctype, len(pts)), loc(fd),
                   expected=dict(name="C1", curve_type=ctype, xy_tuples_list=pts), found=got)
    # ---- sources
    for strength, pat in ((1.5, "PAT"), (0.0, None)):
        wn, calls_, pats = recorder()
        interp("from_dict(sources)", lambda: fdc({"sources": [{"name": "S1", "node_name": "N1", "source_type": "MASS", "strength": strength, "pattern": pat}]}, append=wn))
        got = [c for c in calls_ if c[0] == "add_source"]
        exp = dict(name="S1", node_name="N1", source_type="MASS", quality=strength, pattern=pat)
        n9 += 1
        chk.expect(len(got) == 1 and got[0][1] == exp, "R-C13-9", "from_dict restores a source with strength %s and pattern %s" % (strength, pat), loc(fd), expected=exp, found=got)
    chk.floor("R-C13-9", 7)

    # ---- R-C13-3h controls: keys emitted per type by io.to_dict vs keys read by the branch of that type
    ctd = None
    for cname in ("Control", "ControlBase", "Rule"):
        if repo.has_func(CTRL, cname + ".to_dict"):
            ctd = repo.func(CTRL, cname + ".to_dict")
            break
    if ctd is None:
        raise AnchorError("control to_dict not found")
    templates = [d_ for d_ in returned_dicts(ctd) if isinstance(d_.get("type"), str)]
    if not templates:
        raise ExtractError("Control.to_dict: the dictionaries it returns could not be derived")
    ctrl_loop = None
    for n in walk(fd):
        if isinstance(n, ast.For) and isinstance(n.iter, ast.Subscript) and const(n.iter.slice) == "controls" and isinstance(n.target, ast.Name):
            ctrl_loop = n
    if ctrl_loop is None:
        raise AnchorError("from_dict: loop over d['controls'] not found")
    var = ctrl_loop.target.id
    disc = {s_.targets[0].id for s_ in ctrl_loop.body if isinstance(s_, ast.Assign) and len(s_.targets) == 1 and isinstance(s_.targets[0], ast.Name) and "type" in keys_of(s_.value, var)}
    for _round in range(3):        # locals derived from the discriminator by a case change only (kind = ctrl_type.lower())
        for s_ in ctrl_loop.body:
            if isinstance(s_, ast.Assign) and len(s_.targets) == 1 and isinstance(s_.targets[0], ast.Name):
                e = s_.value
                while isinstance(e, ast.Call) and isinstance(e.func, ast.Attribute) and e.func.attr in ("lower", "upper", "strip") and not e.args:
                    e = e.func.value
                if isinstance(e, ast.Name) and e.id in disc:
                    disc.add(s_.targets[0].id)

    def type_of_test(t):
        """'simple' for tests like ctrl_type.lower() == 'simple' / control['type'] == 'simple' (either operand order)"""
        if isinstance(t, ast.Compare) and len(t.ops) == 1 and isinstance(t.ops[0], ast.Eq):
            for a_, b_ in ((t.left, t.comparators[0]), (t.comparators[0], t.left)):
                if isinstance(const(b_), str):
                    e = a_
                    while isinstance(e, ast.Call) and isinstance(e.func, ast.Attribute) and e.func.attr in ("lower", "upper", "strip") and not e.args:
                        e = e.func.value
                    if (isinstance(e, ast.Name) and e.id in disc) or "type" in keys_of(e, var):
                        return const(b_).lower()
        return None
    branch_reads, common = {}, set()
    for s_ in ctrl_loop.body:
        cur, matched = s_, False
        while isinstance(cur, ast.If):
            ty = type_of_test(cur.test)
            if ty is None:
                break
            matched = True
            branch_reads.setdefault(ty, set()).update(keys_of(ast.Module(body=cur.body, type_ignores=[]), var))
            cur = cur.orelse[0] if (len(cur.orelse) == 1 and isinstance(cur.orelse[0], ast.If)) else None
        if not matched:
            common |= keys_of(s_, var)
    if not branch_reads:
        raise ExtractError("from_dict: dispatch on the control type not found in the controls loop")

    class Ctl(_Rec):
        def __init__(self, d_):
            _Rec.__init__(self, "control")
            self._d = d_

        def to_dict(self):
            return dict(self._d)
    reg = lambda: _Rec("registry", to_list=lambda: [])
    fixtures = collections.OrderedDict()
    for i, tpl in enumerate(templates):
        d_ = {k: ("R%d" % i if k == "name" else (tpl[k] if isinstance(tpl[k], (str, int, float)) else "x")) for k in tpl if isinstance(k, str)}
        fixtures["user name %d" % i] = Ctl(d_)
        if "name" in d_:
            d2 = dict(d_)
            d2["name"] = ""
            fixtures["user name %d (unnamed)" % i] = Ctl(d2)
    wn = _Rec("model", _controls=fixtures, name="n", _references=[], _options=_Rec("options", to_dict=lambda: {}), _curve_reg=reg(), _pattern_reg=reg(),
              _node_reg=reg(), _link_reg=reg(), _sources=reg())
    out = interp("to_dict", lambda: tdc(wn))
    ents = out.get("controls") if isinstance(out, dict) else None
    if not isinstance(ents, list) or len(ents) != len(fixtures):
        raise ExtractError("io.to_dict: the controls section is not one entry per control (%r)" % (ents,))
    for (regname, ctl), ent in zip(fixtures.items(), ents):
        ty = str(ent.get("type", "?")).lower()
        reads = branch_reads.get(ty, set()) | common
        extra = sorted(k for k in ent if k not in reads)
        chk.expect(not extra, "R-C13-3h", "every key io.to_dict writes for a %s control%s is read by the %r branch of from_dict" % (ty, " registered without a name of its own" if "unnamed" in regname else "", ty), loc(fd, ctrl_loop),
                   "a key the serializer writes and the de-serializer of that control type does not read cannot survive: the dictionary of the re-created model differs in it (simple controls are "
                   "re-numbered 'control N' by from_dict, so a name written for them is lost)", expected="keys within %s" % sorted(reads), found="not read: %s (entry %s)" % (extra, sorted(ent)))
    chk.floor("R-C13-3h", 3)
    chk.sample({"rule": "R-C13-3h", "control_keys_read_per_type": {k: sorted(v) for k, v in branch_reads.items()}, "common": sorted(common), "emitted": [sorted(e) for e in ents]})


# --------------------------------------------------------------------------- R-C13-10 the whole round trip, interpreted, on one rich fixture model
def model_world(repo):
    """an interpreted world (sa/concrete.py) in which WaterNetworkModel() is built by its real constructor"""
    import enum as _enum
    from ..concrete import World, stdlib_overrides, Namespace, ClassRef
    from .c14 import ABC_MIXINS, _link_status_enum
    ov, _st = stdlib_overrides()
    ov["six"] = Namespace("six", with_metaclass=lambda meta, *bases: (bases[0] if bases else object), string_types=(str,), integer_types=(int,))
    ov["wntr.network.base.LinkStatus"] = _link_status_enum(repo)
    ov["wntr.__version__"] = "0.0"
    ov["enum"] = _enum
    # numpy is the real library here (present in the tooling venv): the model code indexes 2-d arrays of curve points and interpolates on them; the values
    # it produces are plain numbers / arrays the interpreter passes through
    import numpy as _np
    ov["numpy"] = _np
    import re as _re, datetime as _dt, copy as _cp, json as _json, string as _string
    ov.update({"re": _re, "datetime": _dt, "copy": _cp, "json": _json, "string": _string})      # pure stdlib modules working on plain values
    def signature(f):
        """inspect.signature for a function of the interpreted world: .parameters is the ordered mapping of parameter names (self dropped for a bound method)"""
        import collections
        from ..concrete import Closure, Unsupported
        if not isinstance(f, Closure):
            raise Unsupported("inspect.signature(%r)" % (f,))
        a = f.node.args
        names = [x.arg for x in a.posonlyargs + a.args] + ([a.vararg.arg] if a.vararg else []) + [x.arg for x in a.kwonlyargs] + ([a.kwarg.arg] if a.kwarg else [])
        if f.bound is not None and names:
            names = names[1:]
        return Namespace("signature", parameters=collections.OrderedDict((n_, n_) for n_ in names))
    ov["inspect"] = Namespace("inspect", signature=signature)
    world = World(repo, ov, fuel=200000000)
    for cd in ast.parse(ABC_MIXINS).body:
        world.overrides["collections.abc." + cd.name] = ClassRef(world.interp, cd, world.ctx(BASE))
    return world


def build_fixture_model(repo, world, variant="A"):
    from .c13_fixture import recipe
    STEPS, CONTROLS = recipe(variant)
    I = world.interp
    LS = world.overrides["wntr.network.base.LinkStatus"]
    call = lambda o, m, *a, **k: I.call(I.getattr_(o, m), list(a), k)
    wn = world.function(MODEL, "WaterNetworkModel")()
    Cc = {n: world.function(CTRL, n) for n in ("SimTimeCondition", "TimeOfDayCondition", "ValueCondition", "AndCondition", "OrCondition", "ControlAction", "Control", "Rule")}

    def ref(x):
        if isinstance(x, str) and x.startswith("node:"):
            return call(wn, "get_node", x[5:])
        if isinstance(x, str) and x.startswith("link:"):
            return call(wn, "get_link", x[5:])
        if isinstance(x, str) and x.startswith("curve:"):
            return call(wn, "get_curve", x[6:])
        if isinstance(x, str) and x.startswith("status:"):
            return LS[x[7:]]
        if x == "wn":
            return wn
        return x
    for st in STEPS:
        if st[0] == "set":
            I.setattr_(ref(st[1]), st[2], ref(st[3]))
        elif st[0] == "setopt":
            I.setattr_(I.getattr_(I.getattr_(wn, "options"), st[1]), st[2], st[3])
        else:
            call(ref(st[0]), st[1], *[ref(a) for a in st[2]], **st[3])

    def cond(c):
        if c[0] == "simtime":
            return Cc["SimTimeCondition"](wn, c[1], c[2])
        if c[0] == "clock":
            return Cc["TimeOfDayCondition"](wn, c[1], c[2])
        if c[0] == "value":
            return Cc["ValueCondition"](ref(c[1]), c[2], c[3], c[4])
        return Cc["AndCondition" if c[0] == "and" else "OrCondition"](cond(c[1]), cond(c[2]))
    for name, kind, spec in CONTROLS:
        if kind == "simple":
            act = Cc["ControlAction"](ref(spec["target"]), spec["attr"], ref(spec["value"]))
            call(wn, "add_control", name, Cc["Control"](cond(spec["cond"]), act))
        else:
            th = [Cc["ControlAction"](ref(t), a, ref(v)) for t, a, v in spec["then"]]
            el = [Cc["ControlAction"](ref(t), a, ref(v)) for t, a, v in spec["else_"]]
            call(wn, "add_control", name, Cc["Rule"](cond(spec["cond"]), th, el, priority=spec["priority"], name=name))
    return wn


def dict_diff(a, b, path=""):
    out = []
    if isinstance(a, dict) and isinstance(b, dict):
        for k in sorted(set(a) | set(b), key=str):
            if k not in a:
                out.append("%s/%s only in the copy: %r" % (path, k, b[k]))
            elif k not in b:
                out.append("%s/%s only in the original: %r" % (path, k, a[k]))
            else:
                out += dict_diff(a[k], b[k], path + "/" + str(k))
    elif isinstance(a, list) and isinstance(b, list):
        if len(a) != len(b):
            out.append("%s: %d entries vs %d" % (path, len(a), len(b)))
        for i, (x, y) in enumerate(zip(a, b)):
            out += dict_diff(x, y, "%s[%s]" % (path, x.get("name", i) if isinstance(x, dict) and x.get("name") else i))
    elif a != b or type(a) is not type(b) and not (isinstance(a, (int, float)) and isinstance(b, (int, float)) and not isinstance(a, bool) and not isinstance(b, bool)):
        out.append("%s: %r vs %r" % (path, a, b))
    return out


def rule_round_trip(repo, chk):
    """R-C13-10 (T3, bounded to one fixture model): a model with every element kind (4 junctions incl. several demands / no demand / zero demand, cylindrical and
    volume-curve tanks, reservoirs with and without head pattern, pipes with vertices / check valve / closed, head and power pumps with efficiency curve, energy
    price and pattern, all six valve types, curves of every type, sources, leaks on a junction and a tank, every option group changed, seven simple controls and
    four rules with AND / OR / ELSE / priorities) is BUILT through the public API, turned into its dictionary, JSON-normalised, re-created with from_dict and turned
    into a dictionary again -- all by the repository's own code run by the in-house interpreter.  The two dictionaries must be equal; appending the dictionary to an
    empty model must give the same dictionary as creating the model from it."""
    import json
    import copy as _copy
    from ..concrete import ProgramError
    fd = repo.func(NIO, "from_dict")
    for variant in ("A", "B"):
        _round_trip_variant(repo, chk, fd, variant, json, _copy, ProgramError)
    chk.floor("R-C13-10", 20)


def _round_trip_variant(repo, chk, fd, variant, json, _copy, ProgramError):
    tagv = "" if variant == "A" else " [variant %s]" % variant
    world = model_world(repo)
    to_dict, from_dict = world.function(NIO, "to_dict"), world.function(NIO, "from_dict")

    def norm_json(d):
        def default(o):
            if hasattr(o, "tolist"):
                return o.tolist()
            v = getattr(o, "v", None)
            if isinstance(v, list):
                return v                      # the interpreter's 1-d array stand-in
            raise TypeError("not JSON serialisable: %r" % (o,))
        return json.loads(json.dumps(d, default=default))
    try:
        wn = build_fixture_model(repo, world, variant)
        d1 = norm_json(to_dict(wn))
        wn2 = from_dict(_copy.deepcopy(d1))
        d2 = norm_json(to_dict(wn2))
        wn3 = world.function(MODEL, "WaterNetworkModel")()
        from_dict(_copy.deepcopy(d1), append=wn3)
        d3 = norm_json(to_dict(wn3))
    except ProgramError as e:
        chk.bad("R-C13-10", "the fixture model survives to_dict -> JSON -> from_dict -> to_dict" + tagv, loc(fd), "the repository's own code (interpreted) raised on the fixture model",
                found="%s (line %s)" % (e, e.lineno))
        return
    except TypeError as e:
        chk.bad("R-C13-10", "the dictionary of the fixture model is JSON serialisable" + tagv, loc(fd), found=str(e))
        return
    sizes = {k: len(v) for k, v in d1.items() if isinstance(v, list)}
    if sizes.get("nodes", 0) < 8 or sizes.get("links", 0) < 13 or sizes.get("controls", 0) < 13 or sizes.get("curves", 0) < 6 or sizes.get("sources", 0) < 2:
        raise ExtractError("R-C13-10: the fixture model did not come out complete (%s)" % sizes)
    for sec in ("options", "curves", "patterns", "nodes", "links", "sources", "controls", "name", "references"):
        df = dict_diff(d1.get(sec), d2.get(sec), sec)
        chk.expect(not df, "R-C13-10", "section %r of the dictionary of the re-created fixture model equals the original%s" % (sec, tagv), loc(fd),
                   "to_dict(from_dict(json(to_dict(wn)))) compared with json(to_dict(wn)) for the fixture model built through the public API (interpreted)", expected="no difference", found=df[:5])
    df = dict_diff(d2, d3, "")
    chk.expect(not df, "R-C13-10", "appending the dictionary to an empty model equals creating the model from it" + tagv, loc(fd), found=df[:5])
    chk.sample({"rule": "R-C13-10", "variant": variant, "fixture_sizes": sizes})


def run(repo, chk):
    ct, fd, emits = rule_keys(repo, chk)

    def part(fn, *a):
        # each family of rules decides on its own: one that cannot analyse the tree is an analysis error of its own, the others still run
        try:
            fn(*a)
        except AnchorError as e:
            chk.error("%s: %s: %s" % (fn.__name__, type(e).__name__, e))
    part(rule_round_trip, repo, chk)
    part(rule_sections, repo, chk, fd)
    part(rule_values, repo, chk, ct, fd, emits)
    part(rule_explicit, repo, chk, fd)
    part(rule_json_shapes, repo, chk, ct, fd)
    part(rule_enum_vocab, repo, chk, ct)
    part(rule_control_text, repo, chk, fd)
    part(rule_action_round_trip, repo, chk)
    part(rule_condition_grouping, repo, chk)
    part(rule_sibling_element_types, repo, chk)
    part(rule_options, repo, chk)

WITNESSES = [
    dict(name="round-trip-loses-a-zero-mixing-fraction", file=NIO, old='                if node.setdefault("mixing_fraction") is not None:\n', new='                if node.setdefault("mixing_fraction"):\n', rule="R-C13-10"),
    dict(name="round-trip-loses-the-second-demand", file=NIO, old="                    for i in range(1, len(dl)):\n", new="                    for i in range(2, len(dl)):\n", rule="R-C13-10"),
    dict(name="round-trip-rule-priority-not-restored", file=NIO, old='                ctrllst.append(str(control["priority"]))\n', new='                ctrllst.append(str(3))\n', rule="R-C13-10"),
    dict(name="pattern-wrap-restored-only-when-true", file=NIO, old='            wn.get_pattern(pattern["name"]).wrap = pattern.setdefault("wrap", True)\n',
         new='            if pattern.get("wrap"):\n                wn.get_pattern(pattern["name"]).wrap = pattern["wrap"]\n', rule="R-C13-9"),
    dict(name="quiet-pattern-wrap-through-local", file=NIO, silent=True, old='            wn.get_pattern(pattern["name"]).wrap = pattern.setdefault("wrap", True)\n',
         new='            wrap = pattern.get("wrap", True)\n            restored = wn.get_pattern(pattern["name"])\n            restored.wrap = wrap\n'),
    dict(name="source-strength-dropped-when-zero", file=NIO, old='                quality=source["strength"],\n', new='                quality=source["strength"] or 1.0,\n', rule="R-C13-9"),
    dict(name="simple-controls-written-with-their-registry-name", file=NIO, old='        if "name" in cc.keys() and not cc["name"]:\n', new='        if not cc.get("name"):\n', rule="R-C13-3h"),
    dict(name="quiet-unnamed-rule-test-without-keys-call", file=NIO, silent=True, old='        if "name" in cc.keys() and not cc["name"]:\n', new='        if "name" in cc and cc["name"] in ("", None):\n'),
    dict(name="drop-pipe-wall-coeff", file=NIO, old='                p.wall_coeff = link.setdefault("wall_coeff")\n', new="", rule="R-C13-1"),
    dict(name="land-in-wrong-attribute", file=NIO, old='j.minimum_pressure = node.setdefault("minimum_pressure")',
         new='j.required_pressure = node.setdefault("minimum_pressure")', rule="R-C13-1"),
    dict(name="swap-add-pipe-keywords", file=NIO, old='diameter=link.setdefault("diameter", 0.3048),\n                    roughness=link.setdefault("roughness", 100.0),',
         new='diameter=link.setdefault("roughness", 100.0),\n                    roughness=link.setdefault("diameter", 0.3048),', rule="R-C13-1"),
    dict(name="valve-vertices-raw-list", file=NIO, old='v.vertices = [tuple(pt) for pt in link.setdefault("vertices", list())]',
         new='v.vertices = link.setdefault("vertices", list())', rule="R-C13-2"),
    dict(name="tank-leak-line-read-as-link", file=EIO, old="if current[0].upper() in ('JUNCTION', 'TANK'):", new="if current[0].upper() in ('JUNCTION',):", rule="R-C13-3a"),
    dict(name="controls-reread-in-gpm", file=NIO, old="wn, FlowUnits.SI, control_name)", new="wn, FlowUnits.GPM, control_name)", rule="R-C13-3d"),
    dict(name="pattern-wrap-not-read", file=NIO, old='            wn.get_pattern(pattern["name"]).wrap = pattern.setdefault("wrap", True)\n', new="", rule="R-C13-1b"),
    dict(name="mixtype-setter-drops-mix2", file=ELEM, old="elif value in ('2COMP', 'MIX2'):", new="elif value in ('2COMP',):", rule="R-C13-5"),
    dict(name="options-keyword-renamed", file=OPTS, old="self.pattern_start = pattern_start", new="self.pattern_begin = pattern_start", rule="R-C13-4"),
    dict(name="new-property-not-restored", file=ELEM,
         old="    @property\n    def node_type(self):\n        \"\"\"``\"Reservoir\"`` (read only)\"\"\"",
         new="    @property\n    def zone(self):\n        return self._zone\n    @zone.setter\n    def zone(self, v):\n        self._zone = v\n\n    @property\n    def node_type(self):\n        \"\"\"``\"Reservoir\"`` (read only)\"\"\"", rule="R-C13-1"),
    dict(name="mixtype-lookup-table-without-mix2", file=ELEM,
         old="            value = value.upper()\n            if value in ('MIXED', 'MIX1'): self._mixing_model = MixType.Mixed\n"
             "            elif value in ('2COMP', 'MIX2'): self._mixing_model = MixType.TwoComp\n"
             "            elif value == 'FIFO': self._mixing_model = MixType.FIFO\n            elif value == 'LIFO': self._mixing_model = MixType.LIFO\n"
             "            else:\n                raise ValueError('Mixing model must be MIXED, 2COMP, FIFO or LIFO or a MixType object')\n",
         new="            mix_type = {'MIXED': MixType.Mixed, 'MIX1': MixType.Mixed, '2COMP': MixType.TwoComp, 'FIFO': MixType.FIFO, 'LIFO': MixType.LIFO}.get(value.upper())\n"
             "            if mix_type is None:\n                raise ValueError('Mixing model must be MIXED, 2COMP, FIFO or LIFO or a MixType object')\n"
             "            self._mixing_model = mix_type\n", rule="R-C13-5"),
    dict(name="mixtype-mix2-stored-as-mixed", file=ELEM, old="if value in ('MIXED', 'MIX1'): self._mixing_model", new="if value in ('MIXED', 'MIX1', 'MIX2'): self._mixing_model",
         rule="R-C13-5"),
    dict(name="time-condition-arm-drops-the-time-token", file=NIO,
         old='cstr = " ".join(["AT", cond[1], cond[3], cond[4] if len(cond) > 4 else ""])', new='cstr = " ".join(["AT", cond[1], cond[4] if len(cond) > 4 else ""])',
         rule="R-C13-3c"),
    # ---- repaired defects: reverting the repair must fire
    dict(name="revert-0a269e26-pump-efficiency-stored-as-embedded-dict", file=NIO,
         old='                efficiency = link.setdefault("efficiency")\n                if isinstance(efficiency, dict):\n'
             '                    # to_dict embeds the curve: re-bind to the model\'s curve of that name, as the INP reader does\n'
             '                    efficiency = wn.get_curve(efficiency["name"])\n                p.efficiency = efficiency\n',
         new='                p.efficiency = link.setdefault("efficiency")\n', rule="R-C13-6"),
    dict(name="p-pump-efficiency-rebound-by-conditional-expression", file=NIO,
         old='                efficiency = link.setdefault("efficiency")\n                if isinstance(efficiency, dict):\n'
             '                    # to_dict embeds the curve: re-bind to the model\'s curve of that name, as the INP reader does\n'
             '                    efficiency = wn.get_curve(efficiency["name"])\n                p.efficiency = efficiency\n',
         new='                eff = link.get("efficiency")\n                link["efficiency"] = eff\n'
             '                p.efficiency = wn.get_curve(eff["name"]) if isinstance(eff, dict) else eff\n', silent=True),
    dict(name="revert-27144c2c-then-action-target-always-a-link", file=EIO, old="        for act in self._then_clauses:\n            words = act.strip().split()\n            if len(words) < 6:\n                # TODO: raise error\n                pass\n            if words[1].upper() in ('NODE', 'JUNCTION', 'TANK', 'RESERVOIR'):\n                # a leak action targets a node (as in _read_control_line)\n                link = model.get_node(words[2])\n            else:\n                link = model.get_link(words[2])\n",
         new="        for act in self._then_clauses:\n            words = act.strip().split()\n            if len(words) < 6:\n                # TODO: raise error\n                pass\n            link = model.get_link(words[2])\n", rule="R-C13-3g"),
    dict(name="revert-27144c2c-else-action-value-not-parsed-as-bool", file=EIO, old="        for act in self._else_clauses:\n            words = act.strip().split()\n            if len(words) < 6:\n                # TODO: raise error\n                pass\n            if words[1].upper() in ('NODE', 'JUNCTION', 'TANK', 'RESERVOIR'):\n                # a leak action targets a node (as in _read_control_line)\n                link = model.get_node(words[2])\n            else:\n                link = model.get_link(words[2])\n            attr = words[3].lower()\n            if attr == 'leak_status':\n                value = words[5].upper() == 'TRUE'\n            else:\n                value = ValueCondition._parse_value(words[5])\n",
         new="        for act in self._else_clauses:\n            words = act.strip().split()\n            if len(words) < 6:\n                # TODO: raise error\n                pass\n            if words[1].upper() in ('NODE', 'JUNCTION', 'TANK', 'RESERVOIR'):\n                # a leak action targets a node (as in _read_control_line)\n                link = model.get_node(words[2])\n            else:\n                link = model.get_link(words[2])\n            attr = words[3].lower()\n            value = ValueCondition._parse_value(words[5])\n", rule="R-C13-3g"),
    dict(name="p-then-action-reader-conditional-expressions", file=EIO, old="        for act in self._then_clauses:\n            words = act.strip().split()\n            if len(words) < 6:\n                # TODO: raise error\n                pass\n            if words[1].upper() in ('NODE', 'JUNCTION', 'TANK', 'RESERVOIR'):\n                # a leak action targets a node (as in _read_control_line)\n                link = model.get_node(words[2])\n            else:\n                link = model.get_link(words[2])\n            attr = words[3].lower()\n            if attr == 'leak_status':\n                value = words[5].upper() == 'TRUE'\n            else:\n                value = ValueCondition._parse_value(words[5])\n",
         new="        for act in self._then_clauses:\n            words = act.strip().split()\n            if len(words) < 6:\n                # TODO: raise error\n                pass\n            is_node = words[1].upper() in {'NODE', 'JUNCTION', 'TANK', 'RESERVOIR'}\n"
             "            link = model.get_node(words[2]) if is_node else model.get_link(words[2])\n            attr = words[3].lower()\n"
             "            value = (words[5].upper() == 'TRUE') if attr == 'leak_status' else ValueCondition._parse_value(words[5])\n", silent=True),
    dict(name="pump-speed-defaulted-through-or", file=NIO, old='speed=link.setdefault("base_speed", 1.0),', new='speed=link.get("base_speed") or 1.0,', rule="R-C13-7b"),
    dict(name="pump-speed-defaulted-by-an-is-none-test-preserving", file=NIO, old='speed=link.setdefault("base_speed", 1.0),',
         new='speed=1.0 if link.setdefault("base_speed") is None else link["base_speed"],', silent=True),
    dict(name="revert-287c3d8b-mixing-fraction-truthiness-guard", file=NIO, old='if node.setdefault("mixing_fraction") is not None:', new='if node.setdefault("mixing_fraction"):',
         rule="R-C13-7"),
    dict(name="bulk-coeff-guarded-by-truthiness-through-a-temporary", file=NIO, old='                t.bulk_coeff = node.setdefault("bulk_coeff")\n',
         new='                kb = node.setdefault("bulk_coeff")\n                if kb:\n                    t.bulk_coeff = kb\n', rule="R-C13-7"),
    dict(name="p-mixing-fraction-none-test-through-a-temporary", file=NIO,
         old='                if node.setdefault("mixing_fraction") is not None:\n                    t.mixing_fraction = node.setdefault("mixing_fraction")\n',
         new='                fraction = node.setdefault("mixing_fraction")\n                if not (fraction is None):\n                    t.mixing_fraction = fraction\n', silent=True),
    dict(name="revert-3a7a249b-multipliers-setter-without-dtype", file=ELEM, old="            self._multipliers = np.array(values, dtype=np.float64)\n",
         new="            self._multipliers = np.array(values)\n", rule="R-C13-8"),
    dict(name="p-multipliers-setter-asarray-float", file=ELEM, old="            self._multipliers = np.array(values, dtype=np.float64)\n",
         new="            as_floats = np.asarray(values, dtype=float)\n            self._multipliers = as_floats\n", silent=True),
    dict(name="p-multipliers-setter-unconverted-but-to-dict-converts", file=ELEM, old="            self._multipliers = np.array(values, dtype=np.float64)\n",
         new="            self._multipliers = np.array(values)\n", also=[("multipliers=list(self._multipliers))", "multipliers=[float(m) for m in self._multipliers])")],
         silent=True),
    dict(name="seed3-factory-filters-dict-by-init-signature-drops-user-options", file=OPTS, old="            return cls(**val)\n",
         new="            known = inspect.signature(cls.__init__).parameters\n            unknown = [k for k in val if k not in known]\n"
             "            if unknown:\n                logger.warning('%s: ignoring unknown option(s) %s', cls.__name__, ', '.join(map(str, unknown)))\n"
             "            return cls(**{k: v for k, v in val.items() if k in known})\n", rule="R-C13-4"),
    dict(name="user-options-init-ignores-its-keywords", file=OPTS, old="        for k, v in kwargs.items():\n            self.__dict__[k] = v\n",
         new="        for k, v in kwargs.items():\n            if hasattr(self, k):\n                self.__dict__[k] = v\n", rule="R-C13-4"),
    dict(name="p-factory-copies-the-dict-and-only-reports-unknown-keys", file=OPTS, old="            return cls(**val)\n",
         new="            known = inspect.signature(cls.__init__).parameters\n            unknown = [k for k in val if k not in known]\n"
             "            if unknown:\n                logger.debug('%s: option(s) without a named parameter: %s', cls.__name__, unknown)\n"
             "            kwargs = {k: v for k, v in val.items()}\n            return cls(**kwargs)\n", also=[("import logging\n", "import logging\nimport inspect\n")], silent=True),
    dict(name="p-factory-early-returns", file=OPTS,
         old="        if isinstance(val, cls):\n            return val\n        elif isinstance(val, dict):\n            return cls(**val)\n"
             "        elif isinstance(val, (list, tuple)):\n            return cls(*val)\n        elif val is None:\n            return cls()\n",
         new="        if val is None:\n            return cls()\n        if isinstance(val, cls):\n            return val\n        if isinstance(val, dict):\n"
             "            return cls(**dict(val))\n        if isinstance(val, (list, tuple)):\n            return cls(*val)\n", silent=True),
    # ---- behaviour-preserving shapes that must stay quiet
    dict(name="p-action-str-fstring", file=CTRL,
         old='        return "{} {} {} IS {}".format(target_obj_type.upper(),\n                                       self._target_obj.name,\n'
             '                                       self._attribute.upper(),\n                                       self._repr_value())\n',
         new='        return f"{target_obj_type.upper()} {self._target_obj.name} {self._attribute.upper()} IS {self._repr_value()}"\n', silent=True),
    dict(name="p-action-str-if-statement-and-join", file=CTRL,
         old='        target_obj_type = (self._target_obj.link_type if isinstance(self._target_obj, Link) else \n                           self._target_obj.node_type)\n'
             '        return "{} {} {} IS {}".format(target_obj_type.upper(),\n                                       self._target_obj.name,\n'
             '                                       self._attribute.upper(),\n                                       self._repr_value())\n',
         new='        if isinstance(self._target_obj, Link):\n            kind = self._target_obj.link_type\n        else:\n            kind = self._target_obj.node_type\n'
             '        return " ".join([kind.upper(), str(self._target_obj.name), self._attribute.upper(), "IS", str(self._repr_value())])\n', silent=True),
    dict(name="p-value-condition-str-percent-renamed-locals", file=CTRL,
         old='        att = self._source_attr\n        rel = self._relation.text\n        val = self._repr_value(att, self._threshold)\n'
             '        return "{} {} {} {} {}".format(typ.upper(), obj, att.upper(), rel.upper(), val)\n',
         new='        attribute = self._source_attr\n'
             '        return "%s %s %s %s %s" % (typ.upper(), obj, attribute.upper(), self._relation.text.upper(), self._repr_value(attribute, self._threshold))\n',
         silent=True),
    dict(name="p-simtime-str-fstring", file=CTRL,
         old="fmt = 'SYSTEM TIME {} {}'.format(self._relation.text.upper(), self._sec_to_hours_min_sec(self._threshold))",
         new="when = self._sec_to_hours_min_sec(self._threshold)\n        fmt = f'SYSTEM TIME {self._relation.text.upper()} {when!s}'", silent=True),
    dict(name="p-comparison-text-lookup-table", file=CTRL,
         old="        if self is Comparison.eq:\n            return 'Is'\n        elif self is Comparison.ne:\n            return 'Not'\n        elif self is Comparison.gt:\n"
             "            return 'Above'\n        elif self is Comparison.ge:\n            return '>='\n        elif self is Comparison.lt:\n            return 'Below'\n"
             "        elif self is Comparison.le:\n            return '<='\n",
         new="        words = {Comparison.eq: 'Is', Comparison.ne: 'Not', Comparison.gt: 'Above', Comparison.ge: '>=', Comparison.lt: 'Below', Comparison.le: '<='}\n"
             "        if self in words:\n            return words[self]\n", silent=True),
    dict(name="p-mixing-model-module-lookup-table", file=ELEM,
         old="            value = value.upper()\n            if value in ('MIXED', 'MIX1'): self._mixing_model = MixType.Mixed\n"
             "            elif value in ('2COMP', 'MIX2'): self._mixing_model = MixType.TwoComp\n"
             "            elif value == 'FIFO': self._mixing_model = MixType.FIFO\n            elif value == 'LIFO': self._mixing_model = MixType.LIFO\n"
             "            else:\n                raise ValueError('Mixing model must be MIXED, 2COMP, FIFO or LIFO or a MixType object')\n",
         new="            mix_type = _MIXING_MODEL_KEYWORDS.get(value.upper())\n"
             "            if mix_type is None:\n                raise ValueError('Mixing model must be MIXED, 2COMP, FIFO or LIFO or a MixType object')\n"
             "            self._mixing_model = mix_type\n",
         also=[("class Tank(Node):\n", "_MIXING_MODEL_KEYWORDS = {\n    'MIXED': MixType.Mixed,\n    'MIX1': MixType.Mixed,\n    '2COMP': MixType.TwoComp,\n    'MIX2': MixType.TwoComp,\n"
                "    'FIFO': MixType.FIFO,\n    'LIFO': MixType.LIFO,\n}\n\n\nclass Tank(Node):\n")], silent=True),
    dict(name="p-mixing-model-early-returns", file=ELEM,
         old="            value = value.upper()\n            if value in ('MIXED', 'MIX1'): self._mixing_model = MixType.Mixed\n"
             "            elif value in ('2COMP', 'MIX2'): self._mixing_model = MixType.TwoComp\n"
             "            elif value == 'FIFO': self._mixing_model = MixType.FIFO\n            elif value == 'LIFO': self._mixing_model = MixType.LIFO\n"
             "            else:\n                raise ValueError('Mixing model must be MIXED, 2COMP, FIFO or LIFO or a MixType object')\n",
         new="            keyword = value.upper()\n            if keyword == 'MIXED' or keyword == 'MIX1':\n                self._mixing_model = MixType.Mixed\n                return\n"
             "            if keyword == '2COMP' or keyword == 'MIX2':\n                self._mixing_model = MixType.TwoComp\n                return\n"
             "            if keyword in ('FIFO', 'LIFO'):\n                self._mixing_model = MixType[keyword]\n                return\n"
             "            raise ValueError('Mixing model must be MIXED, 2COMP, FIFO or LIFO or a MixType object')\n", silent=True),
    dict(name="p-control-line-dispatch-conditional-expression", file=EIO,
         old="    if current[0].upper() in ('JUNCTION', 'TANK'):\n        element = wn.get_node(element_name)\n    else:\n        element = wn.get_link(element_name)\n",
         new="    kind = current[0].upper()\n    element = wn.get_node(element_name) if (kind == 'JUNCTION' or kind == 'TANK') else wn.get_link(element_name)\n", silent=True),
    dict(name="p-control-line-relation-lookup-table", file=EIO,
         old="            if current[6] == 'ABOVE':\n                oper = np.greater\n            elif current[6] == 'BELOW':\n                oper = np.less\n"
             "            else:\n                raise RuntimeError(\"The following control is not recognized: \" + line)\n",
         new="            relation = current[6]\n            opers = {'ABOVE': np.greater, 'BELOW': np.less}\n            if relation not in opers:\n"
             "                raise RuntimeError(\"The following control is not recognized: \" + line)\n            oper = opers[relation]\n", silent=True),
    dict(name="p-from-dict-renamed-token-lists", file=NIO,
         old='                ta = control["then_actions"][0].split()\n                tstring = " ".join([ta[0], ta[1], ta[4]])\n',
         new='                action_tokens = control["then_actions"][0].split()\n                tstring = " ".join([action_tokens[0], action_tokens[1], action_tokens[4]])\n',
         silent=True),
    dict(name="p-from-dict-hoisted-node-type", file=NIO,
         old='            name = node["name"]\n            if node["node_type"] == "Junction":\n',
         new='            name = node["name"]\n            node_type = node["node_type"]\n            if node_type == "Junction":\n', silent=True),
    dict(name="p-link-to-dict-guard-clauses-and-module-exclusion-tuple", file=BASE,
         old="            if not k.startswith('_') and k not in [\n                'flow', 'cv', 'friction_factor', 'headloss',\n"
             "                'quality', 'reaction_rate', 'setting', 'status', 'velocity', 'speed_timeseries',\n            ]:\n"
             "                val = getattr(self, k)\n                if not isinstance(val, types.MethodType):\n                    if hasattr(val, \"to_ref\"):\n"
             "                        if hasattr(self, k+\"_name\") and getattr(self, k+\"_name\") is not None:\n                            continue\n"
             "                        d[k] = val.to_ref()\n                    elif hasattr(val, \"to_list\"):\n                        d[k] = val.to_list()\n"
             "                    elif hasattr(val, \"to_dict\"):\n                        d[k] = val.to_dict()\n"
             "                    elif isinstance(val, (enum.IntEnum, enum.Enum)):\n                        d[k] = str(val)\n                    else:\n"
             "                        d[k] = val\n",
         new="            if k.startswith('_') or k in _LINK_DICT_EXCLUDE:\n                continue\n            val = getattr(self, k)\n"
             "            if isinstance(val, types.MethodType):\n                continue\n"
             "            if hasattr(val, \"to_ref\") and hasattr(self, k+\"_name\") and getattr(self, k+\"_name\") is not None:\n                continue\n"
             "            if hasattr(val, \"to_ref\"):\n                d[k] = val.to_ref()\n            elif hasattr(val, \"to_list\"):\n                d[k] = val.to_list()\n"
             "            elif hasattr(val, \"to_dict\"):\n                d[k] = val.to_dict()\n            else:\n"
             "                d[k] = str(val) if isinstance(val, (enum.IntEnum, enum.Enum)) else val\n",
         also=[("class AbstractModel(object):\n", "_LINK_DICT_EXCLUDE = ('flow', 'cv', 'friction_factor', 'headloss',\n                      'quality', 'reaction_rate', 'setting', 'status', "
                "'velocity',\n                      'speed_timeseries')\n\n\nclass AbstractModel(object):\n")], silent=True),
    dict(name="link-to-dict-emits-cv-which-from-dict-does-not-read", file=BASE, old="'flow', 'cv', 'friction_factor', 'headloss',",
         new="'flow', 'friction_factor', 'headloss',", rule="R-C13-1"),
    dict(name="p-timeseries-to-dict-literal", file=ELEM,
         old="        d = dict(base_val=self._base)\n        # if isinstance(self._pattern, six.string_types):\n        d['pattern_name'] = self.pattern_name\n"
             "        # if self._category:\n        d['category'] = self.category\n        return d\n",
         new="        return {\n            'base_val': self._base,\n            'pattern_name': self.pattern_name,\n            'category': self.category,\n        }\n",
         silent=True),
    dict(name="timeseries-to-dict-new-key-not-read", file=ELEM,
         old="        d['category'] = self.category\n        return d\n", new="        d['category'] = self.category\n        d.update(scale=1.0)\n        return d\n",
         rule="R-C13-1b"),
    dict(name="p-rule-to-dict-two-literals", file=CTRL,
         old="        ret = dict()\n        if self._control_type == _ControlType.rule:\n            ret['type'] = 'rule'\n            ret['name'] = str(self._name)\n"
             "            ret['condition'] = str(self._condition)\n            ret['then_actions'] = [str(a) for a in self._then_actions]\n"
             "            ret['else_actions'] = [str(a) for a in self._else_actions]\n            ret['priority'] = int(self._priority)\n        else:\n"
             "            ret['type'] = 'simple'\n            ret['condition'] = str(self._condition)\n            ret['then_actions'] = [str(a) for a in self._then_actions]\n"
             "        return ret\n",
         new="        if self._control_type == _ControlType.rule:\n            return {'type': 'rule', 'name': str(self._name), 'condition': str(self._condition),\n"
             "                    'then_actions': [str(a) for a in self._then_actions], 'else_actions': [str(a) for a in self._else_actions],\n"
             "                    'priority': int(self._priority)}\n"
             "        return {'type': 'simple', 'condition': str(self._condition), 'then_actions': [str(a) for a in self._then_actions]}\n", silent=True),
    dict(name="rule-to-dict-new-key-not-read", file=CTRL, old="            ret['priority'] = int(self._priority)\n",
         new="            ret['priority'] = int(self._priority)\n            ret['enabled'] = True\n", rule="R-C13-3e"),
    dict(name="p-from-dict-demand-entry-temporaries", file=NIO,
         old='                    base_demand = dl[0].setdefault("base_val", 0.0)\n                    pattern_name = dl[0].setdefault("pattern_name")\n'
             '                    demand_category = dl[0].setdefault("category")\n',
         new='                    first_demand = dl[0]\n                    base_demand = first_demand.setdefault("base_val", 0.0)\n'
             '                    pattern_name = first_demand.setdefault("pattern_name")\n                    demand_category = first_demand.setdefault("category")\n',
         also=[('                        base_val = dl[i].setdefault("base_val", 0.0)\n                        pattern_name = dl[i].setdefault("pattern_name")\n'
                '                        category = dl[i].setdefault("category")\n',
                '                        extra_demand = dl[i]\n                        base_val = extra_demand.setdefault("base_val", 0.0)\n'
                '                        pattern_name = extra_demand.setdefault("pattern_name")\n                        category = extra_demand.setdefault("category")\n')],
         silent=True),
    dict(name="further-demands-lose-their-category", file=NIO, old='                        category = dl[i].setdefault("category")\n',
         new='                        category = None\n', rule="R-C13-1b"),
    dict(name="p-options-default-by-if-statement", file=OPTS,
         old="        self.param_opts = param_opts if param_opts is not None else _new_param_opts()\n",
         new="        if param_opts is not None:\n            self.param_opts = param_opts\n        else:\n            self.param_opts = _new_param_opts()\n", silent=True),
    dict(name="reorder-preserving", file=NIO, old='                p.bulk_coeff = link.setdefault("bulk_coeff")\n                p.tag = link.setdefault("tag")\n',
         new='                p.tag = link.setdefault("tag")\n                p.bulk_coeff = link.setdefault("bulk_coeff")\n', silent=True),
]
