"""C13 -- dictionary / JSON representations round-trip the model.

to_dict is generic (it walks dir(self)); from_dict is a hand-written list of keys.  The
check derives, per element class, the set of keys to_dict can emit from the class table
(properties, setters, exclusion lists) and compares it with what the from_dict branch of
that class consumes and where each key lands.
"""
import ast

from ..src import (walk, calls, call_name, last_attr, dotted, norm, loc, const, AnchorError, ExtractError,
                   parent, unparse, str_consts)

NIO = "wntr/network/io.py"
BASE = "wntr/network/base.py"
ELEM = "wntr/network/elements.py"
MODEL = "wntr/network/model.py"
CTRL = "wntr/network/controls.py"
EIO = "wntr/epanet/io.py"
OPTS = "wntr/network/options.py"
EUTIL = "wntr/epanet/util.py"

EXPLANATION = (
    "Static serializer/deserializer agreement analysis of to_dict/from_dict: (R-C13-1) for every element class the keys the generic "
    "Node/Link.to_dict can emit are derived from the class table (public properties of the MRO minus the exclusion lists); every key "
    "whose state can be set through the API (a real setter, or a public method writing the backing field) must be consumed by the "
    "class's from_dict branch and land, through the add_* signature / registry assignments or a direct assignment, in the attribute of "
    "the same name; keys of the explicit to_dict methods (Pattern, Curve, Source, TimeSeries) must be consumed likewise; (R-C13-2) a "
    "setter fed from from_dict must accept the JSON image (list) of a tuple unless from_dict converts; (R-C13-3) control text: the node "
    "kinds that can carry a leak action are dispatched as nodes by _read_control_line, every relation / attribute / token the "
    "serialiser of a simple control emits is consumed by the re-reader, units are SI; (R-C13-4) every options class accepts exactly its "
    "own __dict__ keys as constructor keywords and stores each under its own name; (R-C13-5) every string an enum-valued key is emitted "
    "as is accepted by the setter / add_* conversion it lands in. Decides these structural agreements, not value equality of models.")
RULE_TEXT = ("one instance = one (class, key) pair, one control-text token, one options parameter or one enum member; distinct = distinct "
             "constructs")
ASSUMPTIONS = [
    "to_dict emits exactly the public non-method attributes found statically in the class bodies and __init__ (no attributes added at run time except user-defined ones, which from_dict copies generically)",
    "priority and name of simple controls are not part of the dictionary and therefore outside the statement's equality criterion",
    "rule conditions that EPANET's rule grammar cannot express (RelativeCondition, FunctionCondition, one-day TimeOfDayCondition) are not analysed",
]

NODE_BRANCHES = {"Junction": ["Junction"], "Tank": ["Tank"], "Reservoir": ["Reservoir"]}
LINK_BRANCHES = {"Pipe": ["Pipe"], "Pump": ["HeadPump", "PowerPump"],
                 "Valve": ["PRValve", "PSValve", "PBValve", "FCValve", "TCValve", "GPValve"]}
DISCRIMINATORS = {"name", "node_type", "link_type", "pump_type", "valve_type"}


# --------------------------------------------------------------------------- class table
class ClassTable(object):
    def __init__(self, repo):
        self.repo = repo
        self.classes = {}
        for rel in (BASE, ELEM):
            for k, v in repo.classes(rel).items():
                self.classes[k] = v

    def bases(self, c):
        return [b.id for b in c.bases if isinstance(b, ast.Name)]

    def mro(self, name):
        seen, todo = [], [name]
        while todo:
            n = todo.pop(0)
            if n in seen or n not in self.classes:
                continue
            seen.append(n)
            todo += self.bases(self.classes[n])
        return seen

    def public(self, name):
        """name -> dict(getter, setter, kind) for public non-method attributes, most-derived definition wins."""
        pub = {}
        for k in reversed(self.mro(name)):
            c = self.classes[k]
            for n in c.body:
                if isinstance(n, ast.FunctionDef):
                    isprop = any(isinstance(d, ast.Name) and d.id == "property" for d in n.decorator_list)
                    isset = any(isinstance(d, ast.Attribute) and d.attr == "setter" for d in n.decorator_list)
                    if n.name == "__init__":
                        for a in walk(n):
                            if (isinstance(a, ast.Attribute) and isinstance(a.ctx, ast.Store) and isinstance(a.value, ast.Name)
                                    and a.value.id == "self" and not a.attr.startswith("_")):
                                pub.setdefault(a.attr, {"kind": "inst", "getter": None, "setter": None, "cls": k})
                    if n.name.startswith("_"):
                        continue
                    n._rel = getattr(c, "_rel", None)
                    n._qual = "%s.%s" % (k, n.name)
                    if isprop:
                        pub[n.name] = {"kind": "prop", "getter": n, "setter": None, "cls": k}
                    elif isset:
                        if n.name in pub and pub[n.name]["kind"] == "prop":
                            pub[n.name]["setter"] = n
                    else:
                        pub[n.name] = {"kind": "method", "cls": k}
                elif isinstance(n, ast.Assign):
                    for t in n.targets:
                        if isinstance(t, ast.Name) and not t.id.startswith("_"):
                            pub[t.id] = {"kind": "classattr", "getter": None, "setter": None, "cls": k}
        return {k: v for k, v in pub.items() if v["kind"] != "method"}

    def methods(self, name):
        out = {}
        for k in reversed(self.mro(name)):
            for n in self.classes[k].body:
                if isinstance(n, ast.FunctionDef):
                    out.setdefault(n.name, []).append(n)
        return out


def only_raises(fn):
    body = [s for s in fn.body if not (isinstance(s, ast.Expr) and isinstance(s.value, ast.Constant))]
    return bool(body) and all(isinstance(s, ast.Raise) for s in body)


def backing_fields(getter):
    """private self fields a getter returns (directly)."""
    out = set()
    for n in walk(getter):
        if isinstance(n, ast.Return) and n.value is not None:
            for a in ast.walk(n.value):
                if isinstance(a, ast.Attribute) and isinstance(a.value, ast.Name) and a.value.id == "self" and a.attr.startswith("_"):
                    out.add(a.attr)
    return out


def api_writers(ct, cname, fields):
    """public methods (not __init__, not properties) of the class that assign one of the private fields."""
    out = []
    for mname, defs in ct.methods(cname).items():
        if mname.startswith("_"):
            continue
        for fn in defs:
            if any(isinstance(d, (ast.Name, ast.Attribute)) for d in fn.decorator_list):
                continue
            for a in walk(fn):
                if (isinstance(a, ast.Attribute) and isinstance(a.ctx, ast.Store) and isinstance(a.value, ast.Name)
                        and a.value.id == "self" and a.attr in fields):
                    out.append(mname)
                    break
    return sorted(set(out))


def exclusion_list(fn):
    """the list literal in `k not in [...]` of a generic to_dict."""
    for n in walk(fn):
        if isinstance(n, ast.Compare) and len(n.ops) == 1 and isinstance(n.ops[0], ast.NotIn) and isinstance(n.comparators[0], (ast.List, ast.Tuple)):
            vals = [const(e) for e in n.comparators[0].elts]
            if vals and all(isinstance(v, str) for v in vals):
                return set(vals)
    raise ExtractError("exclusion list of %s not found" % fn._qual)


def generic_walks_dir(fn):
    return any(isinstance(n, ast.For) and isinstance(n.iter, ast.Call) and call_name(n.iter) == "dir" for n in walk(fn))


# --------------------------------------------------------------------------- from_dict branches
def find_branches(fd, listkey, typekey):
    """for X in d[listkey]: if X[typekey] == 'T': ... -> (loopvar, {T: body})"""
    for n in walk(fd):
        if isinstance(n, ast.For) and isinstance(n.iter, ast.Subscript) and const(n.iter.slice) == listkey and isinstance(n.target, ast.Name):
            var = n.target.id
            out = {}
            for s in n.body:
                cur = s
                while isinstance(cur, ast.If):
                    t = cur.test
                    if (isinstance(t, ast.Compare) and isinstance(t.left, ast.Subscript) and const(t.left.slice) == typekey
                            and len(t.comparators) == 1 and isinstance(const(t.comparators[0]), str)):
                        out[const(t.comparators[0])] = cur.body
                    cur = cur.orelse[0] if (len(cur.orelse) == 1 and isinstance(cur.orelse[0], ast.If)) else None
            if out:
                return var, out, n
    raise ExtractError("from_dict: loop over d[%r] with %r dispatch not found" % (listkey, typekey))


def keys_of(expr, var):
    """string keys read from dict variable `var` inside expr: var['k'], var.setdefault('k', ..), var.get('k')"""
    out = set()
    for n in ast.walk(expr):
        if isinstance(n, ast.Subscript) and isinstance(n.value, ast.Name) and n.value.id == var and isinstance(const(n.slice), str):
            out.add(const(n.slice))
        if (isinstance(n, ast.Call) and isinstance(n.func, ast.Attribute) and n.func.attr in ("setdefault", "get", "pop")
                and isinstance(n.func.value, ast.Name) and n.func.value.id == var and n.args and isinstance(const(n.args[0]), str)):
            out.add(const(n.args[0]))
    return out


class Branch(object):
    """consumed keys and landings of one from_dict branch."""

    def __init__(self, body, var):
        self.var = var
        self.body = body
        self.consumed = set()
        self.local = {}        # local name -> set of keys it carries
        self.attr_land = {}    # key -> set of attribute names assigned directly (obj.attr = ...)
        self.attr_expr = {}    # (key, attr) -> value expression
        self.call_land = {}    # key -> set of (callee attr name, param name or position)
        self.meth_land = {}    # key -> set of (element method name, param name or position)
        stmts = []
        for s in body:
            stmts.extend(self._flat(s))
        for _ in range(3):   # propagate locals to a fixpoint (tiny)
            for s in stmts:
                if isinstance(s, ast.Assign) and len(s.targets) == 1 and isinstance(s.targets[0], ast.Name):
                    self.local.setdefault(s.targets[0].id, set()).update(self._keys(s.value))
        for s in stmts:
            for e in ast.walk(s) if not isinstance(s, (ast.If, ast.For, ast.While)) else ast.walk(getattr(s, "test", None) or getattr(s, "iter", None)):
                pass
        self.guarded_by = {}   # key -> set of OTHER keys whose truth decides whether key is read at all (None = read unconditionally somewhere)
        self.guards_methods = {}   # key -> element methods called in the body of an `if` whose test reads the key
        for s in stmts:
            if isinstance(s, ast.If):
                for k in self._keys(s.test):
                    for c in calls(ast.Module(body=s.body, type_ignores=[])):
                        if isinstance(c.func, ast.Attribute) and isinstance(c.func.value, ast.Name) and c.func.value.id not in ("wn", var):
                            self.guards_methods.setdefault(k, set()).add(c.func.attr)
        for s in stmts:
            exprs = [s] if not isinstance(s, (ast.If, ast.For, ast.While)) else [getattr(s, "test", None) or s.iter]
            gk = set()
            q = s
            while q is not None and not (isinstance(q, ast.stmt) and q in body):
                pq = getattr(q, "_parent", None)
                if isinstance(pq, ast.If) and q in pq.body + pq.orelse:
                    gk |= self._keys(pq.test)
                q = pq
            for ex in exprs:
                ks = keys_of(ex, var)
                for k in ks:
                    others = gk - {k} - DISCRIMINATORS
                    if not others:
                        self.guarded_by[k] = None
                    elif self.guarded_by.get(k, set()) is not None:
                        self.guarded_by.setdefault(k, set()).update(others)
            for ex in exprs:
                self.consumed |= keys_of(ex, var)
            if isinstance(s, ast.Assign) and len(s.targets) == 1 and isinstance(s.targets[0], ast.Attribute) and isinstance(s.targets[0].value, ast.Name):
                for k in self._keys(s.value):
                    self.attr_land.setdefault(k, set()).add(s.targets[0].attr)
                    self.attr_expr[(k, s.targets[0].attr)] = s.value
            for c in (calls(s) if not isinstance(s, (ast.If, ast.For, ast.While)) else []):
                nm = last_attr(c)
                if nm and isinstance(c.func, ast.Attribute) and isinstance(c.func.value, ast.Name) and c.func.value.id not in ("wn", var) and not nm.startswith("set"):
                    # method of the element object itself: j.add_leak(wn, area=.., discharge_coeff=..)
                    for i, a in enumerate(c.args):
                        for k in self._keys(a):
                            self.meth_land.setdefault(k, set()).add((nm, i))
                    for kw in c.keywords:
                        for k in self._keys(kw.value):
                            self.meth_land.setdefault(k, set()).add((nm, kw.arg))
                    continue
                if nm and (nm.startswith("add_")):
                    for i, a in enumerate(c.args):
                        for k in self._keys(a):
                            self.call_land.setdefault(k, set()).add((nm, i))
                    for kw in c.keywords:
                        for k in self._keys(kw.value):
                            self.call_land.setdefault(k, set()).add((nm, kw.arg))

    def _flat(self, s):
        out = [s]
        for fld in ("body", "orelse"):
            for x in getattr(s, fld, []) or []:
                if isinstance(x, ast.stmt):
                    out.extend(self._flat(x))
        return out

    def _keys(self, expr):
        ks = set(keys_of(expr, self.var))
        for n in ast.walk(expr):
            if isinstance(n, ast.Name) and n.id in self.local:
                ks |= self.local[n.id]
        return ks


def forward_map(repo, wn_fn, regattr):
    """param of WaterNetworkModel.add_X -> (registry method, registry param) through the forwarding call self.<reg>.add_X(...)."""
    for c in calls(wn_fn):
        if isinstance(c.func, ast.Attribute) and c.func.attr == wn_fn.name and dotted(c.func.value) == "self." + regattr:
            return c
    raise ExtractError("%s does not forward to self.%s.%s" % (wn_fn._qual, regattr, wn_fn.name))


def params(fn):
    a = fn.args
    return [x.arg for x in a.posonlyargs + a.args if x.arg != "self"]


def registry_param_attrs(reg_fn):
    """registry add_X: param -> set of attributes assigned from it (obj.attr = f(param)), plus ('call', method) uses."""
    ps = params(reg_fn)
    out = {p: set() for p in ps}
    for n in walk(reg_fn):
        if isinstance(n, ast.Assign) and len(n.targets) == 1 and isinstance(n.targets[0], ast.Attribute) and isinstance(n.targets[0].value, ast.Name):
            names = {x.id for x in ast.walk(n.value) if isinstance(x, ast.Name)}
            for p in ps:
                if p in names:
                    out[p].add(n.targets[0].attr)
        if isinstance(n, ast.Call) and isinstance(n.func, ast.Attribute) and isinstance(n.func.value, ast.Name) and n.func.attr.startswith("add_"):
            for a in list(n.args) + [k.value for k in n.keywords]:
                for x in ast.walk(a):
                    if isinstance(x, ast.Name) and x.id in out:
                        out[x.id].add("call:" + n.func.attr)
        if isinstance(n, ast.Call) and isinstance(n.func, ast.Name) and n.func.id[:1].isupper():
            # constructor: Pipe(name, start_node_name, end_node_name, self)
            for a in n.args:
                if isinstance(a, ast.Name) and a.id in out:
                    out[a.id].add("ctor:" + n.func.id)
    return out


def resolve_landing(repo, branch, key, wn_cls_methods, reg_methods, ct=None, classes=()):
    """set of attribute names key lands in (through add_* or direct assignment)."""
    lands = set(branch.attr_land.get(key, ()))
    for meth in branch.guards_methods.get(key, ()):
        # `if d[key]: obj.method(...)` restores a boolean key when the method sets its backing field to a constant
        for cn in classes:
            for fn in (ct.methods(cn).get(meth, []) if ct is not None else []):
                for n in walk(fn):
                    if isinstance(n, ast.Assign) and isinstance(n.targets[0], ast.Attribute) and isinstance(n.targets[0].value, ast.Name) and n.targets[0].value.id == "self" \
                            and n.targets[0].attr in ("_" + key, key) and const(n.value, None) is True:
                        lands.add(n.targets[0].attr)
    for (meth, p) in branch.meth_land.get(key, ()):
        for cn in classes:
            for fn in (ct.methods(cn).get(meth, []) if ct is not None else []):
                ps = params(fn)
                pname = ps[p] if isinstance(p, int) and p < len(ps) else p
                for n in walk(fn):
                    if isinstance(n, ast.Assign) and isinstance(n.targets[0], ast.Attribute) and isinstance(n.targets[0].value, ast.Name) and n.targets[0].value.id == "self":
                        if any(isinstance(x, ast.Name) and x.id == pname for x in ast.walk(n.value)):
                            lands.add(n.targets[0].attr)
    for (meth, p) in branch.call_land.get(key, ()):
        wn_fn = wn_cls_methods.get(meth)
        if wn_fn is None:
            continue
        wps = params(wn_fn)
        pname = wps[p] if isinstance(p, int) and p < len(wps) else p
        # forward to the registry
        fwd = None
        for regattr in ("_node_reg", "_link_reg", "_curve_reg", "_pattern_reg", "_sources"):
            try:
                fwd = forward_map(repo, wn_fn, regattr)
                break
            except ExtractError:
                continue
        if fwd is None:
            lands.add("param:" + str(pname))
            continue
        reg_fn = reg_methods.get(meth)
        if reg_fn is None:
            lands.add("param:" + str(pname))
            continue
        rps = params(reg_fn)
        rp = None
        for i, a in enumerate(fwd.args):
            if isinstance(a, ast.Name) and a.id == pname and i < len(rps):
                rp = rps[i]
        for kw in fwd.keywords:
            if isinstance(kw.value, ast.Name) and kw.value.id == pname:
                rp = kw.arg
        if rp is None:
            lands.add("param:" + str(pname))
            continue
        lands |= registry_param_attrs(reg_fn).get(rp, set()) or {"param:" + rp}
    return lands


def explicit_dict_keys(fn):
    """keys of an explicit to_dict: dict(k=..) calls and d['k'] = .. stores; returns {key: conditional?}"""
    out = {}
    for n in walk(fn):
        if isinstance(n, ast.Call) and isinstance(n.func, ast.Name) and n.func.id == "dict":
            for kw in n.keywords:
                if kw.arg:
                    out[kw.arg] = False
        if isinstance(n, ast.Assign):
            for t in n.targets:
                if isinstance(t, ast.Subscript) and isinstance(const(t.slice), str):
                    p = parent(n)
                    out[const(t.slice)] = isinstance(p, ast.If)
    return out


# --------------------------------------------------------------------------- the rules
def rule_keys(repo, chk):
    ct = ClassTable(repo)
    fd = repo.func(NIO, "from_dict")
    chk.fn(fd)
    node_td = repo.func(BASE, "Node.to_dict")
    link_td = repo.func(BASE, "Link.to_dict")
    chk.fn(node_td, link_td)
    for f in (node_td, link_td):
        if not generic_walks_dir(f):
            raise ExtractError("%s no longer walks dir(self): the key derivation does not apply" % f._qual)
    excl = {"node": exclusion_list(node_td), "link": exclusion_list(link_td)}
    wn_methods = {n.name: n for n in repo.cls(MODEL, "WaterNetworkModel").body if isinstance(n, ast.FunctionDef)}
    for n in wn_methods.values():
        n._rel = MODEL
        n._qual = "WaterNetworkModel." + n.name
    reg_methods = {}
    for rc in ("NodeRegistry", "LinkRegistry", "CurveRegistry", "PatternRegistry", "SourceRegistry"):
        if repo.has_cls(MODEL, rc):
            for n in repo.cls(MODEL, rc).body:
                if isinstance(n, ast.FunctionDef) and n.name.startswith("add_"):
                    n._rel = MODEL
                    n._qual = rc + "." + n.name
                    reg_methods[n.name] = n
    total = 0
    for kind, listkey, typekey, table in (("node", "nodes", "node_type", NODE_BRANCHES), ("link", "links", "link_type", LINK_BRANCHES)):
        var, bodies, loop = find_branches(fd, listkey, typekey)
        for tname, classes in table.items():
            if tname not in bodies:
                chk.bad("R-C13-1", "from_dict has a branch for %s %r" % (kind, tname), loc(fd, loop), "no branch dispatches on this type")
                continue
            br = Branch(bodies[tname], var)
            emitted = {}
            for cn in classes:
                if cn not in ct.classes:
                    raise AnchorError("class %s vanished from elements.py" % cn)
                pub = ct.public(cn)
                for k, info in pub.items():
                    if k in excl[kind]:
                        continue
                    if kind == "link" and (k + "_name") in pub:
                        continue      # object view of a *_name key (Link.to_dict skips it when the name is set)
                    emitted.setdefault(k, []).append((cn, info))
            sample = {"class": tname, "emitted": sorted(emitted), "consumed": sorted(br.consumed)}
            chk.sample(sample)
            for k in sorted(emitted):
                cn, info = emitted[k][0]
                if k in DISCRIMINATORS or k.endswith("_node_name"):
                    chk.expect(k in br.consumed or k in ("name",) or any(k in keys_of(loop, var) for _ in [0]), "R-C13-1",
                               "%s.%s (identity / discriminator key) is read by from_dict" % (tname, k), loc(fd, loop))
                    total += 1
                    continue
                # is the state behind this key settable through the API?
                writable, why = False, ""
                if info["kind"] in ("inst", "classattr"):
                    writable, why = True, "plain attribute"
                elif info.get("setter") is not None and not only_raises(info["setter"]):
                    writable, why = True, "setter"
                elif info.get("getter") is not None:
                    if only_raises(info["getter"]):
                        writable, why = False, "deprecated (getter raises)"
                    else:
                        ws = api_writers(ct, cn, backing_fields(info["getter"]))
                        if ws:
                            writable, why = True, "backing field written by %s()" % ", ".join(ws)
                        else:
                            why = "read-only derived property"
                construct = "%s key %r (%s) is consumed by from_dict and lands in attribute %r" % (tname, k, why, k)
                if not writable:
                    chk.ok("R-C13-1", "%s key %r is derived (%s): no obligation" % (tname, k, why), loc(fd, loop))
                    total += 1
                    continue
                total += 1
                if k not in br.consumed:
                    chk.bad("R-C13-1", construct, loc(fd, loop),
                            "to_dict emits %r for %s (class %s, %s) but the %s branch of from_dict never reads it: the value is lost" % (k, tname, cn, why, tname),
                            expected="a read of %s[%r]" % (var, k), found="keys read: %s" % sorted(br.consumed))
                    continue
                gb = br.guarded_by.get(k)
                if gb:
                    chk.bad("R-C13-1", construct, loc(fd, loop),
                            "key %r is read only when key(s) %s are truthy: to_dict emits it regardless (e.g. after remove_leak the area and coefficient remain while "
                            "leak is False), so the value is lost in that case" % (k, sorted(gb)), expected="unconditional restore of %s" % k, found="guarded by %s" % sorted(gb))
                    continue
                lands = resolve_landing(repo, br, k, wn_methods, reg_methods, ct, classes)
                ok = (k in lands) or (("_" + k) in lands) or any(l == "call:add_demand" for l in lands)
                if k == "demand_timeseries_list":
                    ok = any(l.startswith("call:add_demand") or l.startswith("param:") for l in lands) or ok
                chk.expect(ok, "R-C13-1", construct, loc(fd, loop),
                           "key %r is read but stored into %s" % (k, sorted(lands)), expected="attribute %s" % k, found=sorted(lands))
    chk.floor("R-C13-1", 90)
    return ct, fd


def rule_explicit(repo, chk, fd):
    """Pattern / Curve / Source / TimeSeries: explicit to_dict keys vs from_dict reads."""
    table = [("Pattern", "patterns", "pattern"), ("Curve", "curves", "curve"), ("Source", "sources", "source")]
    for cname, listkey, _ in table:
        td = repo.func(ELEM, cname + ".to_dict")
        chk.fn(td)
        keys = explicit_dict_keys(td)
        loop = None
        for n in walk(fd):
            if isinstance(n, ast.For) and isinstance(n.iter, ast.Subscript) and const(n.iter.slice) == listkey and isinstance(n.target, ast.Name):
                loop = n
        if loop is None:
            raise ExtractError("from_dict: loop over d[%r] not found" % listkey)
        read = keys_of(loop, loop.target.id)
        chk.sample({"class": cname, "emitted": sorted(keys), "consumed": sorted(read)})
        for k in sorted(keys):
            if cname == "Source" and k == "species":
                chk.ok("R-C13-1b", "Source key 'species' (multi-species extension only, absent for EPANET sources): no obligation", loc(fd, loop))
                continue
            chk.expect(k in read, "R-C13-1b", "%s key %r emitted by %s.to_dict is read by from_dict" % (cname, k, cname), loc(fd, loop),
                       "to_dict emits %r%s but from_dict never reads it" % (k, " (conditionally)" if keys[k] else ""),
                       expected="%s[%r]" % (loop.target.id, k), found=sorted(read))
    # demand entries
    td = repo.func(ELEM, "TimeSeries.to_dict")
    keys = explicit_dict_keys(td)
    var, bodies, loop = find_branches(fd, "nodes", "node_type")
    jb = bodies.get("Junction", [])
    reads0, readsi = set(), set()
    for s in jb:
        for n in ast.walk(s):
            if (isinstance(n, ast.Call) and isinstance(n.func, ast.Attribute) and n.func.attr in ("setdefault", "get") and isinstance(n.func.value, ast.Subscript)
                    and isinstance(n.func.value.value, ast.Name) and n.args and isinstance(const(n.args[0]), str)):
                idx = n.func.value.slice
                (reads0 if const(idx) == 0 else readsi).add(const(n.args[0]))
    for k in sorted(keys):
        chk.expect(k in reads0, "R-C13-1b", "demand entry key %r is read for the first demand" % k, loc(fd, loop), found=sorted(reads0))
        chk.expect(k in readsi, "R-C13-1b", "demand entry key %r is read for every further demand" % k, loc(fd, loop), found=sorted(readsi))
    chk.floor("R-C13-1b", 3 + 3 + 5 + 6)


def rule_json_shapes(repo, chk, ct, fd):
    """R-C13-2: a setter fed from from_dict that insists on tuples must be fed tuples."""
    n_inst = 0
    for kind, listkey, typekey, table in (("node", "nodes", "node_type", NODE_BRANCHES), ("link", "links", "link_type", LINK_BRANCHES)):
        var, bodies, loop = find_branches(fd, listkey, typekey)
        for tname, classes in table.items():
            if tname not in bodies:
                continue
            br = Branch(bodies[tname], var)
            pub = ct.public(classes[0])
            for (k, attr), expr in sorted(br.attr_expr.items()):
                info = pub.get(attr)
                if not info or info.get("setter") is None:
                    continue
                st = info["setter"]
                strict = []
                for n in walk(st):
                    if isinstance(n, ast.Call) and isinstance(n.func, ast.Name) and n.func.id == "isinstance" and len(n.args) == 2:
                        t = n.args[1]
                        if isinstance(t, ast.Name) and t.id == "tuple":
                            # strict only if used negated in a raising test
                            p = parent(n)
                            if isinstance(p, ast.UnaryOp) and isinstance(p.op, ast.Not):
                                strict.append(n)
                if not strict:
                    chk.ok("R-C13-2", "%s.%s setter accepts lists (no tuple-only test)" % (tname, attr), loc(st))
                    n_inst += 1
                    continue
                converts = any(isinstance(x, ast.Call) and isinstance(x.func, ast.Name) and x.func.id == "tuple" for x in ast.walk(expr))
                n_inst += 1
                chk.expect(converts, "R-C13-2", "%s.%s: the setter insists on tuples, from_dict converts the JSON lists" % (tname, attr), loc(fd, expr),
                           "setter %s rejects non-tuples (%s) but from_dict passes the raw value %s: read_json of a model with %s raises" % (
                               st._qual, norm(strict[0]), norm(expr), attr),
                           expected="tuple(...) conversion in from_dict", found=norm(expr))
    chk.floor("R-C13-2", 20)


def enum_members(repo, rel, name):
    c = repo.cls(rel, name)
    canon, seen = [], {}
    for n in c.body:
        if isinstance(n, ast.Assign) and len(n.targets) == 1 and isinstance(n.targets[0], ast.Name):
            v = unparse(n.value)
            if v not in seen:
                seen[v] = n.targets[0].id
                canon.append(n.targets[0].id)
    strfn = [n for n in c.body if isinstance(n, ast.FunctionDef) and n.name == "__str__"]
    returns_name = bool(strfn) and any(isinstance(r, ast.Return) and unparse(r.value) == "self.name" for r in walk(strfn[0]))
    all_names = [n.targets[0].id for n in c.body if isinstance(n, ast.Assign) and len(n.targets) == 1 and isinstance(n.targets[0], ast.Name)]
    return canon, all_names, returns_name, c


def rule_enum_vocab(repo, chk, ct):
    """R-C13-5: strings an enum-valued key is emitted as are accepted where the key lands."""
    # Tank.mixing_model : MixType
    pub = ct.public("Tank")
    st = pub["mixing_model"]["setter"]
    if st is None:
        raise AnchorError("Tank.mixing_model setter vanished")
    chk.fn(st)
    canon, all_names, returns_name, c = enum_members(repo, EUTIL, "MixType")
    accepted = set()
    upper = any(isinstance(n, ast.Call) and isinstance(n.func, ast.Attribute) and n.func.attr == "upper" for n in walk(st))
    lookup = any(isinstance(n, ast.Subscript) and isinstance(n.value, ast.Name) and n.value.id == "MixType" for n in walk(st))
    for n in walk(st):
        if isinstance(n, ast.Compare) and len(n.ops) == 1:
            if isinstance(n.ops[0], ast.Eq) and isinstance(const(n.comparators[0]), str):
                accepted.add(const(n.comparators[0]))
            if isinstance(n.ops[0], ast.In) and isinstance(n.comparators[0], (ast.Tuple, ast.List, ast.Set)):
                accepted |= {const(e) for e in n.comparators[0].elts if isinstance(const(e), str)}
    chk.sample({"enum": "MixType", "canonical_members": canon, "str_returns_name": returns_name, "setter_accepts": sorted(accepted), "upper": upper})
    if not returns_name:
        raise ExtractError("MixType.__str__ no longer returns self.name; emitted strings unknown")
    for m in canon:
        img = m.upper() if upper else m
        ok = lookup or img in accepted
        chk.expect(ok, "R-C13-5", "Tank.mixing_model setter accepts %r, the string to_dict emits for MixType.%s" % (m, m), loc(st),
                   "to_dict emits str(MixType.%s) = %r; the setter accepts only %s: from_dict raises ValueError for such a tank" % (m, m, sorted(accepted)),
                   expected=img, found=sorted(accepted))
    # initial_status : LinkStatus, converted by LinkStatus[...] in the registry add_* methods
    canon, all_names, returns_name, c = enum_members(repo, BASE, "LinkStatus")
    if not returns_name:
        raise ExtractError("LinkStatus.__str__ no longer returns self.name")
    for meth in ("add_pipe", "add_pump", "add_valve"):
        fn = repo.func(MODEL, "LinkRegistry." + meth)
        chk.fn(fn)
        conv = [n for n in walk(fn) if isinstance(n, ast.Subscript) and isinstance(n.value, ast.Name) and n.value.id == "LinkStatus"
                and isinstance(n.slice, ast.Name) and n.slice.id == "initial_status"]
        chk.expect(bool(conv), "R-C13-5", "LinkRegistry.%s converts a string initial_status by name lookup LinkStatus[...]" % meth, loc(fn),
                   "to_dict emits str(LinkStatus.X) = 'X' (the member name); the consumer must look the name up", found="no LinkStatus[initial_status]")
    chk.floor("R-C13-5", len(canon) and 4 + 3)


def rule_control_text(repo, chk, fd):
    rcl = repo.func(EIO, "_read_control_line")
    chk.fn(rcl)
    ct = ClassTable(repo)
    # (a) node kinds that can carry a leak action are dispatched as nodes
    leak_kinds = []
    for cn in ("Junction", "Tank", "Reservoir"):
        c = ct.classes.get(cn)
        if c is None:
            raise AnchorError("class %s vanished" % cn)
        if any(isinstance(n, ast.FunctionDef) and n.name == "add_leak" for n in c.body):
            nt = [n for n in c.body if isinstance(n, ast.FunctionDef) and n.name == "node_type" and any(isinstance(d, ast.Name) and d.id == "property" for d in n.decorator_list)]
            val = None
            for r in walk(nt[0]) if nt else []:
                if isinstance(r, ast.Return) and isinstance(const(r.value), str):
                    val = const(r.value)
            if val is None:
                raise ExtractError("%s.node_type constant not found" % cn)
            leak_kinds.append(val.upper())
    act_str = repo.func(CTRL, "ControlAction.__str__")
    chk.fn(act_str)
    if "node_type" not in unparse(act_str) or "upper" not in unparse(act_str):
        raise ExtractError("ControlAction.__str__ no longer prefixes the upper-cased node_type/link_type")
    node_tokens = set()
    for n in walk(rcl):
        if isinstance(n, ast.If) and any(isinstance(c, ast.Call) and last_attr(c) == "get_node" and "element" in unparse(parent(c)) for c in calls(ast.Module(body=n.body, type_ignores=[]))):
            t = n.test
            if isinstance(t, ast.Compare) and "current[0]" in unparse(t.left):
                comp = t.comparators[0]
                if isinstance(t.ops[0], ast.Eq) and isinstance(const(comp), str):
                    node_tokens.add(const(comp))
                elif isinstance(t.ops[0], ast.In) and isinstance(comp, (ast.Tuple, ast.List, ast.Set)):
                    node_tokens |= {const(e) for e in comp.elts}
    chk.sample({"leak_capable_node_kinds": leak_kinds, "node_tokens_read_as_nodes": sorted(node_tokens)})
    for k in leak_kinds:
        chk.expect(k in node_tokens, "R-C13-3a", "a %s leak action line is dispatched as a node action by _read_control_line" % k, loc(rcl),
                   "ControlAction.__str__ writes '%s <name> LEAK_STATUS IS ...' for the leak controls add_leak creates; _read_control_line looks the "
                   "name up as a link unless the first token is in %s" % (k, sorted(node_tokens)), expected=k, found=sorted(node_tokens))
    chk.floor("R-C13-3a", 2)

    # (b) relation vocabulary of simple controls
    text = repo.func(CTRL, "Comparison.text")
    emitted = {}
    for n in walk(text):
        if isinstance(n, ast.If):
            t = n.test
            if isinstance(t, ast.Compare) and isinstance(t.ops[0], ast.Is) and dotted(t.comparators[0]) and n.body and isinstance(n.body[0], ast.Return):
                emitted[dotted(t.comparators[0]).split(".")[-1]] = const(n.body[0].value)
    if len(emitted) < 6:
        raise ExtractError("Comparison.text table incomplete: %s" % emitted)
    vstr = repo.func(CTRL, "ValueCondition.__str__")
    chk.fn(vstr, text)
    if "_relation.text" not in unparse(vstr):
        raise ExtractError("ValueCondition.__str__ no longer prints _relation.text")
    accepted = set()
    for n in walk(rcl):
        if isinstance(n, ast.Compare) and "current[6]" in unparse(n.left) and isinstance(n.ops[0], ast.Eq) and isinstance(const(n.comparators[0]), str):
            accepted.add(const(n.comparators[0]))
    chk.sample({"relation_tokens_emitted": emitted, "relation_tokens_accepted": sorted(accepted)})
    for mem, tok in sorted(emitted.items()):
        chk.expect(tok.upper() in accepted, "R-C13-3b",
                   "simple-control relation token %r (Comparison.%s) emitted by ValueCondition.__str__ is accepted by _read_control_line" % (tok.upper(), mem),
                   loc(rcl), "from_dict re-reads a simple control through _read_control_line, which raises 'control is not recognized' for %r" % tok.upper(),
                   expected=tok.upper(), found=sorted(accepted))
    chk.floor("R-C13-3b", 6)

    # (c) token positions: every varying token of the serialised condition / action is used by from_dict
    simple = None
    for n in walk(fd):
        if isinstance(n, ast.If) and "simple" in str_consts(n.test):
            simple = n
    if simple is None:
        raise ExtractError("from_dict: simple-control branch not found")
    used = {"ta": set(), "cond": set()}
    for n in ast.walk(ast.Module(body=simple.body, type_ignores=[])):
        if isinstance(n, ast.Subscript) and isinstance(n.value, ast.Name) and n.value.id in used and isinstance(const(n.slice), int):
            used[n.value.id].add(const(n.slice))

    def fmt_fields(fn):
        for r in walk(fn):
            if isinstance(r, ast.Return) and isinstance(r.value, ast.Call) and isinstance(r.value.func, ast.Attribute) and r.value.func.attr == "format" \
                    and isinstance(const(r.value.func.value), str):
                return const(r.value.func.value).split(), r.value.args
        raise ExtractError("%s: format string not found" % fn._qual)
    toks, args = fmt_fields(act_str)
    ai = 0
    for i, t in enumerate(toks):
        if "{" in t:
            what = norm(args[ai]) if ai < len(args) else "?"
            ai += 1
            chk.expect(i in used["ta"], "R-C13-3c", "action token %d (%s) of ControlAction.__str__ is used by from_dict" % (i, what), loc(fd, simple),
                       "from_dict rebuilds the control line from tokens %s of the action text; token %d carries %s and is dropped" % (sorted(used["ta"]), i, what))
    toks, args = fmt_fields(vstr)
    ai = 0
    for i, t in enumerate(toks):
        if "{" in t:
            what = norm(args[ai]) if ai < len(args) else "?"
            ai += 1
            chk.expect(i in used["cond"], "R-C13-3c", "condition token %d (%s) of ValueCondition.__str__ is used by from_dict" % (i, what), loc(fd, simple),
                       "from_dict rebuilds the control line from tokens %s of the condition text; token %d carries %s and is dropped "
                       "(the re-reader then assumes tank level / junction pressure)" % (sorted(used["cond"]), i, what))
    # time conditions: 'SYSTEM TIME <REL> <t>' / 'SYSTEM CLOCKTIME <REL> <t> <AM/PM>'
    for cn in ("SimTimeCondition", "TimeOfDayCondition"):
        sfn = repo.func(CTRL, cn + ".__str__")
        chk.fn(sfn)
        f = None
        for n in walk(sfn):
            if isinstance(n, ast.Call) and isinstance(n.func, ast.Attribute) and n.func.attr == "format" and isinstance(const(n.func.value), str) \
                    and const(n.func.value).startswith("SYSTEM"):
                f = n
        if f is None:
            raise ExtractError("%s.__str__: 'SYSTEM ...' format not found" % cn)
        toks = const(f.func.value).split()
        ai = 0
        for i, t in enumerate(toks):
            if "{" in t:
                what = norm(f.args[ai]) if ai < len(f.args) else "?"
                ai += 1
                chk.expect(i in used["cond"], "R-C13-3c", "condition token %d (%s) of %s.__str__ is used by from_dict" % (i, what, cn), loc(fd, simple),
                           "from_dict rebuilds 'AT TIME/CLOCKTIME t' from tokens %s; token %d carries %s and is dropped (every time condition reads back as 'Is')" % (
                               sorted(used["cond"]), i, what))
    chk.floor("R-C13-3c", 3 + 5 + 4)

    # (d) units: the re-reader must not convert (the dictionary is SI)
    cs = [c for c in calls(ast.Module(body=simple.body, type_ignores=[])) if last_attr(c) == "_read_control_line"]
    chk.expect(bool(cs) and len(cs[0].args) >= 3 and unparse(cs[0].args[2]).endswith("FlowUnits.SI"), "R-C13-3d",
               "from_dict re-reads simple controls with FlowUnits.SI (no unit conversion)", loc(fd, simple), found=[norm(c) for c in cs])
    prl = repo.func(EIO, "_EpanetRule.parse_rules_lines")
    d = None
    a = prl.args
    names = [x.arg for x in a.args]
    if "flow_units" in names:
        i = names.index("flow_units") - (len(names) - len(a.defaults))
        d = unparse(a.defaults[i]) if i >= 0 else None
    rule_calls = [c for c in calls(fd) if last_attr(c) == "parse_rules_lines"]
    passes = any(any(kw.arg == "flow_units" for kw in c.keywords) or len(c.args) > 1 for c in rule_calls)
    chk.expect(bool(rule_calls) and (passes or (d or "").endswith("FlowUnits.SI")), "R-C13-3d",
               "from_dict re-reads rules with SI units (default flow_units of parse_rules_lines)", loc(prl), found="default=%s" % d)
    # keys of control dictionaries
    ctd = repo.func(CTRL, "Control.to_dict") if repo.has_func(CTRL, "Control.to_dict") else repo.func(CTRL, "ControlBase.to_dict") if repo.has_func(CTRL, "ControlBase.to_dict") else None
    if ctd is None:
        for cname, c in repo.classes(CTRL).items():
            for n in c.body:
                if isinstance(n, ast.FunctionDef) and n.name == "to_dict":
                    ctd = n
                    ctd._rel = CTRL
                    ctd._qual = cname + ".to_dict"
    if ctd is None:
        raise AnchorError("control to_dict not found")
    emitted = {}
    for n in walk(ctd):
        if isinstance(n, ast.Assign) and isinstance(n.targets[0], ast.Subscript) and isinstance(const(n.targets[0].slice), str):
            br = "rule" if (isinstance(parent(n), ast.If) and n in parent(n).body) else "simple"
            emitted.setdefault(br, set()).add(const(n.targets[0].slice))
    ctrl_loop = None
    for n in walk(fd):
        if isinstance(n, ast.For) and isinstance(n.iter, ast.Subscript) and const(n.iter.slice) == "controls":
            ctrl_loop = n
    read = keys_of(ctrl_loop, ctrl_loop.target.id)
    chk.sample({"control_keys_emitted": {k: sorted(v) for k, v in emitted.items()}, "control_keys_read": sorted(read)})
    for br, ks in sorted(emitted.items()):
        for k in sorted(ks):
            chk.expect(k in read, "R-C13-3e", "control key %r (%s) is read by from_dict" % (k, br), loc(fd, ctrl_loop), found=sorted(read))
    chk.floor("R-C13-3e", 8)


def rule_options(repo, chk):
    """R-C13-4: Options.to_dict = dict(self) yields each options object's __dict__; from_dict feeds it to __init__(**d)."""
    top = repo.cls(OPTS, "Options")
    init = [n for n in top.body if isinstance(n, ast.FunctionDef) and n.name == "__init__"][0]
    init._rel = OPTS
    init._qual = "Options.__init__"
    chk.fn(init)
    groups = {}
    for n in walk(init):
        if isinstance(n, ast.Assign) and isinstance(n.targets[0], ast.Attribute) and dotted(n.targets[0].value) == "self" and isinstance(n.value, ast.Call):
            f = n.value.func
            if isinstance(f, ast.Attribute) and f.attr == "factory" and isinstance(f.value, ast.Name):
                arg = n.value.args[0].id if n.value.args and isinstance(n.value.args[0], ast.Name) else None
                groups[n.targets[0].attr] = (f.value.id, arg)
    ps = params(init)
    for g, (cls, arg) in sorted(groups.items()):
        chk.expect(g in ps and arg == g, "R-C13-4", "Options.__init__ takes keyword %r and stores %s.factory(%s) under the same name" % (g, cls, g), loc(init),
                   found="param=%s stored from %s" % (g in ps, arg))
    td = [n for n in top.body if isinstance(n, ast.FunctionDef) and n.name == "to_dict"]
    chk.expect(bool(td) and "dict(self)" in unparse(td[0]), "R-C13-4", "Options.to_dict is dict(self) (keys = __dict__ of each options object)", loc(OPTS, td[0] if td else top))
    fd = repo.func(NIO, "from_dict")
    chk.expect(any("options.__init__(**d['options'])" in unparse(n).replace('"', "'") for n in walk(fd) if isinstance(n, ast.Expr)), "R-C13-4",
               "from_dict re-initialises options with __init__(**d['options'])", loc(fd))
    for g, (cls, arg) in sorted(groups.items()):
        if cls == "UserOptions":
            continue
        c = repo.cls(OPTS, cls)
        ini = [n for n in c.body if isinstance(n, ast.FunctionDef) and n.name == "__init__"]
        if not ini:
            raise AnchorError("%s.__init__ vanished" % cls)
        ini = ini[0]
        ini._rel = OPTS
        ini._qual = cls + ".__init__"
        chk.fn(ini)
        pp = params(ini)
        stored = {}
        for n in walk(ini):
            if isinstance(n, ast.Assign) and isinstance(n.targets[0], ast.Attribute) and dotted(n.targets[0].value) == "self":
                names = {x.id for x in ast.walk(n.value) if isinstance(x, ast.Name)}
                stored[n.targets[0].attr] = names
        for a, names in sorted(stored.items()):
            chk.expect(a in pp and a in names, "R-C13-4", "%s: __dict__ key %r is a constructor keyword stored from itself" % (cls, a), loc(ini),
                       "to_dict emits key %r (it is in __dict__); from_dict passes it to %s(**d): it must be an accepted keyword stored under the same name" % (a, cls),
                       expected="parameter %s" % a, found="params=%s, value reads %s" % (a in pp, sorted(names)))
        for p in pp:
            chk.expect(p in stored, "R-C13-4", "%s: constructor keyword %r is stored (and therefore emitted by to_dict)" % (cls, p), loc(ini))
    chk.floor("R-C13-4", 100)


def run(repo, chk):
    ct, fd = rule_keys(repo, chk)
    rule_explicit(repo, chk, fd)
    rule_json_shapes(repo, chk, ct, fd)
    rule_enum_vocab(repo, chk, ct)
    rule_control_text(repo, chk, fd)
    rule_options(repo, chk)


WITNESSES = [
    dict(name="drop-pipe-wall-coeff", file=NIO, old='                p.wall_coeff = link.setdefault("wall_coeff")\n', new="", rule="R-C13-1"),
    dict(name="land-in-wrong-attribute", file=NIO, old='j.minimum_pressure = node.setdefault("minimum_pressure")',
         new='j.required_pressure = node.setdefault("minimum_pressure")', rule="R-C13-1"),
    dict(name="swap-add-pipe-keywords", file=NIO, old='diameter=link.setdefault("diameter", 0.3048),\n                    roughness=link.setdefault("roughness", 100.0),',
         new='diameter=link.setdefault("roughness", 100.0),\n                    roughness=link.setdefault("diameter", 0.3048),', rule="R-C13-1"),
    dict(name="valve-vertices-raw-list", file=NIO, old='v.vertices = [tuple(pt) for pt in link.setdefault("vertices", list())]',
         new='v.vertices = link.setdefault("vertices", list())', rule="R-C13-2"),
    dict(name="tank-leak-line-read-as-link", file=EIO, old="if current[0].upper() in ('JUNCTION', 'TANK'):", new="if current[0].upper() in ('JUNCTION',):", rule="R-C13-3a"),
    dict(name="controls-reread-in-gpm", file=NIO, old="wn, FlowUnits.SI, control_name)", new="wn, FlowUnits.GPM, control_name)", rule="R-C13-3d"),
    dict(name="pattern-wrap-not-read", file=NIO, old='            wn.get_pattern(pattern["name"]).wrap = pattern.setdefault("wrap", True)\n', new="", rule="R-C13-1b"),
    dict(name="mixtype-setter-drops-mix2", file=ELEM, old="elif value in ('2COMP', 'MIX2'):", new="elif value in ('2COMP',):", rule="R-C13-5"),
    dict(name="options-keyword-renamed", file=OPTS, old="self.pattern_start = pattern_start", new="self.pattern_begin = pattern_start", rule="R-C13-4"),
    dict(name="new-property-not-restored", file=ELEM,
         old="    @property\n    def node_type(self):\n        \"\"\"``\"Reservoir\"`` (read only)\"\"\"",
         new="    @property\n    def zone(self):\n        return self._zone\n    @zone.setter\n    def zone(self, v):\n        self._zone = v\n\n    @property\n    def node_type(self):\n        \"\"\"``\"Reservoir\"`` (read only)\"\"\"", rule="R-C13-1"),
    dict(name="reorder-preserving", file=NIO, old='                p.bulk_coeff = link.setdefault("bulk_coeff")\n                p.tag = link.setdefault("tag")\n',
         new='                p.tag = link.setdefault("tag")\n                p.bulk_coeff = link.setdefault("bulk_coeff")\n', silent=True),
]
