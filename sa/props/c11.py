"""C11 -- simulating never alters the model definition; reset_initial_values restores every run-time field.

Effect analysis: the transitive attribute-write set of both simulators (call graph over a fixed universe of
modules, sa/effects.py) is compared with the *definition* field set derived from the class table that
to_dict walks (shared with C13), and the run-time fields it does write are compared with the assignments of
reset_initial_values.
"""
import ast
import copy
import re

import sympy as sp

from ..src import walk, calls, call_name, last_attr, dotted, norm, loc, const, AnchorError, ExtractError, parent, unparse
from ..effects import Universe, writes
from ..peval import Evaluator, Obj, Unknown, Raised
from ..symx import SymExec, State, Opaque
from .c13 import ClassTable, backing_fields, exclusion_list, only_raises

CORE = "wntr/sim/core.py"
HYD = "wntr/sim/hydraulics.py"
MODEL = "wntr/network/model.py"
BASE = "wntr/network/base.py"
ELEM = "wntr/network/elements.py"
CTRL = "wntr/network/controls.py"
OPTS = "wntr/network/options.py"
EIO = "wntr/epanet/io.py"
SKEL = "wntr/morph/skel.py"
ESIM = "wntr/sim/epanet.py"

UNIVERSE = [CORE, HYD, "wntr/sim/solvers.py", "wntr/sim/results.py", ESIM,
            "wntr/sim/models/constraint.py", "wntr/sim/models/param.py", "wntr/sim/models/var.py", "wntr/sim/models/utils.py",
            "wntr/sim/models/constants.py", CTRL, ELEM, BASE, MODEL, OPTS, "wntr/network/io.py", EIO, "wntr/epanet/util.py",
            "wntr/sim/aml/aml.py", "wntr/sim/aml/expr.py"]

EXPLANATION = (
    "Static effect analysis: (R-C11-1) the transitive attribute-write set of WNTRSimulator.__init__/run_sim and of "
    "EpanetSimulator.__init__/run_sim (name-and-receiver based call graph over wntr/sim, wntr/network and wntr/epanet/io, constructors of "
    "new objects excluded) contains no definition field: definition fields are derived from the class table that to_dict walks (public "
    "keys of every element class, their setters and the private fields their getters return), the fields of patterns, curves, sources, "
    "time series, options, and the definitional fields of controls, conditions and actions; setattr(target, <field>, v) in control actions is "
    "resolved through ControlAction.__init__'s attribute map over every attribute string the package passes; (R-C11-2) every options store "
    "reachable from a simulator or made by _Skeletonize.__init__ is restored from a saved copy on every path; (R-C11-3) every run-time field a "
    "run writes on an element kind is assigned by reset_initial_values in the loop over that kind, with the value construction establishes "
    "(initial_status, initial_setting, Active, init_level + elevation, False, None, 0), and every control is _reset(), which restores condition "
    "state and recurses through And/Or; (R-C11-1c) reset_initial_values itself, executed symbolically on one instance of every element class "
    "(property stores run the setter), assigns run-time fields only: a definition property it assigns is one a run is expected to change, and "
    "an assignment from the property's own backing field is a no-op; (R-C11-4) for every run-time field R that reset_initial_values derives from "
    "definition fields (R = f(D): _user_status, _setting, _head, _prev_head), every public property setter that writes one of those definition "
    "fields is executed symbolically on every path, then the run-start re-derivation (update_network_previous_values, only if run_sim calls it "
    "whenever sim_time == 0) and then the reset body: the reset must leave R unchanged, i.e. the state the first run starts from after an edit "
    "equals the state after reset_initial_values. Decides the write-set and reset-coverage clauses, not bit-for-bit reproducibility.")
RULE_TEXT = ("one instance = one (function, receiver, attribute) write site, one resolved setattr target, one options store, or one "
             "(element kind, run-time field) reset obligation, one element class whose reset writes are all run-time fields, or one "
             "(setter, run-time field derived from it by the reset) agreement; distinct = distinct constructs")
ASSUMPTIONS = [
    "call resolution is by name and receiver convention (no type checker offline); calls through unresolved receivers are counted in the evidence (bound 12 %)",
    "attribute strings taken from INP [RULES] text at run time are assumed to be in {status, setting}",
    "property getters are not followed as calls, except the ones listed as caches (HeadPump.get_head_curve_coefficients is a method and is followed)",
    "constructors of new objects (and whatever they call on the new object) are not model mutations",
    "R-C11-4 covers public property setters (the documented way to edit a definition field); other public methods that assign a definition field "
    "and the agreement of the constructors with the reset values are not decided",
]

CACHES = {
    "_curve_coeffs": "memoised head-curve fit of HeadPump.get_head_curve_coefficients, recomputed when the curve points change",
    "_coeffs_curve_points": "key of that memo",
    "_inpfile": "InpFile object kept by write_inpfile/read_inpfile for re-use; not part of to_dict",
    "_observers": "observer registrations of control actions (Subject.subscribe); not part of to_dict",
}
NON_MODEL_ROOTS = {"m", "model", "results", "df", "G", "fig", "ax", "res", "result", "ret", "all_resids", "logger", "np", "os", "f", "fout", "fin"}
CONTROL_DEF_FIELDS = {"_condition", "_then_actions", "_else_actions", "_priority", "_name", "_threshold", "_relation", "_source_obj",
                      "_source_attr", "_repeat", "_first_time", "_first_day", "_threshold_obj", "_threshold_attr", "_target_obj", "_attribute",
                      "_value", "_private_attribute", "_condition_1", "_condition_2", "_func", "_func_kwargs", "_requires", "_internal_attr",
                      "_property_attr"}
ELEMENT_CLASSES = ["Junction", "Tank", "Reservoir", "Pipe", "HeadPump", "PowerPump", "PRValve", "PSValve", "PBValve", "FCValve", "TCValve", "GPValve"]
VALUE_CLASSES = ["Pattern", "Curve", "Source", "TimeSeries", "Demands"]
KIND_OF_ITER = {"junctions": ["Junction"], "tanks": ["Tank"], "reservoirs": ["Reservoir"], "pipes": ["Pipe"],
                "pumps": ["HeadPump", "PowerPump"], "head_pumps": ["HeadPump"], "power_pumps": ["PowerPump"],
                "valves": ["PRValve", "PSValve", "PBValve", "FCValve", "TCValve", "GPValve"],
                "prvs": ["PRValve"], "psvs": ["PSValve"], "pbvs": ["PBValve"], "fcvs": ["FCValve"], "tcvs": ["TCValve"], "gpvs": ["GPValve"],
                "nodes": ["Junction", "Tank", "Reservoir"],
                "links": ["Pipe", "HeadPump", "PowerPump", "PRValve", "PSValve", "PBValve", "FCValve", "TCValve", "GPValve"]}
RESET_KIND = {"Junction": ["Junction"], "Tank": ["Tank"], "Reservoir": ["Reservoir"], "Pipe": ["Pipe"], "Pump": ["HeadPump", "PowerPump"],
              "Valve": ["PRValve", "PSValve", "PBValve", "FCValve", "TCValve", "GPValve"]}


# ------------------------------------------------------------------ field sets
def private_fields_of_init(ct, cname):
    out = {}
    for k in ct.mro(cname):
        c = ct.classes[k]
        for n in c.body:
            if isinstance(n, ast.FunctionDef) and n.name == "__init__":
                for a in walk(n):
                    if (isinstance(a, ast.Attribute) and isinstance(a.ctx, ast.Store) and isinstance(a.value, ast.Name) and a.value.id == "self"):
                        out.setdefault(a.attr, k)
    return out


def init_value(ct, cname, field):
    """text of the value a field gets in __init__ (most derived class assigning it)."""
    for k in ct.mro(cname):
        c = ct.classes[k]
        for n in c.body:
            if isinstance(n, ast.FunctionDef) and n.name == "__init__":
                for s in walk(n):
                    if isinstance(s, ast.Assign):
                        for t in s.targets:
                            if isinstance(t, ast.Attribute) and isinstance(t.value, ast.Name) and t.value.id == "self" and t.attr == field:
                                return unparse(s.value)
    return None


def field_sets(repo, ct):
    """-> (D: field -> reason, RT: class -> set(fields), fields_of_class)"""
    D = {}
    node_excl = exclusion_list(repo.func(BASE, "Node.to_dict"))
    link_excl = exclusion_list(repo.func(BASE, "Link.to_dict"))
    RT = {}
    for cn in ELEMENT_CLASSES:
        if cn not in ct.classes:
            raise AnchorError("class %s vanished" % cn)
        pub = ct.public(cn)
        is_node = "Node" in ct.mro(cn)
        excl = node_excl if is_node else link_excl
        dfields = set()
        for k, info in pub.items():
            if k in excl:
                continue
            back = backing_fields(info["getter"]) if info.get("getter") is not None else set()
            settable = info["kind"] in ("inst", "classattr") or (info.get("setter") is not None and not only_raises(info["setter"]))
            if settable:
                D.setdefault(k, "definition property %s.%s (emitted by to_dict, has a setter)" % (cn, k))
            for b in back:
                D.setdefault(b, "backing field of the to_dict key %s.%s" % (cn, k))
                dfields.add(b)
        priv = private_fields_of_init(ct, cn)
        RT[cn] = {f for f in priv if f.startswith("_") and f not in dfields and f not in D}
    for cn in VALUE_CLASSES:
        if cn in ct.classes:
            for f in private_fields_of_init(ct, cn):
                D.setdefault(f, "field of %s (no run-time state)" % cn)
            for k, info in ct.public(cn).items():
                if info["kind"] in ("inst", "classattr") or (info.get("setter") is not None and not only_raises(info["setter"])):
                    D.setdefault(k, "settable attribute of %s" % cn)
    for f in CONTROL_DEF_FIELDS:
        D.setdefault(f, "definitional field of a control / condition / action (feeds __str__ / to_dict)")
    # options
    for cname, c in repo.classes(OPTS).items():
        if cname.endswith("Options"):
            for n in c.body:
                if isinstance(n, ast.FunctionDef) and n.name == "__init__":
                    for a in walk(n):
                        if isinstance(a, ast.Attribute) and isinstance(a.ctx, ast.Store) and isinstance(a.value, ast.Name) and a.value.id == "self":
                            D.setdefault(a.attr, "option %s.%s" % (cname, a.attr))
    # the model object itself
    wn_init = repo.func(MODEL, "WaterNetworkModel.__init__")
    for a in walk(wn_init):
        if isinstance(a, ast.Attribute) and isinstance(a.ctx, ast.Store) and isinstance(a.value, ast.Name) and a.value.id == "self":
            if a.attr not in ("sim_time", "_prev_sim_time", "_inpfile", "_msx"):
                D.setdefault(a.attr, "field of WaterNetworkModel set at construction")
    wn_rt = {"sim_time", "_prev_sim_time"}
    return D, RT, wn_rt


# ------------------------------------------------------------------ receivers
def root_name(e):
    while isinstance(e, (ast.Attribute, ast.Subscript, ast.Call)):
        e = e.value if not isinstance(e, ast.Call) else e.func
    return e.id if isinstance(e, ast.Name) else None


def local_ctor_names(fnode):
    """names bound in this function to a freshly constructed object (Name = Cls(...))"""
    out = set()
    for n in walk(fnode, skip_nested=False):
        if isinstance(n, ast.Assign) and isinstance(n.value, ast.Call):
            f = n.value.func
            nm = f.id if isinstance(f, ast.Name) else (f.attr if isinstance(f, ast.Attribute) else "")
            if nm[:1].isupper() or nm.lstrip("_")[:1].isupper() or unparse(f).startswith("type("):
                for t in n.targets:
                    if isinstance(t, ast.Name):
                        out.add(t.id)
    return out


def iter_kinds(fnode):
    """loop variable -> element classes, from `for name, x in wn.tanks()` style loops (and x = wn.get_node/get_link)."""
    out = {}
    for n in walk(fnode, skip_nested=False):
        if isinstance(n, ast.For) and isinstance(n.iter, ast.Call) and isinstance(n.iter.func, ast.Attribute) and n.iter.func.attr in KIND_OF_ITER:
            tg = n.target.elts[-1] if isinstance(n.target, ast.Tuple) else n.target
            if isinstance(tg, ast.Name):
                kinds = KIND_OF_ITER[n.iter.func.attr]
                if n.iter.args and isinstance(n.iter.args[0], ast.Name) and n.iter.args[0].id in RESET_KIND:
                    kinds = RESET_KIND[n.iter.args[0].id]
                out.setdefault(tg.id, set()).update(kinds)
    return out


def kinds_at(node, rn):
    """element classes of receiver root `rn` at this statement: nearest enclosing `for .., rn in wn.<kind>()` loop."""
    q = node
    while q is not None:
        q = parent(q)
        if isinstance(q, ast.For) and isinstance(q.iter, ast.Call) and isinstance(q.iter.func, ast.Attribute):
            tg = q.target.elts[-1] if isinstance(q.target, ast.Tuple) else q.target
            if isinstance(tg, ast.Name) and tg.id == rn and q.iter.func.attr in KIND_OF_ITER:
                kinds = KIND_OF_ITER[q.iter.func.attr]
                if q.iter.args and isinstance(q.iter.args[0], ast.Name) and q.iter.args[0].id in RESET_KIND:
                    kinds = RESET_KIND[q.iter.args[0].id]
                return set(kinds)
    return None


class _ConstFoldExec(SymExec):
    """SymExec that folds `not <concrete str / list / dict>` (python truthiness of a concrete value), as SymExec.decide already does for tests"""

    def e_UnaryOp(self, n, st):
        if isinstance(n.op, ast.Not):
            v = self.ev(n.operand, st)
            if isinstance(v, str) or (isinstance(v, (list, tuple, dict)) and not v):
                return not v
        return SymExec.e_UnaryOp(self, n, st)


def to_dict_names_unnamed_controls_by_key(repo):
    """wntr.network.io.to_dict, executed symbolically on a model whose control registry holds one control under the key K: the entry of that
    control in the returned dictionary carries the name K if the control's own name is empty, and its own name otherwise."""
    td = repo.func("wntr/network/io.py", "to_dict")
    got = {}
    for own in ("", "given"):
        def call(name, n, args, kwargs, st, ex, recv, own=own):
            meth = n.func.attr if isinstance(n.func, ast.Attribute) else None
            rt = ex.text(recv) if recv is not None and not isinstance(recv, (dict, list, tuple)) else ""
            if meth in ("items", "controls") and not args and ("_controls" in rt or meth == "controls"):
                return [(Opaque("K"), Opaque("CTRL"))]
            if meth == "values" and not args and "_controls" in rt:
                return [Opaque("CTRL")]
            if meth == "keys" and not args and "_controls" in rt:
                return [Opaque("K")]
            if name == "zip" and args and all(isinstance(a, (list, tuple)) for a in args) and not kwargs:
                return [tuple(r) for r in zip(*args)]
            if meth == "to_dict" and rt == "CTRL":
                return {"name": own, "type": Opaque("T")}
            if isinstance(recv, dict) and not args and meth in ("keys", "values", "items"):
                return list(getattr(recv, meth)())
            if isinstance(recv, dict) and meth == "get" and args and isinstance(args[0], str):
                return recv.get(args[0], args[1] if len(args) > 1 else None)
            if name == "dict" and not args:
                return dict(kwargs)
            if name == "dict" and len(args) == 1 and isinstance(args[0], dict):
                return dict(args[0], **kwargs)
            if name in ("list", "OrderedDict") and not args and not kwargs:
                return [] if name == "list" else {}
            return NotImplemented
        ex = _ConstFoldExec(call_hook=call)
        ex.unroll_opaque = True
        ex.MAX_PATHS = 256
        outs = [o for o in ex.run(td) if o.raised is None and o.done is True]
        names = set()
        for o in outs:
            ctl = o.ret.get("controls") if isinstance(o.ret, dict) else None
            if not (isinstance(ctl, list) and len(ctl) == 1 and isinstance(ctl[0], dict)):
                return False
            names.add(ex.text(ctl[0].get("name")))
        if len(names) != 1:
            return False
        got[own] = names.pop()
    return got == {"": "K", "given": "'given'"}


def named_exemption_write_rules(repo, fnode, store):
    """`if c.name == '': c._name = <registry key>` inside `for <key>, c in wn.controls()`, and to_dict substitutes the key for an empty name."""
    if not (isinstance(store, ast.Assign) and len(store.targets) == 1 and isinstance(store.targets[0], ast.Attribute)):
        return False
    recv = unparse(store.targets[0].value)
    empty = {recv + ".name == ''", "'' == " + recv + ".name", "not " + recv + ".name", recv + "._name == ''", "not " + recv + "._name"}
    guarded, q, loop = False, store, None
    while q is not None and q is not fnode:
        pq = parent(q)
        if isinstance(pq, ast.If) and q in pq.body and unparse(pq.test).replace('"', "'") in empty:
            guarded = True
        if isinstance(pq, ast.For) and q in pq.body and isinstance(pq.target, ast.Tuple) and len(pq.target.elts) == 2 \
                and unparse(pq.target.elts[1]) == recv:
            loop = pq
            break
        q = pq
    if not guarded or loop is None:
        return False
    it = through_temporaries(fnode, loop.iter)
    if not (isinstance(it, ast.Call) and last_attr(it) in ("controls", "items") and ("controls" in unparse(it))):
        return False
    key = loop.target.elts[0]
    val = through_temporaries(fnode, store.value)
    if not (isinstance(val, ast.Name) and isinstance(key, ast.Name) and val.id == key.id):
        return False
    return to_dict_names_unnamed_controls_by_key(repo)


def sim_side(f):
    return f.rel.startswith("wntr/sim/") or f.rel.startswith("wntr/epanet/") or f.cls in (
        "ControlChecker", "ControlChangeTracker", "Subject", "Observer", "ModelUpdater", "_Diagnostics")


# ------------------------------------------------------------------ rules
class _MapEvaluator(Evaluator):
    """peval + the expression forms a lookup-table dispatch uses: dict displays, subscripts, dict.get/keys/values/items, `k in table`."""

    def e_Dict(self, n):
        if any(k is None for k in n.keys):
            raise Unknown("dict unpacking")
        return {self.ev(k): self.ev(v) for k, v in zip(n.keys, n.values)}

    def e_Subscript(self, n):
        b = self.ev(n.value)
        if isinstance(n.slice, ast.Slice):
            raise Unknown("slice")
        k = self.ev(n.slice)
        try:
            return b[k]
        except (KeyError, IndexError, TypeError):
            raise Raised(n)

    def e_JoinedStr(self, n):
        raise Unknown("f-string")

    def e_Call(self, n):
        if isinstance(n.func, ast.Attribute) and n.func.attr in ("get", "keys", "values", "items") and not n.keywords:
            try:
                b = self.ev(n.func.value)
            except Unknown:
                b = None
            if isinstance(b, dict):
                a = [self.ev(x) for x in n.args]
                if n.func.attr == "get" and 1 <= len(a) <= 2:
                    return b.get(a[0], a[1] if len(a) == 2 else None)
                if not a:
                    return list(getattr(b, n.func.attr)())
        return Evaluator.e_Call(self, n)


def _class_level_values(repo, rel, cname):
    """name -> value expression of the class-level assignments of `cname` and its bases in the same module (most derived wins)."""
    out = {}
    classes = repo.classes(rel)
    todo, seen = [cname], set()
    while todo:
        k = todo.pop(0)
        if k in seen or k not in classes:
            continue
        seen.add(k)
        for n in classes[k].body:
            if isinstance(n, ast.Assign):
                for t in n.targets:
                    if isinstance(t, ast.Name):
                        out.setdefault(t.id, n.value)
        todo += [b.id for b in classes[k].bases if isinstance(b, ast.Name)]
    return out


class ActionAttrMap(object):
    """ControlAction.__init__ as a function  attribute string -> value of self._private_attribute (the field run_control_action writes).

    Decided by evaluating the constructor body on the concrete attribute string (sa/peval.py), so an if/elif chain, early
    assignments, a conditional expression or a lookup table (local, class-level or module-level dict with .get / [] / `in`)
    all give the same map.  Anything the evaluator cannot follow is an ExtractError, never a guess."""

    def __init__(self, repo):
        self.repo = repo
        self.ini = repo.func(CTRL, "ControlAction.__init__")
        self.cls_values = _class_level_values(repo, CTRL, "ControlAction")
        self.cache = {}

    def _static(self, name):
        # ControlAction.<X> / bare module-level <X>: literal tables only
        nm = name.split(".")[-1] if name.startswith("ControlAction.") else name
        if name.startswith("ControlAction.") and nm in self.cls_values:
            return _MapEvaluator({}, self._static).ev(self.cls_values[nm])
        if "." not in name:
            try:
                v = self.repo.module_assign(CTRL, name)
            except AnchorError:
                v = None
            if v is not None:
                return _MapEvaluator({}, self._static).ev(v)
        raise Unknown("unbound name %s" % name)

    def _attr(self, base, attr):
        if isinstance(base, Obj) and base.name == "self" and attr == "__class__":
            return Obj("type(self)", {})
        if isinstance(base, Obj) and base.name in ("self", "type(self)") and attr not in base.attrs and attr in self.cls_values:
            return _MapEvaluator({}, self._static).ev(self.cls_values[attr])
        return NotImplemented

    @staticmethod
    def _call(name, n, ev):
        if name == "hasattr":
            return True                       # the constructor rejects attributes the target does not have: evaluate the accepting path
        if name == "type" and len(n.args) == 1 and unparse(n.args[0]) == "self":
            return Obj("type(self)", {})
        if name.startswith("super(") or name.startswith("super.") or name == "super" or name.endswith(".__init__"):
            return None
        if isinstance(n.func, ast.Attribute) and isinstance(n.func.value, ast.Call) and unparse(n.func.value.func) == "super":
            return None
        return NotImplemented

    def __call__(self, attribute):
        if attribute not in self.cache:
            me = Obj("self", {})
            ev = _MapEvaluator({"self": me, "target_obj": Obj("target", {}), "attribute": attribute, "value": Obj("value", {})},
                               self._static, self._call, self._attr)
            try:
                ev.run(self.ini.body)
            except Raised as e:
                raise ExtractError("ControlAction.__init__ raises for attribute %r (line %s)" % (attribute, getattr(e.node, "lineno", "?")))
            except Unknown as e:
                raise ExtractError("ControlAction.__init__: attribute map not evaluable for %r: %s" % (attribute, e))
            if "_private_attribute" not in me.attrs or not isinstance(me.attrs["_private_attribute"], str):
                raise ExtractError("ControlAction.__init__: no string stored to self._private_attribute for attribute %r (found %r)"
                                   % (attribute, me.attrs.get("_private_attribute")))
            self.cache[attribute] = me.attrs["_private_attribute"]
        return self.cache[attribute]


def through_temporaries(fnode, e):
    """resolve a local Name through its single plain assignment in the function (a hoisted temporary), repeatedly."""
    for _ in range(8):
        if not isinstance(e, ast.Name):
            break
        stores = [n for n in walk(fnode) if isinstance(n, ast.Name) and isinstance(n.ctx, ast.Store) and n.id == e.id]
        asg = [n for n in walk(fnode) if isinstance(n, ast.Assign) and len(n.targets) == 1 and len(stores) == 1 and n.targets[0] is stores[0]]
        if not asg or any(a.arg == e.id for a in fnode.args.args):
            break
        e = asg[0].value
    return e


def action_vocabulary(repo, universe):
    """attribute strings passed to ControlAction(...) / _InternalControlAction(...) anywhere in the universe."""
    pub, internal, dynamic = {}, {}, []
    for f in universe.fns:
        for c in calls(f.node):
            nm = last_attr(c)
            if nm == "ControlAction" and len(c.args) >= 2:
                v = const(c.args[1])
                if isinstance(v, str):
                    pub.setdefault(v, []).append((f, c))
                else:
                    dynamic.append((f, c))
            elif nm == "_InternalControlAction" and len(c.args) >= 2:
                v = const(c.args[1])
                if isinstance(v, str):
                    internal.setdefault(v, []).append((f, c))
                else:
                    dynamic.append((f, c))
    return pub, internal, dynamic


# ------------------------------------------------------------------ symbolic element instances (R-C11-1c, R-C11-4)
class _Inst(object):
    """one element object of class `cname` with symbolic fields: fields[x] is the value stored so far, an unwritten field x reads as the symbol self.x"""

    def __init__(self, cname):
        self.cname = cname
        self.fields = {}
        self.log = []                # field names in the order they were written
        self.prop_stores = []        # (public property assigned, backing fields it wrote, was every one of them a no-op)

    def get(self, fld):
        return self.fields[fld] if fld in self.fields else Opaque("self." + fld)


def fields_in(v):
    """names of the symbolic fields self.x a value depends on."""
    if isinstance(v, Opaque):
        txt = v.text
    elif isinstance(v, sp.Basic):
        txt = " ".join(str(x) for x in v.free_symbols)
    elif isinstance(v, (list, tuple)):
        return set().union(*[fields_in(x) for x in v]) if v else set()
    else:
        return set()
    return set(re.findall(r"\bself\.(\w+)", txt))


class ElemExec(SymExec):
    """SymExec over methods of element classes: `x.prop` on an _Inst is the value its getter returns, `x.prop = v` runs the setter
    (every path of it), `x._f = v` updates the symbolic field, isinstance(x, Cls) is decided from the class table."""

    def __init__(self, ct):
        SymExec.__init__(self, call_hook=self._call, attr_hook=self._attr)
        self.ct = ct
        self._pub = {}
        self.depth = 0
        self.unroll_opaque = True      # `for cls in (Pipe, Pump, Valve): for .. in self.links(cls)` is unrolled

    def props(self, cname):
        if cname not in self._pub:
            self._pub[cname] = {k: v for k, v in self.ct.public(cname).items() if v["kind"] == "prop"}
        return self._pub[cname]

    def _call(self, name, n, args, kwargs, st, ex, recv):
        if name == "isinstance" and len(args) == 2 and isinstance(args[0], _Inst) and isinstance(n.args[1], (ast.Name, ast.Tuple)):
            names = [e.id for e in (n.args[1].elts if isinstance(n.args[1], ast.Tuple) else [n.args[1]]) if isinstance(e, ast.Name)]
            return any(nm in self.ct.mro(args[0].cname) for nm in names)
        return NotImplemented

    def _attr(self, base, attr, st):
        if not isinstance(base, _Inst):
            return NotImplemented
        if attr in base.fields:
            return base.fields[attr]
        info = self.props(base.cname).get(attr)
        if info is not None and info.get("getter") is not None:
            if self.depth > 6:
                raise ExtractError("property recursion at %s.%s" % (base.cname, attr))
            self.depth += 1
            try:
                sub = State({"self": base})
                outs = [o for o in self.block(info["getter"].body, [sub]) if o.raised is None]
            finally:
                self.depth -= 1
            uniq = []
            for o in outs:
                if not any(self.same(o.ret, u) for u in uniq):
                    uniq.append(o.ret)
            if len(uniq) != 1:
                raise ExtractError("getter %s.%s returns %d distinct values on its paths" % (base.cname, attr, len(uniq)))
            return uniq[0]
        return Opaque("self." + attr)

    def text(self, v):
        if isinstance(v, _Inst):
            return "self"
        return SymExec.text(self, v)

    def stmt(self, s, st):
        # `x.prop = v` with x an element instance and prop a property: run the setter on every path
        if isinstance(s, ast.Assign) and len(s.targets) == 1 and isinstance(s.targets[0], ast.Attribute):
            t = s.targets[0]
            base = self.ev(t.value, st)
            if isinstance(base, _Inst) and t.attr in self.props(base.cname):
                setter = self.props(base.cname)[t.attr].get("setter")
                if setter is None:
                    raise ExtractError("assignment to the read-only property %s.%s" % (base.cname, t.attr))
                v = self.ev(s.value, st)
                before, nlog = dict(base.fields), len(base.log)
                params = [a.arg for a in setter.args.args]
                if len(params) != 2 or self.depth > 6:
                    raise ExtractError("setter %s.%s not evaluable" % (base.cname, t.attr))
                sub = st.fork()                                   # deep copy keeps x and the caller's variables one object graph
                inst = self.ev(t.value, sub)
                sub.env = {params[0]: inst, params[1]: v, "__caller__": sub.env}
                self.depth += 1
                try:
                    outs = self.block(setter.body, [sub])
                finally:
                    self.depth -= 1
                res = []
                for o in outs:
                    inst_o = o.env[params[0]]
                    o.env = o.env["__caller__"]
                    if o.raised is None:
                        o.done = False
                        o.ret = None
                        wrote = sorted(set(inst_o.log[nlog:]))
                        noop = bool(wrote) and all(self.same(inst_o.fields[k], before.get(k, Opaque("self." + k))) for k in wrote)
                        inst_o.prop_stores.append((t.attr, wrote, noop))
                    res.append(o)
                return res
        return SymExec.stmt(self, s, st)

    def loop(self, s, st):
        inst = st.env.get("__inst__")
        it = s.iter
        # itertools.chain(a, b, ...) over element iterators: the same as one loop after the other
        if isinstance(inst, _Inst) and isinstance(it, ast.Call) and (call_name(it) or "").split(".")[-1] == "chain" and it.args and not it.keywords \
                and all(isinstance(a_, ast.Call) and isinstance(a_.func, ast.Attribute) and a_.func.attr in KIND_OF_ITER for a_ in it.args) and not s.orelse:
            states = [st]
            for a_ in it.args:
                part = ast.For(target=s.target, iter=a_, body=s.body, orelse=[], lineno=s.lineno, col_offset=s.col_offset)
                nxt = []
                for st_ in states:
                    if st_.raised is not None or st_.done:
                        nxt.append(st_)
                    else:
                        nxt.extend(self.loop(part, st_))
                states = nxt
            return states
        if isinstance(inst, _Inst) and isinstance(it, ast.Call) and isinstance(it.func, ast.Attribute) and it.func.attr in KIND_OF_ITER \
                and not isinstance(self.ev(it.func.value, st), _Inst):
            kinds = list(KIND_OF_ITER[it.func.attr])
            sel = list(it.args) + [k.value for k in it.keywords]
            if len(sel) > 1:
                raise ExtractError("iterator %s: unexpected arguments" % unparse(it))
            if sel:
                v = self.ev(sel[0], st)
                if not isinstance(v, Opaque) or not re.match(r"^\w+$", v.text):
                    raise ExtractError("iterator %s: element class not resolvable" % unparse(it))
                if v.text not in self.ct.classes:
                    raise ExtractError("iterator %s: unknown element class %s" % (unparse(it), v.text))
                kinds = [c for c in kinds if v.text in self.ct.mro(c)]
            if inst.cname not in kinds:
                return [st]
            tg = s.target
            if isinstance(tg, ast.Tuple) and len(tg.elts) == 2 and all(isinstance(e, ast.Name) for e in tg.elts):
                st.env[tg.elts[0].id] = Opaque(tg.elts[0].id)
                st.env[tg.elts[1].id] = inst
            else:
                raise ExtractError("loop target %s over %s not understood" % (unparse(tg), unparse(it)))
            st.loops.append((unparse(tg), unparse(it), set(st.env)))
            outs = self.block(s.body, [st])
            for o in outs:
                if o.loops:
                    o.loops.pop()
                if o.done == "loopexit":
                    o.done = False
            return outs
        return SymExec.loop(self, s, st)

    def assign(self, t, v, st, stmt=None):
        if isinstance(t, ast.Attribute):
            base = self.ev(t.value, st)
            if isinstance(base, _Inst):
                if t.attr in self.props(base.cname):
                    raise ExtractError("property store %s.%s in an unsupported position (line %s)" % (base.cname, t.attr, getattr(stmt, "lineno", "?")))
                base.fields[t.attr] = v
                base.log.append(t.attr)
                return
        return SymExec.assign(self, t, v, st, stmt)


def apply_fn(ex, fnode, inst):
    """run a whole function (reset_initial_values, update_network_previous_values) for ONE element `inst`: a loop over `<model>.<kind>(Cls?)`
    executes its body once with the loop variable bound to inst if inst's class is among the elements the iterator yields, and not at all
    otherwise (ElemExec.loop), whatever the nesting / merging / order of the loops -> the final State of every non-raising path"""
    env = {a_.arg: Opaque(a_.arg) for a_ in fnode.args.args + fnode.args.kwonlyargs}
    env["__inst__"] = inst
    return [o for o in ex.block(fnode.body, [State(env)]) if o.raised is None]


def apply_insts(ex, fnode, inst):
    return [o.env["__inst__"] for o in apply_fn(ex, fnode, inst)]


def same_value(ex, a, b):
    """ex.same, but constants must agree in type too (False is not 0, None is only None)"""
    if a is None or b is None or isinstance(a, (bool, int, float, str)) or isinstance(b, (bool, int, float, str)):
        return type(a) is type(b) and a == b
    return ex.same(a, b)


class ResetEval(object):
    """reset_initial_values executed symbolically for one pristine instance of every element class (and for the model object itself)."""

    def __init__(self, repo, ct=None):
        self.ct = ct or ClassTable(repo)
        self.fn = repo.func(MODEL, "WaterNetworkModel.reset_initial_values")
        self.ex = ElemExec(self.ct)
        self.inst = {}
        self.state = {}
        for cn in ELEMENT_CLASSES:
            if cn not in self.ct.classes:
                raise AnchorError("class %s vanished" % cn)
            outs = apply_fn(self.ex, self.fn, _Inst(cn))
            if len(outs) != 1:
                raise ExtractError("reset_initial_values: %d paths for a %s" % (len(outs), cn))
            self.state[cn] = outs[0]
            self.inst[cn] = outs[0].env["__inst__"]
        # the model's own fields and the control loop do not depend on the element class
        st = self.state[ELEMENT_CLASSES[0]]
        self.model = {}
        for e in st.stores("self."):
            self.model[e[1][len("self."):]] = e[2]
        self.resets_controls = any(e[1].endswith("._reset()") and any("controls()" in l for l in e[4]) for e in st.calls())

    def table(self):
        """{element class: {field: canonical value text over the instance's own fields}} (+ 'WaterNetworkModel')"""
        out = {}
        for cn, inst in self.inst.items():
            if inst.fields:
                out[cn] = {f: self.ex.text(v) for f, v in inst.fields.items()}
            for prop, wrote, noop in inst.prop_stores:
                out.setdefault(cn, {})[prop] = ", ".join("%s = %s" % (w, self.ex.text(inst.get(w))) for w in wrote)
        if self.model:
            out["WaterNetworkModel"] = {f: self.ex.text(v) for f, v in self.model.items()}
        return out

    def expected(self, cn, src):
        """value of the expression `src` (over `x`) on a pristine instance of cn"""
        return self.ex.ev(ast.parse(src, mode="eval").body, State({"x": _Inst(cn)}))


def reset_table(repo, ct=None):
    """what reset_initial_values assigns, per concrete element class: {class: {field: value text}} (+ 'WaterNetworkModel'); derived from the
    symbolic execution of the whole function for one instance of each class, not from the shape of its loops (used by C08 too)"""
    r = ResetEval(repo, ct)
    return r.fn, r.table()


def run_start_normaliser(repo):
    """loops of update_network_previous_values, if WNTRSimulator.run_sim calls it on every path whenever it starts at sim_time == 0 (the state
    reset and construction leave): what it assigns is re-derived before a run reads it.  Decided by executing the part of run_sim before its
    main loop symbolically with sim_time bound to 0."""
    if not (repo.has_func(HYD, "update_network_previous_values") and repo.has_func(CORE, "WNTRSimulator.run_sim")):
        return None
    rs = repo.func(CORE, "WNTRSimulator.run_sim")
    prefix = []
    for st_ in rs.body:
        if isinstance(st_, (ast.While, ast.For)):
            break
        prefix.append(st_)

    def attr(base, name, st):
        return 0 if name == "sim_time" else NotImplemented

    def call(name, n, args, kwargs, st, ex, recv):
        if name == "bool" and len(args) == 1 and isinstance(args[0], bool):
            return args[0]
        return NotImplemented

    ex = SymExec(attr_hook=attr, call_hook=call)
    ex.MAX_PATHS = 512
    outs = [o for o in ex.block(prefix, [State({"self": Opaque("self")})]) if o.raised is None and o.done is not True]
    if outs and all(any("update_network_previous_values(" in e[1] for e in o.calls()) for o in outs):
        return repo.func(HYD, "update_network_previous_values")
    return None


def setter_reset_agreement(repo, chk, ct, D):
    """R-C11-1c and R-C11-4 (see EXPLANATION)."""
    rs = repo.func(MODEL, "WaterNetworkModel.reset_initial_values")
    ex = ElemExec(ct)
    nfn = run_start_normaliser(repo)
    if nfn is not None:
        chk.fn(nfn)
    results = {}        # (owner, prop, R) -> [ok, classes, detail, setter node]
    for cn in ELEMENT_CLASSES:
        pristine = apply_insts(ex, rs, _Inst(cn))
        if len(pristine) != 1:
            raise ExtractError("reset_initial_values: %d paths for a %s" % (len(pristine), cn))
        pr = pristine[0]
        # ---- R-C11-1c: the reset writes run-time fields only
        bad_props = []
        for prop, wrote, noop in pr.prop_stores:
            if prop in D:
                bad_props.append(prop)
                chk.bad("R-C11-1c", "reset_initial_values assigns the definition property %s.%s" % (cn, prop), loc(rs),
                        "%s.%s is %s and has no run-time twin, yet reset_initial_values assigns it: a run is expected to change it (ControlAction(obj, %r, v) "
                        "does setattr(obj, %r, v)), which alters to_dict; %s" % (
                            cn, prop, D[prop], prop, prop,
                            ("the value assigned is the property's own backing field (%s), so the assignment is a no-op and the change also survives the reset"
                             % ", ".join(wrote)) if noop else "the assignment itself changes the definition"),
                        expected="reset_initial_values assigns run-time fields only (a run-time twin of %s restored from the definition)" % prop,
                        found="%s <- %s" % (prop, ", ".join("%s = %s" % (w, ex.text(pr.get(w))) for w in wrote)))
        for fld in sorted(pr.fields):
            if fld in D and not any(fld in wrote for _, wrote, _ in pr.prop_stores):
                bad_props.append(fld)
                chk.bad("R-C11-1c", "reset_initial_values assigns the definition field %s.%s" % (cn, fld), loc(rs),
                        "%s is %s" % (fld, D[fld]), found="%s = %s" % (fld, ex.text(pr.get(fld))))
        if not bad_props:
            chk.ok("R-C11-1c", "reset_initial_values assigns only run-time fields of %s" % cn, loc(rs))
        # ---- R-C11-4: pairs R = f(definition fields)
        pairs = {}
        for R, v in pr.fields.items():
            ins = fields_in(v)
            if ins and R not in D and all(i in D for i in ins):
                pairs[R] = ins
        if not pairs:
            continue
        inputs = set().union(*pairs.values())
        props = ex.props(cn)
        by_field = {}         # input field -> public properties whose getter returns it
        for pn, info in props.items():
            if info.get("getter") is not None:
                for b in backing_fields(info["getter"]):
                    by_field.setdefault(b, set()).add(pn)
        for pn, info in sorted(props.items()):
            setter = info.get("setter")
            if setter is None or only_raises(setter):
                continue
            direct = {a.attr for a in walk(setter) if isinstance(a, ast.Attribute) and isinstance(a.ctx, ast.Store) and unparse(a.value) == "self"}
            direct |= {c.args[1].value for c in calls(setter) if isinstance(c.func, ast.Name) and c.func.id == "setattr" and len(c.args) == 3
                       and isinstance(const(c.args[1]), str)}
            if not (direct & inputs or direct & set(props)):
                continue
            params = [a.arg for a in setter.args.args]
            if len(params) != 2:
                raise ExtractError("setter %s.%s has an unexpected signature" % (cn, pn))
            outs = ex.block(setter.body, [State({params[0]: _Inst(cn), params[1]: Opaque("value")})])
            for o in outs:
                if o.raised is not None:
                    continue
                post = o.env[params[0]]
                touched = {k for k in post.fields if k in inputs}
                if not touched:
                    continue
                for start in (apply_insts(ex, nfn, copy.deepcopy(post)) if nfn is not None else [post]):
                    for after in apply_insts(ex, rs, copy.deepcopy(start)):
                        for R, ins in sorted(pairs.items()):
                            if not (ins & touched):
                                continue
                            same = ex.same(after.get(R), start.get(R))
                            key = (info["cls"], pn, R)
                            r = results.setdefault(key, [True, [], None, setter])
                            if cn not in r[1]:
                                r[1].append(cn)
                            if not same and r[0]:
                                r[0] = False
                                r[2] = (cn, o.label(), ex.text(start.get(R)), ex.text(after.get(R)))
    for (owner, pn, R), (ok, classes_, detail, setter) in sorted(results.items()):
        rel = getattr(ct.classes[owner], "_rel", None) or (ELEM if owner in repo.classes(ELEM) else BASE)
        chk.expect(ok, "R-C11-4", "the %s.%s setter keeps %s in step with reset_initial_values" % (owner, pn, R), loc(rel, setter),
                   "after `obj.%s = v` the run-time field %s is %s, but reset_initial_values would set it to %s (%s%s): the first run starts from the "
                   "old state and the run after reset_initial_values from the new one, so the two runs differ" % (
                       (pn, R, detail[2], detail[3], detail[0], ", path " + detail[1] if detail[1] else "") if detail else (pn, R, "", "", "", "")),
                   expected=detail[3] if detail else None, found=detail[2] if detail else None)
    chk.sample({"rule": "R-C11-4", "pairs_checked": ["%s.%s -> %s (%s)" % (o, p_, R, ",".join(v[1])) for (o, p_, R), v in sorted(results.items())],
                "run_start_normaliser": nfn.name if nfn is not None else None})
    chk.floor("R-C11-1c", 10)
    chk.floor("R-C11-4", 4)


def runtime_properties(repo, ct):
    """-> ({class: set(run-time private fields)}, {property name: set(classes)}): the fields reset_initial_values restores are the state a run leaves behind;
    a public property is run-time state when its getter reads such a field of self, directly or through another such property (level = head - elevation)."""
    _fn, table = reset_table(repo, ct)
    # (a field "restored" to itself -- PowerPump._base_power, known finding R-C11-1b -- is not state a run changes)
    fields = {cn: {f for f, v in t.items() if f.startswith("_") and str(v).replace("self.", "") != f} for cn, t in table.items() if cn in ELEMENT_CLASSES}
    props = {}
    for cn in ELEMENT_CLASSES:
        pub = ct.public(cn)
        rt = set()
        changed = True
        while changed:
            changed = False
            for k, info in pub.items():
                g = info.get("getter")
                if g is None or k in rt:
                    continue
                reads = {a.attr for a in walk(g) if isinstance(a, ast.Attribute) and isinstance(a.ctx, ast.Load) and isinstance(a.value, ast.Name) and a.value.id == "self"}
                if reads & (fields.get(cn, set()) | rt):
                    rt.add(k)
                    changed = True
        for k in rt:
            props.setdefault(k, set()).add(cn)
    return fields, props


def writer_reads_definition(repo, chk, ct):
    """R-C11-6 (T1, read sets): the functions that write the model out as an EPANET input file (InpFile._write_* and what they call in wntr/epanet/io.py) read no
    run-time state of a model element -- neither a field reset_initial_values restores nor a property computed from one.  EpanetSimulator.run_sim writes the model
    with this writer: state left behind by an earlier run must not reach the file (the second simulator would start from the first one's end state, and a
    written-and-re-read model would have another definition)."""
    fields, props = runtime_properties(repo, ct)
    allf = set()
    for v in fields.values():
        allf |= v
    if not ({"status", "head", "demand"} <= set(props)):
        raise ExtractError("run-time properties not derived (status / head / demand expected among %s)" % sorted(props))
    inp = repo.cls(EIO, "InpFile")
    meths = {n.name: n for n in inp.body if isinstance(n, ast.FunctionDef)}
    mod_funcs = {n.name: n for n in repo.tree(EIO).body if isinstance(n, ast.FunctionDef)}
    todo = [n for nm, n in meths.items() if nm.startswith("_write") or nm == "write"]
    if len(todo) < 20:
        raise AnchorError("InpFile._write_* methods not found (%d)" % len(todo))
    seen = {}
    while todo:
        fn = todo.pop()
        if fn.name in seen:
            continue
        seen[fn.name] = fn
        for c in calls(fn):
            nm = call_name(c) or ""
            if nm.startswith("self.") and nm[5:] in meths and not nm[5:].startswith("_read") and nm[5:] != "read":
                todo.append(meths[nm[5:]])
            elif nm in mod_funcs:
                todo.append(mod_funcs[nm])
    n = 0
    for name, fn in sorted(seen.items()):
        fn._rel = EIO
        chk.fn(fn)
        bad_ = []
        # locals that hold an options group (report = wn.options.report): their attributes are options, not element state
        opt_locals = {t.id for st in walk(fn) if isinstance(st, ast.Assign) and "options" in unparse(st.value).split("(")[0] for t in st.targets if isinstance(t, ast.Name)}
        for a in walk(fn):
            if isinstance(a, ast.Attribute) and isinstance(a.ctx, ast.Load) and (a.attr in props or a.attr in allf):
                recv = unparse(a.value)
                if recv == "self" or recv.startswith("self.") or recv in ("np", "math", "wntr", "logger"):
                    continue                   # the writer's own fields (self.flow_units ...), not a model element
                if ".options" in recv or recv.split(".")[0].split("[")[0] in opt_locals:
                    continue
                bad_.append((a.lineno, "%s.%s" % (recv, a.attr)))
        n += 1
        chk.expect(not bad_, "R-C11-6", "InpFile.%s writes definition attributes only" % name, loc(fn),
                   "%s is run-time state (restored by reset_initial_values%s): after a simulation in which a control changed it, the file -- and the EpanetSimulator run that is "
                   "started from this file -- carries the end state of that run instead of the model's definition" % (
                       bad_[0][1].split(".")[-1] if bad_ else "-", "" if not bad_ or bad_[0][1].split(".")[-1] in allf else ", computed from such a field"),
                   expected="initial_* / definition attributes", found=["line %d: %s" % b_ for b_ in bad_[:4]])
    chk.floor("R-C11-6", 20)
    chk.sample({"rule": "R-C11-6", "run_time_properties": {k: sorted(v)[:3] for k, v in sorted(props.items())}, "writer_functions": sorted(seen)})


def run(repo, chk):
    ct = ClassTable(repo)
    writer_reads_definition(repo, chk, ct)
    D, RT, wn_rt = field_sets(repo, ct)
    all_rt = set(wn_rt)
    for v in RT.values():
        all_rt |= v
    chk.sample({"definition_fields": len(D), "run_time_fields": {k: sorted(v) for k, v in RT.items() if k in ("Junction", "Tank", "Pipe", "HeadPump", "PRValve")}})
    uni = Universe(repo, [m for m in UNIVERSE if repo.exists(m)],
                   recv_types={"_inpfile": "InpFile", "reader": "BinFile"},      # wn._inpfile.write(...), self.reader.read(...)
                   external_roots={"enData", "msx", "datetime", "itertools", "plotly", "G", "wntr.epanet.toolkit", "wntr.epanet.msx"})
    for need in (CORE, HYD, CTRL, ELEM, BASE, MODEL, ESIM, EIO):
        if need not in uni.modules:
            raise AnchorError("module vanished: %s" % need)

    written_rt = {}     # (class, field) -> site
    total_unres = 0
    total_calls = 0
    for simname, roots_q in (("WNTRSimulator", ["WNTRSimulator.__init__", "WNTRSimulator.run_sim", "WaterNetworkSimulator.__init__"]),
                             ("EpanetSimulator", ["EpanetSimulator.__init__", "EpanetSimulator.run_sim"])):
        roots = []
        for q in roots_q:
            fs = uni.find("::" + q)
            if not fs:
                raise AnchorError("root %s not found" % q)
            roots += fs
        seen, stats, edges = uni.reachable(roots)
        # functions reachable only through constructors of model-side classes act on new objects
        ctor_only = set()
        direct = {}
        todo = list(roots)
        while todo:
            f = todo.pop()
            if f.qual in direct:
                continue
            direct[f.qual] = f
            if f.name == "__init__" and not sim_side(f) and f not in roots:
                continue          # do not traverse out of a model-side constructor
            for q in edges.get(f.qual, []):
                if q in seen and q not in direct:
                    todo.append(seen[q])
        ncalls = stats["resolved"] + stats["byname"] + stats["unresolved"]
        total_unres += stats["unresolved"]
        total_calls += ncalls
        chk.extra.setdefault("call_graph", {})[simname] = {
            "functions_reachable": len(seen), "functions_checked": len(direct), "calls_resolved": stats["resolved"],
            "calls_by_name": stats["byname"], "calls_external": stats["external"], "calls_unresolved": stats["unresolved"],
            "unresolved_names": dict(sorted(stats["unresolved_names"].items(), key=lambda x: -x[1])[:25])}
        if len(direct) < (100 if simname == "WNTRSimulator" else 40):
            chk.error("%s: only %d functions reachable (call graph broken?)" % (simname, len(direct)))
        nsites = 0
        for q, f in sorted(direct.items()):
            chk.functions.add(q)
            if f.name == "__init__" and not sim_side(f):
                continue
            ws = writes(f.node)
            if not ws:
                continue
            newobjs = local_ctor_names(f.node)
            kinds = iter_kinds(f.node)
            for recv, attr, aexpr, via, node in ws:
                rv = unparse(recv)
                rn = root_name(recv)
                if via == "setattr" and attr is None:
                    continue                     # handled by R-C11-1b
                if rn == "self" and rv == "self" and sim_side(f):
                    continue                     # simulator / solver / tracker internal state
                if rn == "self" and rv != "self" and sim_side(f) and not (rv.startswith("self._wn") or rv.startswith("self.wn")):
                    continue                     # self._model.x, self._internal_graph.data ...
                if rn in NON_MODEL_ROOTS or rn in newobjs:
                    continue
                if rn == "cls":
                    continue
                nsites += 1
                construct = "%s: store to %s.%s" % (f.qual.split("::")[1], rv, attr)
                if "options" in rv:
                    chk.bad("R-C11-2", "%s: option store %s.%s reachable from %s" % (f.qual.split("::")[1], rv, attr, simname), loc(f.node, node),
                            "a simulator run writes an option and the analysis found no restore", found=norm(node))
                    continue
                if attr in CACHES:
                    chk.ok("R-C11-1", construct + " (cache: %s)" % CACHES[attr], loc(f.node, node))
                    continue
                if attr == "_name" and f.qual.endswith("InpFile._write_rules") and named_exemption_write_rules(repo, f.node, node):
                    chk.ok("R-C11-1", construct + " (named exemption: an empty rule name is replaced by its registry key, which to_dict already reports for an empty name)",
                           loc(f.node, node))
                    continue
                if attr in D and attr not in all_rt:
                    chk.bad("R-C11-1", construct, loc(f.node, node),
                            "reachable from %s: writes %r, which is %s; to_dict differs after a run" % (simname, attr, D[attr]),
                            expected="only run-time fields %s..." % sorted(all_rt)[:8], found=norm(node))
                    continue
                chk.ok("R-C11-1", construct, loc(f.node, node), "run-time field" if attr in all_rt else "not a definition field")
                if attr in all_rt:
                    ks = kinds_at(node, rn)
                    if ks is None and rn == "self" and f.cls in ct.classes:
                        ks = {c for c in ELEMENT_CLASSES if f.cls in ct.mro(c)}
                    if ks is None:
                        ks = {c for c in ELEMENT_CLASSES if attr in RT.get(c, ())}
                    for k in ks:
                        if attr in RT.get(k, ()):
                            written_rt.setdefault((k, attr), loc(f.node, node))
                    if attr in wn_rt:
                        written_rt.setdefault(("WaterNetworkModel", attr), loc(f.node, node))
        chk.extra["call_graph"][simname]["write_sites_checked"] = nsites
    if total_calls and total_unres / float(total_calls) > 0.12:
        chk.error("unresolved fraction of calls %.1f %% exceeds the stated bound of 12 %%" % (100.0 * total_unres / total_calls))
    chk.floor("R-C11-1", 40)

    # ---------------------------------------------------------------- R-C11-1b setattr targets
    with chk.part("R-C11-1b setattr targets"):
        amap = ActionAttrMap(repo)
        ini = amap.ini
        chk.fn(ini)
        pubv, intv, dyn = action_vocabulary(repo, uni)
        rca = repo.func(CTRL, "ControlAction.run_control_action")
        sa = [c for c in calls(rca) if isinstance(c.func, ast.Name) and c.func.id == "setattr"]
        chk.expect(len(sa) == 1 and len(sa[0].args) == 3 and unparse(through_temporaries(rca, sa[0].args[1])) == "self._private_attribute", "R-C11-1b",
                   "ControlAction.run_control_action writes setattr(target, self._private_attribute, value)", loc(rca), found=[norm(c) for c in sa])
        rci = repo.func(CTRL, "_InternalControlAction.run_control_action")
        sa = [c for c in calls(rci) if isinstance(c.func, ast.Name) and c.func.id == "setattr"]
        chk.expect(len(sa) == 1 and len(sa[0].args) == 3 and unparse(through_temporaries(rci, sa[0].args[1])) == "self._internal_attr", "R-C11-1b",
                   "_InternalControlAction.run_control_action writes setattr(target, self._internal_attr, value)", loc(rci), found=[norm(c) for c in sa])
        chk.sample({"ControlAction_attribute_map": {v: amap(v) for v in sorted(set(pubv) | {"status", "setting", "leak_status"})}, "attribute_strings_passed": sorted(pubv), "internal_attribute_strings": sorted(intv),
                    "dynamic_sites": [f.qual.split("::")[1] for f, c in dyn]})
        for v, sites in sorted(pubv.items()):
            priv = amap(v)
            f, c = sites[0]
            ok = priv in all_rt
            chk.expect(ok, "R-C11-1b", "ControlAction attribute %r is mapped to a run-time field" % v, loc(f.node, c),
                       "ControlAction(obj, %r, v) writes setattr(obj, %r, v); %r is %s, so a control with this action changes the model definition "
                       "(to_dict differs after the run and reset_initial_values does not restore it)" % (v, priv, priv, D.get(priv, "not a run-time field")),
                       expected="one of the run-time fields (_user_status, _setting, _leak_status)", found=priv)
            if ok:
                for k in ELEMENT_CLASSES:
                    if priv in RT.get(k, ()):
                        written_rt.setdefault((k, priv), loc(f.node, c))
        for v, sites in sorted(intv.items()):
            f, c = sites[0]
            chk.expect(v in all_rt, "R-C11-1b", "_InternalControlAction field %r is a run-time field" % v, loc(f.node, c), found=D.get(v))
            if v in all_rt:
                for k in ELEMENT_CLASSES:
                    if v in RT.get(k, ()):
                        written_rt.setdefault((k, v), loc(f.node, c))
        for f, c in dyn:
            chk.assume("attribute passed at %s (%s) comes from INP rule text: assumed in {status, setting}" % (loc(f.node, c), norm(c)))
        chk.floor("R-C11-1b", 6)

    # ---------------------------------------------------------------- R-C11-2 options restored by _Skeletonize
    with chk.part("R-C11-2 options restored by _Skeletonize"):
        if repo.exists(SKEL):
            si = repo.func(SKEL, "_Skeletonize.__init__")
            chk.fn(si)
            stores = [(r, a, n) for r, a, e, via, n in writes(si) if "options" in unparse(r)]
            seq = [n for n in walk(si) if isinstance(n, ast.stmt)]
            # program order of the statements (depth-first, as written): line numbers do not order statements that E0 inlined from a helper (they carry the
            # line of the call)
            order = {}

            def _number(stmts):
                for st_ in stmts:
                    order[id(st_)] = len(order)
                    for fld_ in ("body", "orelse", "finalbody"):
                        blk_ = getattr(st_, fld_, None)
                        if isinstance(blk_, list) and blk_ and isinstance(blk_[0], ast.stmt) and not isinstance(st_, (ast.FunctionDef, ast.ClassDef)):
                            _number(blk_)
                    for h_ in getattr(st_, "handlers", []) or []:
                        _number(h_.body)
            _number(si.body)
            before = lambda a_, b_: order.get(id(a_), -1) < order.get(id(b_), -1)
            for recv, attr, node in stores:
                tgt = "%s.%s" % (unparse(recv), attr)
                if isinstance(node, ast.Assign) and isinstance(node.value, ast.Name):
                    # restoring store: the name must have been saved from the same attribute earlier
                    saved = [s for s in seq if isinstance(s, ast.Assign) and isinstance(s.targets[0], ast.Name) and s.targets[0].id == node.value.id
                             and unparse(s.value) == tgt and before(s, node)]
                    chk.expect(bool(saved), "R-C11-2", "_Skeletonize.__init__ restores %s from the value saved before" % tgt, loc(si, node), found=norm(node))
                else:
                    later = [s for r2, a2, e2, v2, s in writes(si) if "%s.%s" % (unparse(r2), a2) == tgt and before(node, s)
                             and isinstance(s, ast.Assign) and isinstance(s.value, ast.Name)]
                    top = [s for s in si.body]
                    on_all_paths = any(s in top for s in later) and node in top
                    chk.expect(bool(later) and on_all_paths, "R-C11-2", "_Skeletonize.__init__: the temporary store %s is followed by a restore on the straight-line path" % norm(node),
                               loc(si, node), "options changed for the internal simulation must be restored", found=[norm(s) for s in later])
            chk.floor("R-C11-2", 2)

    # ---------------------------------------------------------------- R-C11-3 reset coverage
    with chk.part("R-C11-3 reset coverage"):
        rev = ResetEval(repo, ct)
        rs, reset = rev.fn, rev.table()
        chk.fn(rs)
        chk.sample({"reset_table": {k: v for k, v in reset.items() if k in ("Junction", "Tank", "Pipe", "WaterNetworkModel")}})
        chk.extra["runtime_fields_written"] = sorted("%s.%s" % k for k in written_rt)
        EXEMPT = {}
        # (class, field): reason  -- fields a run can write that need no reset; each reason is re-checked structurally
        if not any(isinstance(n, ast.FunctionDef) and n.name == "add_leak" for n in ct.classes["Reservoir"].body):
            EXEMPT[("Reservoir", "_leak_status")] = ("Reservoir has no add_leak and no leak model (leak builders range over junctions and tanks); only a hand-made "
                                                     "ControlAction(reservoir, 'leak_status', ..) could set it and nothing reads it")
        for (k, fld), where in sorted(written_rt.items()):
            if (k, fld) in EXEMPT:
                chk.ok("R-C11-3", "%s.%s needs no reset: %s" % (k, fld, EXEMPT[(k, fld)]), where)
                continue
            chk.expect(fld in reset.get(k, {}), "R-C11-3", "reset_initial_values restores %s.%s (written by a run at %s)" % (k, fld, where.split(":")[0]), loc(rs),
                       "a run writes %s.%s (%s) but reset_initial_values does not assign it in the loop over %s: a second run starts from the first run's state" % (k, fld, where, k),
                       expected="%s.%s = <initial value>" % (k, fld), found=sorted(reset.get(k, {})))
        # values: compared as symbolic values over the instance's own fields (the reset executed for one instance of each class), so the
        # name of the loop variable, temporaries, merged / nested / reordered loops do not matter
        EXPECT = {"_user_status": ("initial_status", "x.initial_status"), "_setting": ("initial_setting", "x.initial_setting"),
                  "_internal_status": ("LinkStatus.Active", "LinkStatus.Active"),
                  "_is_isolated": ("False", "False"), "_leak_status": ("False", "False"), "_flow": ("None", "None"), "_prev_setting": ("None", "None"),
                  "_demand": ("None", "None"), "_leak_demand": ("None", "None"), "_pressure": ("None", "None")}
        for k in sorted(rev.inst):
            inst = rev.inst[k]
            for fld in sorted(inst.fields):
                if fld in EXPECT:
                    want = rev.expected(k, EXPECT[fld][1])
                    chk.expect(same_value(rev.ex, inst.fields[fld], want), "R-C11-3", "reset value of %s.%s is %s" % (k, fld, EXPECT[fld][0]), loc(rs),
                               found=rev.ex.text(inst.fields[fld]), expected=rev.ex.text(want))
        tank = rev.inst["Tank"]
        th = tank.fields.get("_head")
        chk.expect(th is not None and rev.ex.same(th, rev.expected("Tank", "x.init_level + x.elevation")), "R-C11-3", "reset value of Tank._head is init_level + elevation",
                   loc(rs), found=rev.ex.text(th))
        chk.expect("_prev_head" in tank.fields and th is not None and rev.ex.same(tank.fields["_prev_head"], th), "R-C11-3",
                   "reset value of Tank._prev_head is the reset head", loc(rs), found=rev.ex.text(tank.fields.get("_prev_head")))
        wm = rev.model
        chk.expect(wm.get("sim_time") in (0, 0.0) and wm.get("sim_time") is not False and "_prev_sim_time" in wm and wm["_prev_sim_time"] is None, "R-C11-3",
                   "reset sets sim_time = 0 and _prev_sim_time = None", loc(rs), found=reset.get("WaterNetworkModel"))
        # controls
        chk.expect(rev.resets_controls, "R-C11-3", "reset_initial_values calls _reset() on every control", loc(rs))
        for cname, c in sorted(repo.classes(CTRL).items()):
            meths = {n.name: n for n in c.body if isinstance(n, ast.FunctionDef)}
            if "evaluate" in meths:
                state = {a.attr for a in walk(meths["evaluate"]) if isinstance(a, ast.Attribute) and isinstance(a.ctx, ast.Store)
                         and isinstance(a.value, ast.Name) and a.value.id == "self" and a.attr not in ("_backtrack",)}
                for fld in sorted(state):
                    r_ = meths.get("_reset")
                    ok = r_ is not None and any(isinstance(a, ast.Attribute) and isinstance(a.ctx, ast.Store) and a.attr == fld for a in walk(r_))
                    chk.expect(ok, "R-C11-3", "%s._reset restores %s (written by evaluate)" % (cname, fld), loc(CTRL, meths["evaluate"]))
            if cname in ("AndCondition", "OrCondition"):
                r_ = meths.get("_reset")
                subs = {unparse(cc.func.value) for cc in calls(r_) if last_attr(cc) == "_reset"} if r_ is not None else set()
                chk.expect(subs == {"self._condition_1", "self._condition_2"}, "R-C11-3", "%s._reset recurses into both sub-conditions" % cname, loc(CTRL, c), found=sorted(subs))
            if cname in ("ControlBase", "Control", "Rule") and "_reset" in meths:
                chk.expect(any(unparse(cc.func.value) == "self._condition" for cc in calls(meths["_reset"]) if last_attr(cc) == "_reset"), "R-C11-3",
                           "%s._reset resets its condition" % cname, loc(CTRL, meths["_reset"]))
        chk.floor("R-C11-3", 30)

    # ---------------------------------------------------------------- R-C11-1c / R-C11-4 reset vs definition setters
    with chk.part("R-C11-1c / R-C11-4 reset vs definition setters"):
        setter_reset_agreement(repo, chk, ct, D)


_CHAIN = ("        self._private_attribute = attribute\n        if attribute == 'status':\n            self._private_attribute = '_user_status'\n"
          "        elif attribute == 'leak_status':\n            self._private_attribute = '_leak_status'\n"
          "        elif attribute == 'setting':\n            self._private_attribute = '_setting'\n")
_LINK_BODY = ("            link._user_status = link.initial_status\n            link._setting = link.initial_setting\n"
              "            link._internal_status = LinkStatus.Active\n            link._is_isolated = False\n            link._flow = None\n")
_LINK_RESET = ("        for name, link in self.links(Pipe):\n" + _LINK_BODY + "            link._prev_setting = None\n\n"
               "        for name, link in self.links(Pump):\n" + _LINK_BODY + "            if isinstance(link, PowerPump):\n                link.power = link._base_power\n"
               "            link._prev_setting = None\n\n"
               "        for name, link in self.links(Valve):\n" + _LINK_BODY + "            link._prev_setting = None\n")
_LINK_RESET_MERGED = ("        for link_type in (Pipe, Pump, Valve):\n            for name, link in self.links(link_type):\n"
                      + "".join("    " + l + "\n" for l in _LINK_BODY.splitlines())
                      + "                if isinstance(link, PowerPump):\n                    link.power = link._base_power\n                link._prev_setting = None\n")
WITNESSES = [
    dict(name="valve-line-written-from-current-setting", file=EIO, old="                valve_set = from_si(self.flow_units, valve.initial_setting, HydParam.Flow)\n", new="                valve_set = from_si(self.flow_units, valve.setting, HydParam.Flow)\n", rule="R-C11-6"),
    dict(name="tank-line-written-from-current-level", file=EIO, old="'initlev': from_si(self.flow_units, tank.init_level, HydParam.HydraulicHead),", new="'initlev': from_si(self.flow_units, tank.level, HydParam.HydraulicHead),", rule="R-C11-6"),
    dict(name="results-stored-into-definition-field", file=HYD, old="            node._pressure = m.head[name].value - node.elevation\n",
         new="            node._pressure = m.head[name].value - node.elevation\n            node._elevation = node.elevation\n", rule="R-C11-1"),
    dict(name="integration-writes-init-level", file=HYD, old="        tank._head = tank._prev_head + delta_h\n",
         new="        tank._head = tank._prev_head + delta_h\n        tank.init_level = tank._head - tank.elevation\n", rule="R-C11-1"),
    dict(name="action-writes-initial-status", file=CTRL, old="self._private_attribute = '_user_status'", new="self._private_attribute = 'initial_status'", rule="R-C11-1b"),
    dict(name="simulator-writes-an-option", file=CORE, old="        self._report_timestep = self._wn.options.time.report_timestep\n",
         new="        self._report_timestep = self._wn.options.time.report_timestep\n        self._wn.options.time.report_timestep = self._hydraulic_timestep\n", rule="R-C11-2"),
    dict(name="skeletonize-does-not-restore-duration", file=SKEL, old="        self.wn.options.time.duration = duration\n", new="", rule="R-C11-2"),
    dict(name="reset-line-deleted", file=MODEL,
         old="            link._internal_status = LinkStatus.Active\n            link._is_isolated = False\n            link._flow = None\n            link._prev_setting = None\n\n        for name, link in self.links(Pump):",
         new="            link._is_isolated = False\n            link._flow = None\n            link._prev_setting = None\n\n        for name, link in self.links(Pump):", rule="R-C11-3"),
    dict(name="reset-tank-head-from-min-level", file=MODEL, old="node._head = node.init_level + node.elevation", new="node._head = node.min_level + node.elevation", rule="R-C11-3"),
    dict(name="tank-level-condition-not-reset", file=CTRL, old="    def _reset(self):\n        self._last_value = getattr(self._source_obj, self._source_attr)",
         new="    def _reset(self):\n        pass  #", rule="R-C11-3"),
    dict(name="epanet-writer-renames-element", file=EIO, old="                if all_control.name == '':\n                    all_control._name = text\n",
         new="                all_control._name = text\n", rule="R-C11-1"),
    # ControlAction.__init__'s attribute map: same map in other shapes stays quiet, a wrong entry in any shape fires
    dict(name="action-map-as-class-level-table-preserving", file=CTRL, old=_CHAIN,
         new="        self._private_attribute = self._PRIVATE_ATTRIBUTES.get(attribute, attribute)\n",
         also=[("    def __init__(self, target_obj, attribute, value):\n        super(ControlAction, self).__init__()\n",
                "    _PRIVATE_ATTRIBUTES = {'status': '_user_status',\n                           'leak_status': '_leak_status',\n                           'setting': '_setting'}\n\n"
                "    def __init__(self, target_obj, attribute, value):\n        super(ControlAction, self).__init__()\n")], silent=True),
    dict(name="action-map-as-local-table-and-membership-preserving", file=CTRL, old=_CHAIN,
         new="        private = dict_ = {'status': '_user_status', 'leak_status': '_leak_status', 'setting': '_setting'}\n"
             "        name = dict_[attribute] if attribute in dict_ else attribute\n        self._private_attribute = name\n", silent=True),
    dict(name="action-map-as-conditional-expressions-preserving", file=CTRL, old=_CHAIN,
         new="        self._private_attribute = ('_user_status' if attribute == 'status' else '_leak_status' if attribute == 'leak_status'\n"
             "                                   else '_setting' if attribute == 'setting' else attribute)\n", silent=True),
    dict(name="action-map-in-helper-with-early-returns-preserving", file=CTRL, old=_CHAIN,
         new="        self._private_attribute = self._private_name(attribute)\n\n    @staticmethod\n    def _private_name(attribute):\n"
             "        if attribute == 'status':\n            return '_user_status'\n        if attribute == 'leak_status':\n            return '_leak_status'\n"
             "        if attribute == 'setting':\n            return '_setting'\n        return attribute\n", silent=True),
    dict(name="action-map-table-writes-initial-setting", file=CTRL, old=_CHAIN,
         new="        self._private_attribute = {'status': '_user_status', 'leak_status': '_leak_status', 'setting': 'initial_setting'}.get(attribute, attribute)\n",
         rule="R-C11-1b"),
    dict(name="action-map-table-loses-status-entry", file=CTRL, old=_CHAIN,
         new="        self._private_attribute = {'leak_status': '_leak_status', 'setting': '_setting'}.get(attribute, attribute)\n", rule="R-C11-1b"),
    dict(name="action-setattr-through-temporary-preserving", file=CTRL, old="        setattr(self._target_obj, self._private_attribute, self._value)\n",
         new="        field = self._private_attribute\n        setattr(self._target_obj, field, self._value)\n", silent=True),
    dict(name="action-setattr-public-attribute", file=CTRL, old="        setattr(self._target_obj, self._private_attribute, self._value)\n",
         new="        field = self._attribute\n        setattr(self._target_obj, field, self._value)\n", rule="R-C11-1b"),
    # R-C11-4: setters of definition fields keep the run-time twin that reset_initial_values derives from them in step
    dict(name="initial-status-setter-leaves-current-status", file=BASE, old="        self._initial_status = status\n"
         "        # the simulator starts from the current status: keep it in step (as Tank.init_level does for the head)\n        self._user_status = status\n",
         new="        self._initial_status = status\n", rule="R-C11-4"),
    dict(name="initial-setting-setter-leaves-current-setting", file=BASE, old="        self._initial_setting = setting\n        self._setting = setting\n",
         new="        self._initial_setting = setting\n", rule="R-C11-4"),
    dict(name="initial-setting-setter-syncs-on-one-branch-only", file=BASE, old="        self._initial_setting = setting\n        self._setting = setting\n",
         new="        self._initial_setting = setting\n        if setting is not None:\n            self._setting = setting\n", rule="R-C11-4"),
    dict(name="tank-elevation-setter-leaves-head", file=ELEM,
         old="        self._head = self._elevation + self._init_level  # like the init_level setter: the tank starts at init_level\n", new="", rule="R-C11-4"),
    dict(name="tank-init-level-setter-uses-old-level", file=ELEM, old="        self._init_level = value\n        self._head = self.elevation+self._init_level\n",
         new="        self._head = self.elevation+self._init_level\n        self._init_level = value\n", rule="R-C11-4"),
    dict(name="run-start-no-longer-rederives-prev-head", file=HYD, old="        tank._prev_head = tank.head\n", new="        pass\n", rule="R-C11-4"),
    dict(name="run-start-rederivation-not-on-first-step", file=CORE, old="        if first_step:\n            wntr.sim.hydraulics.update_network_previous_values(self._wn)\n",
         new="        if not first_step:\n            wntr.sim.hydraulics.update_network_previous_values(self._wn)\n", rule="R-C11-4"),
    dict(name="first-step-flag-in-other-shape-preserving", file=CORE,
         old="        if self._wn.sim_time == 0:\n            first_step = True\n        else:\n            first_step = False\n",
         new="        first_step = bool(self._wn.sim_time == 0)\n", silent=True),
    dict(name="setters-in-other-shapes-preserving", file=BASE, old="        self._initial_setting = setting\n        self._setting = setting\n",
         new="        self._setting = self._initial_setting = setting\n",
         also=[("        self._initial_status = status\n        # the simulator starts from the current status: keep it in step (as Tank.init_level does for the head)\n"
                "        self._user_status = status\n",
                "        new_status = status\n        self._user_status = new_status\n        self._initial_status = self._user_status\n")], silent=True),
    dict(name="tank-setters-in-other-shapes-preserving", file=ELEM, old="        self._init_level = value\n        self._head = self.elevation+self._init_level\n",
         new="        self._head = value + self._elevation\n        self._init_level = value\n",
         also=[("        self._elevation = value\n        self._head = self._elevation + self._init_level  # like the init_level setter: the tank starts at init_level\n",
                "        level = self.init_level\n        self._elevation = value\n        self.init_level = level\n")], silent=True),
    # R-C11-1c: reset_initial_values writes run-time fields only
    dict(name="reset-rewrites-tank-init-level", file=MODEL, old="            node._prev_head = node.head\n",
         new="            node._prev_head = node.head\n            node.init_level = node.level\n", rule="R-C11-1c"),
    # reset table / exemption derived from meaning, not from loop or dictionary shapes
    dict(name="reset-link-loops-merged-preserving", file=MODEL, old=_LINK_RESET, new=_LINK_RESET_MERGED, silent=True),
    dict(name="reset-link-loops-merged-valves-forgotten", file=MODEL, old=_LINK_RESET, new=_LINK_RESET_MERGED.replace("(Pipe, Pump, Valve)", "(Pipe, Pump)"), rule="R-C11-3"),
    dict(name="reset-link-loops-merged-setting-from-current", file=MODEL, old=_LINK_RESET,
         new=_LINK_RESET_MERGED.replace("link._setting = link.initial_setting", "link._setting = link.setting"), rule="R-C11-3"),
    dict(name="reset-tank-loop-renamed-and-hoisted-preserving", file=MODEL,
         old="        for name, node in self.nodes(Tank):\n            node._head = node.init_level + node.elevation\n            node._prev_head = node.head\n",
         new="        for tank_name, tank in self.tanks():\n            start_head = tank.elevation + tank.init_level\n            tank._prev_head = tank._head = start_head\n"
             "            node = tank\n", silent=True),
    dict(name="to-dict-renamed-locals-dict-literal-preserving", file="wntr/network/io.py",
         old="    controls = list()\n    for k, c in wn._controls.items():\n        cc = c.to_dict()\n        if \"name\" in cc.keys() and not cc[\"name\"]:\n"
             "            cc[\"name\"] = k\n        controls.append(cc)\n",
         new="    controls = []\n    for ctrl_name, ctrl in wn._controls.items():\n        entry = ctrl.to_dict()\n        if \"name\" in entry and not entry[\"name\"]:\n"
             "            entry[\"name\"] = ctrl_name\n        controls.append(entry)\n", silent=True),
    dict(name="to-dict-keeps-empty-rule-name", file="wntr/network/io.py",
         old="        if \"name\" in cc.keys() and not cc[\"name\"]:\n            cc[\"name\"] = k\n", new="", rule="R-C11-1"),
    dict(name="simulator-internal-store-preserving", file=CORE, old="        self._report_timestep = self._wn.options.time.report_timestep\n",
         new="        self._report_timestep = self._wn.options.time.report_timestep\n        self._n_runs = 1\n", silent=True),
]
