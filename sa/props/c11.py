"""C11 -- simulating never alters the model definition; reset_initial_values restores every run-time field.

Effect analysis: the transitive attribute-write set of both simulators (call graph over a fixed universe of
modules, sa/effects.py) is compared with the *definition* field set derived from the class table that
to_dict walks (shared with C13), and the run-time fields it does write are compared with the assignments of
reset_initial_values.
"""
import ast

from ..src import walk, calls, call_name, last_attr, dotted, norm, loc, const, AnchorError, ExtractError, parent, unparse
from ..effects import Universe, writes
from .c13 import ClassTable, backing_fields, exclusion_list, only_raises

CORE = "wntr/sim/core.py"
HYD = "wntr/sim/hydraulics.py"
MODEL = "wntr/network/model.py"
BASE = "wntr/network/base.py"
ELEM = "wntr/network/elements.py"
CTRL = "wntr/network/controls.py"
OPTS = "wntr/network/options.py"
EIO = "wntr/epanet/io.py"
SKEL = "wntr/morph/skel.py"
ESIM = "wntr/sim/epanet.py"

UNIVERSE = [CORE, HYD, "wntr/sim/solvers.py", "wntr/sim/results.py", ESIM,
            "wntr/sim/models/constraint.py", "wntr/sim/models/param.py", "wntr/sim/models/var.py", "wntr/sim/models/utils.py",
            "wntr/sim/models/constants.py", CTRL, ELEM, BASE, MODEL, OPTS, "wntr/network/io.py", EIO, "wntr/epanet/util.py",
            "wntr/sim/aml/aml.py", "wntr/sim/aml/expr.py"]

EXPLANATION = (
    "Static effect analysis: (R-C11-1) the transitive attribute-write set of WNTRSimulator.__init__/run_sim and of "
    "EpanetSimulator.__init__/run_sim (name-and-receiver based call graph over wntr/sim, wntr/network and wntr/epanet/io, constructors of "
    "new objects excluded) contains no definition field: definition fields are derived from the class table that to_dict walks (public "
    "keys of every element class, their setters and the private fields their getters return), the fields of patterns, curves, sources, "
    "time series, options, and the definitional fields of controls, conditions and actions; setattr(target, <field>, v) in control actions is "
    "resolved through ControlAction.__init__'s attribute map over every attribute string the package passes; (R-C11-2) every options store "
    "reachable from a simulator or made by _Skeletonize.__init__ is restored from a saved copy on every path; (R-C11-3) every run-time field a "
    "run writes on an element kind is assigned by reset_initial_values in the loop over that kind, with the value construction establishes "
    "(initial_status, initial_setting, Active, init_level + elevation, False, None, 0), and every control is _reset(), which restores condition "
    "state and recurses through And/Or. Decides the write-set and reset-coverage clauses, not bit-for-bit reproducibility.")
RULE_TEXT = ("one instance = one (function, receiver, attribute) write site, one resolved setattr target, one options store, or one "
             "(element kind, run-time field) reset obligation; distinct = distinct constructs")
ASSUMPTIONS = [
    "call resolution is by name and receiver convention (no type checker offline); calls through unresolved receivers are counted in the evidence (bound 12 %)",
    "attribute strings taken from INP [RULES] text at run time are assumed to be in {status, setting}",
    "property getters are not followed as calls, except the ones listed as caches (HeadPump.get_head_curve_coefficients is a method and is followed)",
    "constructors of new objects (and whatever they call on the new object) are not model mutations",
]

CACHES = {
    "_curve_coeffs": "memoised head-curve fit of HeadPump.get_head_curve_coefficients, recomputed when the curve points change",
    "_coeffs_curve_points": "key of that memo",
    "_inpfile": "InpFile object kept by write_inpfile/read_inpfile for re-use; not part of to_dict",
    "_observers": "observer registrations of control actions (Subject.subscribe); not part of to_dict",
}
NON_MODEL_ROOTS = {"m", "model", "results", "df", "G", "fig", "ax", "res", "result", "ret", "all_resids", "logger", "np", "os", "f", "fout", "fin"}
CONTROL_DEF_FIELDS = {"_condition", "_then_actions", "_else_actions", "_priority", "_name", "_threshold", "_relation", "_source_obj",
                      "_source_attr", "_repeat", "_first_time", "_first_day", "_threshold_obj", "_threshold_attr", "_target_obj", "_attribute",
                      "_value", "_private_attribute", "_condition_1", "_condition_2", "_func", "_func_kwargs", "_requires", "_internal_attr",
                      "_property_attr"}
ELEMENT_CLASSES = ["Junction", "Tank", "Reservoir", "Pipe", "HeadPump", "PowerPump", "PRValve", "PSValve", "PBValve", "FCValve", "TCValve", "GPValve"]
VALUE_CLASSES = ["Pattern", "Curve", "Source", "TimeSeries", "Demands"]
KIND_OF_ITER = {"junctions": ["Junction"], "tanks": ["Tank"], "reservoirs": ["Reservoir"], "pipes": ["Pipe"],
                "pumps": ["HeadPump", "PowerPump"], "head_pumps": ["HeadPump"], "power_pumps": ["PowerPump"],
                "valves": ["PRValve", "PSValve", "PBValve", "FCValve", "TCValve", "GPValve"],
                "prvs": ["PRValve"], "psvs": ["PSValve"], "pbvs": ["PBValve"], "fcvs": ["FCValve"], "tcvs": ["TCValve"], "gpvs": ["GPValve"],
                "nodes": ["Junction", "Tank", "Reservoir"],
                "links": ["Pipe", "HeadPump", "PowerPump", "PRValve", "PSValve", "PBValve", "FCValve", "TCValve", "GPValve"]}
RESET_KIND = {"Junction": ["Junction"], "Tank": ["Tank"], "Reservoir": ["Reservoir"], "Pipe": ["Pipe"], "Pump": ["HeadPump", "PowerPump"],
              "Valve": ["PRValve", "PSValve", "PBValve", "FCValve", "TCValve", "GPValve"]}


# ------------------------------------------------------------------ field sets
def private_fields_of_init(ct, cname):
    out = {}
    for k in ct.mro(cname):
        c = ct.classes[k]
        for n in c.body:
            if isinstance(n, ast.FunctionDef) and n.name == "__init__":
                for a in walk(n):
                    if (isinstance(a, ast.Attribute) and isinstance(a.ctx, ast.Store) and isinstance(a.value, ast.Name) and a.value.id == "self"):
                        out.setdefault(a.attr, k)
    return out


def init_value(ct, cname, field):
    """text of the value a field gets in __init__ (most derived class assigning it)."""
    for k in ct.mro(cname):
        c = ct.classes[k]
        for n in c.body:
            if isinstance(n, ast.FunctionDef) and n.name == "__init__":
                for s in walk(n):
                    if isinstance(s, ast.Assign):
                        for t in s.targets:
                            if isinstance(t, ast.Attribute) and isinstance(t.value, ast.Name) and t.value.id == "self" and t.attr == field:
                                return unparse(s.value)
    return None


def field_sets(repo, ct):
    """-> (D: field -> reason, RT: class -> set(fields), fields_of_class)"""
    D = {}
    node_excl = exclusion_list(repo.func(BASE, "Node.to_dict"))
    link_excl = exclusion_list(repo.func(BASE, "Link.to_dict"))
    RT = {}
    for cn in ELEMENT_CLASSES:
        if cn not in ct.classes:
            raise AnchorError("class %s vanished" % cn)
        pub = ct.public(cn)
        is_node = "Node" in ct.mro(cn)
        excl = node_excl if is_node else link_excl
        dfields = set()
        for k, info in pub.items():
            if k in excl:
                continue
            back = backing_fields(info["getter"]) if info.get("getter") is not None else set()
            settable = info["kind"] in ("inst", "classattr") or (info.get("setter") is not None and not only_raises(info["setter"]))
            if settable:
                D.setdefault(k, "definition property %s.%s (emitted by to_dict, has a setter)" % (cn, k))
            for b in back:
                D.setdefault(b, "backing field of the to_dict key %s.%s" % (cn, k))
                dfields.add(b)
        priv = private_fields_of_init(ct, cn)
        RT[cn] = {f for f in priv if f.startswith("_") and f not in dfields and f not in D}
    for cn in VALUE_CLASSES:
        if cn in ct.classes:
            for f in private_fields_of_init(ct, cn):
                D.setdefault(f, "field of %s (no run-time state)" % cn)
            for k, info in ct.public(cn).items():
                if info["kind"] in ("inst", "classattr") or (info.get("setter") is not None and not only_raises(info["setter"])):
                    D.setdefault(k, "settable attribute of %s" % cn)
    for f in CONTROL_DEF_FIELDS:
        D.setdefault(f, "definitional field of a control / condition / action (feeds __str__ / to_dict)")
    # options
    for cname, c in repo.classes(OPTS).items():
        if cname.endswith("Options"):
            for n in c.body:
                if isinstance(n, ast.FunctionDef) and n.name == "__init__":
                    for a in walk(n):
                        if isinstance(a, ast.Attribute) and isinstance(a.ctx, ast.Store) and isinstance(a.value, ast.Name) and a.value.id == "self":
                            D.setdefault(a.attr, "option %s.%s" % (cname, a.attr))
    # the model object itself
    wn_init = repo.func(MODEL, "WaterNetworkModel.__init__")
    for a in walk(wn_init):
        if isinstance(a, ast.Attribute) and isinstance(a.ctx, ast.Store) and isinstance(a.value, ast.Name) and a.value.id == "self":
            if a.attr not in ("sim_time", "_prev_sim_time", "_inpfile", "_msx"):
                D.setdefault(a.attr, "field of WaterNetworkModel set at construction")
    wn_rt = {"sim_time", "_prev_sim_time"}
    return D, RT, wn_rt


# ------------------------------------------------------------------ receivers
def root_name(e):
    while isinstance(e, (ast.Attribute, ast.Subscript, ast.Call)):
        e = e.value if not isinstance(e, ast.Call) else e.func
    return e.id if isinstance(e, ast.Name) else None


def local_ctor_names(fnode):
    """names bound in this function to a freshly constructed object (Name = Cls(...))"""
    out = set()
    for n in walk(fnode, skip_nested=False):
        if isinstance(n, ast.Assign) and isinstance(n.value, ast.Call):
            f = n.value.func
            nm = f.id if isinstance(f, ast.Name) else (f.attr if isinstance(f, ast.Attribute) else "")
            if nm[:1].isupper() or nm.lstrip("_")[:1].isupper() or unparse(f).startswith("type("):
                for t in n.targets:
                    if isinstance(t, ast.Name):
                        out.add(t.id)
    return out


def iter_kinds(fnode):
    """loop variable -> element classes, from `for name, x in wn.tanks()` style loops (and x = wn.get_node/get_link)."""
    out = {}
    for n in walk(fnode, skip_nested=False):
        if isinstance(n, ast.For) and isinstance(n.iter, ast.Call) and isinstance(n.iter.func, ast.Attribute) and n.iter.func.attr in KIND_OF_ITER:
            tg = n.target.elts[-1] if isinstance(n.target, ast.Tuple) else n.target
            if isinstance(tg, ast.Name):
                kinds = KIND_OF_ITER[n.iter.func.attr]
                if n.iter.args and isinstance(n.iter.args[0], ast.Name) and n.iter.args[0].id in RESET_KIND:
                    kinds = RESET_KIND[n.iter.args[0].id]
                out.setdefault(tg.id, set()).update(kinds)
    return out


def kinds_at(node, rn):
    """element classes of receiver root `rn` at this statement: nearest enclosing `for .., rn in wn.<kind>()` loop."""
    q = node
    while q is not None:
        q = parent(q)
        if isinstance(q, ast.For) and isinstance(q.iter, ast.Call) and isinstance(q.iter.func, ast.Attribute):
            tg = q.target.elts[-1] if isinstance(q.target, ast.Tuple) else q.target
            if isinstance(tg, ast.Name) and tg.id == rn and q.iter.func.attr in KIND_OF_ITER:
                kinds = KIND_OF_ITER[q.iter.func.attr]
                if q.iter.args and isinstance(q.iter.args[0], ast.Name) and q.iter.args[0].id in RESET_KIND:
                    kinds = RESET_KIND[q.iter.args[0].id]
                return set(kinds)
    return None


def named_exemption_write_rules(repo, fnode, store):
    """`if c.name == '': c._name = <registry key>` inside `for <key>, c in wn.controls()`, and to_dict substitutes the key for an empty name."""
    p = parent(store)
    if not (isinstance(p, ast.If) and unparse(p.test).replace('"', "'").endswith(".name == ''")):
        return False
    loop = p
    while loop is not None and not isinstance(loop, ast.For):
        loop = parent(loop)
    if loop is None or "controls()" not in unparse(loop.iter) or not isinstance(loop.target, ast.Tuple):
        return False
    key = loop.target.elts[0]
    if not (isinstance(store, ast.Assign) and isinstance(store.value, ast.Name) and isinstance(key, ast.Name) and store.value.id == key.id):
        return False
    td = repo.func("wntr/network/io.py", "to_dict")
    txt = unparse(td).replace('"', "'")
    return "cc['name'] = k" in txt and "not cc['name']" in txt


def sim_side(f):
    return f.rel.startswith("wntr/sim/") or f.rel.startswith("wntr/epanet/") or f.cls in (
        "ControlChecker", "ControlChangeTracker", "Subject", "Observer", "ModelUpdater", "_Diagnostics")


# ------------------------------------------------------------------ rules
def action_attr_map(repo):
    """ControlAction.__init__: public attribute -> private attribute written by run_control_action."""
    ini = repo.func(CTRL, "ControlAction.__init__")
    default = None
    table = {}
    for s in ini.body:
        if isinstance(s, ast.Assign) and unparse(s.targets[0]) == "self._private_attribute" and isinstance(s.value, ast.Name):
            default = s.value.id
        cur = s
        while isinstance(cur, ast.If):
            t = cur.test
            if isinstance(t, ast.Compare) and isinstance(t.left, ast.Name) and isinstance(t.ops[0], ast.Eq) and isinstance(const(t.comparators[0]), str):
                for b in cur.body:
                    if isinstance(b, ast.Assign) and unparse(b.targets[0]) == "self._private_attribute" and isinstance(const(b.value), str):
                        table[const(t.comparators[0])] = const(b.value)
            cur = cur.orelse[0] if len(cur.orelse) == 1 and isinstance(cur.orelse[0], ast.If) else None
    if default != "attribute" or not table:
        raise ExtractError("ControlAction.__init__: attribute map not recognised (default=%s, table=%s)" % (default, table))
    return ini, table


def action_vocabulary(repo, universe):
    """attribute strings passed to ControlAction(...) / _InternalControlAction(...) anywhere in the universe."""
    pub, internal, dynamic = {}, {}, []
    for f in universe.fns:
        for c in calls(f.node):
            nm = last_attr(c)
            if nm == "ControlAction" and len(c.args) >= 2:
                v = const(c.args[1])
                if isinstance(v, str):
                    pub.setdefault(v, []).append((f, c))
                else:
                    dynamic.append((f, c))
            elif nm == "_InternalControlAction" and len(c.args) >= 2:
                v = const(c.args[1])
                if isinstance(v, str):
                    internal.setdefault(v, []).append((f, c))
                else:
                    dynamic.append((f, c))
    return pub, internal, dynamic


def reset_table(repo):
    """assignments of WaterNetworkModel.reset_initial_values: {element class: {field: value text}} (+ 'WaterNetworkModel')"""
    rs = repo.func(MODEL, "WaterNetworkModel.reset_initial_values")
    reset = {}     # class -> {field: value text}
    for n in rs.body:
        if isinstance(n, ast.For) and isinstance(n.iter, ast.Call) and isinstance(n.iter.func, ast.Attribute) and n.iter.func.attr in KIND_OF_ITER:
            if n.iter.args and isinstance(n.iter.args[0], ast.Name):
                classes_ = RESET_KIND.get(n.iter.args[0].id, [n.iter.args[0].id])
            else:
                classes_ = KIND_OF_ITER[n.iter.func.attr]
            tg = n.target.elts[-1].id if isinstance(n.target, ast.Tuple) else n.target.id
            for s in walk(n):
                if isinstance(s, ast.Assign):
                    for t in s.targets:
                        if isinstance(t, ast.Attribute) and isinstance(t.value, ast.Name) and t.value.id == tg:
                            # an isinstance guard narrows the classes the assignment applies to
                            cl = list(classes_)
                            q = s
                            while q is not None and q is not n:
                                pq = parent(q)
                                if isinstance(pq, ast.If) and q in pq.body and isinstance(pq.test, ast.Call) and unparse(pq.test.func) == "isinstance" \
                                        and isinstance(pq.test.args[1], ast.Name) and unparse(pq.test.args[0]) == tg:
                                    nm = pq.test.args[1].id
                                    cl = [c for c in cl if c in RESET_KIND.get(nm, [nm])]
                                q = pq
                            for c in cl:
                                reset.setdefault(c, {})[t.attr] = unparse(s.value)
        elif isinstance(n, ast.Assign):
            for t in n.targets:
                if isinstance(t, ast.Attribute) and unparse(t.value) == "self":
                    reset.setdefault("WaterNetworkModel", {})[t.attr] = unparse(n.value)
    return rs, reset


def run(repo, chk):
    ct = ClassTable(repo)
    D, RT, wn_rt = field_sets(repo, ct)
    all_rt = set(wn_rt)
    for v in RT.values():
        all_rt |= v
    chk.sample({"definition_fields": len(D), "run_time_fields": {k: sorted(v) for k, v in RT.items() if k in ("Junction", "Tank", "Pipe", "HeadPump", "PRValve")}})
    uni = Universe(repo, [m for m in UNIVERSE if repo.exists(m)],
                   recv_types={"_inpfile": "InpFile", "reader": "BinFile"},      # wn._inpfile.write(...), self.reader.read(...)
                   external_roots={"enData", "msx", "datetime", "itertools", "plotly", "G", "wntr.epanet.toolkit", "wntr.epanet.msx"})
    for need in (CORE, HYD, CTRL, ELEM, BASE, MODEL, ESIM, EIO):
        if need not in uni.modules:
            raise AnchorError("module vanished: %s" % need)

    written_rt = {}     # (class, field) -> site
    total_unres = 0
    total_calls = 0
    for simname, roots_q in (("WNTRSimulator", ["WNTRSimulator.__init__", "WNTRSimulator.run_sim", "WaterNetworkSimulator.__init__"]),
                             ("EpanetSimulator", ["EpanetSimulator.__init__", "EpanetSimulator.run_sim"])):
        roots = []
        for q in roots_q:
            fs = uni.find("::" + q)
            if not fs:
                raise AnchorError("root %s not found" % q)
            roots += fs
        seen, stats, edges = uni.reachable(roots)
        # functions reachable only through constructors of model-side classes act on new objects
        ctor_only = set()
        direct = {}
        todo = list(roots)
        while todo:
            f = todo.pop()
            if f.qual in direct:
                continue
            direct[f.qual] = f
            if f.name == "__init__" and not sim_side(f) and f not in roots:
                continue          # do not traverse out of a model-side constructor
            for q in edges.get(f.qual, []):
                if q in seen and q not in direct:
                    todo.append(seen[q])
        ncalls = stats["resolved"] + stats["byname"] + stats["unresolved"]
        total_unres += stats["unresolved"]
        total_calls += ncalls
        chk.extra.setdefault("call_graph", {})[simname] = {
            "functions_reachable": len(seen), "functions_checked": len(direct), "calls_resolved": stats["resolved"],
            "calls_by_name": stats["byname"], "calls_external": stats["external"], "calls_unresolved": stats["unresolved"],
            "unresolved_names": dict(sorted(stats["unresolved_names"].items(), key=lambda x: -x[1])[:25])}
        if len(direct) < (100 if simname == "WNTRSimulator" else 40):
            chk.error("%s: only %d functions reachable (call graph broken?)" % (simname, len(direct)))
        nsites = 0
        for q, f in sorted(direct.items()):
            chk.functions.add(q)
            if f.name == "__init__" and not sim_side(f):
                continue
            ws = writes(f.node)
            if not ws:
                continue
            newobjs = local_ctor_names(f.node)
            kinds = iter_kinds(f.node)
            for recv, attr, aexpr, via, node in ws:
                rv = unparse(recv)
                rn = root_name(recv)
                if via == "setattr" and attr is None:
                    continue                     # handled by R-C11-1b
                if rn == "self" and rv == "self" and sim_side(f):
                    continue                     # simulator / solver / tracker internal state
                if rn == "self" and rv != "self" and sim_side(f) and not (rv.startswith("self._wn") or rv.startswith("self.wn")):
                    continue                     # self._model.x, self._internal_graph.data ...
                if rn in NON_MODEL_ROOTS or rn in newobjs:
                    continue
                if rn == "cls":
                    continue
                nsites += 1
                construct = "%s: store to %s.%s" % (f.qual.split("::")[1], rv, attr)
                if "options" in rv:
                    chk.bad("R-C11-2", "%s: option store %s.%s reachable from %s" % (f.qual.split("::")[1], rv, attr, simname), loc(f.node, node),
                            "a simulator run writes an option and the analysis found no restore", found=norm(node))
                    continue
                if attr in CACHES:
                    chk.ok("R-C11-1", construct + " (cache: %s)" % CACHES[attr], loc(f.node, node))
                    continue
                if attr == "_name" and f.qual.endswith("InpFile._write_rules") and named_exemption_write_rules(repo, f.node, node):
                    chk.ok("R-C11-1", construct + " (named exemption: an empty rule name is replaced by its registry key, which to_dict already reports for an empty name)",
                           loc(f.node, node))
                    continue
                if attr in D and attr not in all_rt:
                    chk.bad("R-C11-1", construct, loc(f.node, node),
                            "reachable from %s: writes %r, which is %s; to_dict differs after a run" % (simname, attr, D[attr]),
                            expected="only run-time fields %s..." % sorted(all_rt)[:8], found=norm(node))
                    continue
                chk.ok("R-C11-1", construct, loc(f.node, node), "run-time field" if attr in all_rt else "not a definition field")
                if attr in all_rt:
                    ks = kinds_at(node, rn)
                    if ks is None and rn == "self" and f.cls in ct.classes:
                        ks = {c for c in ELEMENT_CLASSES if f.cls in ct.mro(c)}
                    if ks is None:
                        ks = {c for c in ELEMENT_CLASSES if attr in RT.get(c, ())}
                    for k in ks:
                        if attr in RT.get(k, ()):
                            written_rt.setdefault((k, attr), loc(f.node, node))
                    if attr in wn_rt:
                        written_rt.setdefault(("WaterNetworkModel", attr), loc(f.node, node))
        chk.extra["call_graph"][simname]["write_sites_checked"] = nsites
    if total_calls and total_unres / float(total_calls) > 0.12:
        chk.error("unresolved fraction of calls %.1f %% exceeds the stated bound of 12 %%" % (100.0 * total_unres / total_calls))
    chk.floor("R-C11-1", 40)

    # ---------------------------------------------------------------- R-C11-1b setattr targets
    ini, amap = action_attr_map(repo)
    chk.fn(ini)
    pubv, intv, dyn = action_vocabulary(repo, uni)
    rca = repo.func(CTRL, "ControlAction.run_control_action")
    sa = [c for c in calls(rca) if isinstance(c.func, ast.Name) and c.func.id == "setattr"]
    chk.expect(len(sa) == 1 and unparse(sa[0].args[1]) == "self._private_attribute", "R-C11-1b",
               "ControlAction.run_control_action writes setattr(target, self._private_attribute, value)", loc(rca), found=[norm(c) for c in sa])
    rci = repo.func(CTRL, "_InternalControlAction.run_control_action")
    sa = [c for c in calls(rci) if isinstance(c.func, ast.Name) and c.func.id == "setattr"]
    chk.expect(len(sa) == 1 and unparse(sa[0].args[1]) == "self._internal_attr", "R-C11-1b",
               "_InternalControlAction.run_control_action writes setattr(target, self._internal_attr, value)", loc(rci), found=[norm(c) for c in sa])
    chk.sample({"ControlAction_attribute_map": amap, "attribute_strings_passed": sorted(pubv), "internal_attribute_strings": sorted(intv),
                "dynamic_sites": [f.qual.split("::")[1] for f, c in dyn]})
    for v, sites in sorted(pubv.items()):
        priv = amap.get(v, v)
        f, c = sites[0]
        ok = priv in all_rt
        chk.expect(ok, "R-C11-1b", "ControlAction attribute %r is mapped to a run-time field" % v, loc(f.node, c),
                   "ControlAction(obj, %r, v) writes setattr(obj, %r, v); %r is %s, so a control with this action changes the model definition "
                   "(to_dict differs after the run and reset_initial_values does not restore it)" % (v, priv, priv, D.get(priv, "not a run-time field")),
                   expected="one of the run-time fields (_user_status, _setting, _leak_status)", found=priv)
        if ok:
            for k in ELEMENT_CLASSES:
                if priv in RT.get(k, ()):
                    written_rt.setdefault((k, priv), loc(f.node, c))
    for v, sites in sorted(intv.items()):
        f, c = sites[0]
        chk.expect(v in all_rt, "R-C11-1b", "_InternalControlAction field %r is a run-time field" % v, loc(f.node, c), found=D.get(v))
        if v in all_rt:
            for k in ELEMENT_CLASSES:
                if v in RT.get(k, ()):
                    written_rt.setdefault((k, v), loc(f.node, c))
    for f, c in dyn:
        chk.assume("attribute passed at %s (%s) comes from INP rule text: assumed in {status, setting}" % (loc(f.node, c), norm(c)))
    chk.floor("R-C11-1b", 6)

    # ---------------------------------------------------------------- R-C11-2 options restored by _Skeletonize
    if repo.exists(SKEL):
        si = repo.func(SKEL, "_Skeletonize.__init__")
        chk.fn(si)
        stores = [(r, a, n) for r, a, e, via, n in writes(si) if "options" in unparse(r)]
        seq = [n for n in walk(si) if isinstance(n, ast.stmt)]
        for recv, attr, node in stores:
            tgt = "%s.%s" % (unparse(recv), attr)
            if isinstance(node, ast.Assign) and isinstance(node.value, ast.Name):
                # restoring store: the name must have been saved from the same attribute earlier
                saved = [s for s in seq if isinstance(s, ast.Assign) and isinstance(s.targets[0], ast.Name) and s.targets[0].id == node.value.id
                         and unparse(s.value) == tgt and s.lineno < node.lineno]
                chk.expect(bool(saved), "R-C11-2", "_Skeletonize.__init__ restores %s from the value saved before" % tgt, loc(si, node), found=norm(node))
            else:
                later = [s for r2, a2, e2, v2, s in writes(si) if "%s.%s" % (unparse(r2), a2) == tgt and s.lineno > node.lineno
                         and isinstance(s, ast.Assign) and isinstance(s.value, ast.Name)]
                top = [s for s in si.body]
                on_all_paths = any(s in top for s in later) and node in top
                chk.expect(bool(later) and on_all_paths, "R-C11-2", "_Skeletonize.__init__: the temporary store %s is followed by a restore on the straight-line path" % norm(node),
                           loc(si, node), "options changed for the internal simulation must be restored", found=[norm(s) for s in later])
        chk.floor("R-C11-2", 2)

    # ---------------------------------------------------------------- R-C11-3 reset coverage
    rs, reset = reset_table(repo)
    chk.fn(rs)
    chk.sample({"reset_table": {k: v for k, v in reset.items() if k in ("Junction", "Tank", "Pipe", "WaterNetworkModel")}})
    chk.extra["runtime_fields_written"] = sorted("%s.%s" % k for k in written_rt)
    EXEMPT = {}
    # (class, field): reason  -- fields a run can write that need no reset; each reason is re-checked structurally
    if not any(isinstance(n, ast.FunctionDef) and n.name == "add_leak" for n in ct.classes["Reservoir"].body):
        EXEMPT[("Reservoir", "_leak_status")] = ("Reservoir has no add_leak and no leak model (leak builders range over junctions and tanks); only a hand-made "
                                                 "ControlAction(reservoir, 'leak_status', ..) could set it and nothing reads it")
    for (k, fld), where in sorted(written_rt.items()):
        if (k, fld) in EXEMPT:
            chk.ok("R-C11-3", "%s.%s needs no reset: %s" % (k, fld, EXEMPT[(k, fld)]), where)
            continue
        chk.expect(fld in reset.get(k, {}), "R-C11-3", "reset_initial_values restores %s.%s (written by a run at %s)" % (k, fld, where.split(":")[0]), loc(rs),
                   "a run writes %s.%s (%s) but reset_initial_values does not assign it in the loop over %s: a second run starts from the first run's state" % (k, fld, where, k),
                   expected="%s.%s = <initial value>" % (k, fld), found=sorted(reset.get(k, {})))
    # values
    EXPECT = {"_user_status": ("initial_status",), "_setting": ("initial_setting",), "_internal_status": ("LinkStatus.Active",),
              "_is_isolated": ("False",), "_leak_status": ("False",), "_flow": ("None",), "_prev_setting": ("None",),
              "_demand": ("None",), "_leak_demand": ("None",), "_pressure": ("None",)}
    for k, tab in sorted(reset.items()):
        for fld, val in sorted(tab.items()):
            if fld in EXPECT:
                chk.expect(any(val.endswith(e) for e in EXPECT[fld]), "R-C11-3", "reset value of %s.%s is %s" % (k, fld, " / ".join(EXPECT[fld])), loc(rs),
                           found=val, expected=EXPECT[fld])
    th = reset.get("Tank", {}).get("_head", "")
    chk.expect(sorted(x.strip() for x in th.split("+")) == ["node.elevation", "node.init_level"], "R-C11-3", "reset value of Tank._head is init_level + elevation", loc(rs), found=th)
    chk.expect(reset.get("Tank", {}).get("_prev_head") in ("node.head", "node._head"), "R-C11-3", "reset value of Tank._prev_head is the reset head", loc(rs),
               found=reset.get("Tank", {}).get("_prev_head"))
    wm = reset.get("WaterNetworkModel", {})
    chk.expect(wm.get("sim_time") in ("0.0", "0") and wm.get("_prev_sim_time") == "None", "R-C11-3", "reset sets sim_time = 0 and _prev_sim_time = None", loc(rs), found=wm)
    # controls
    resets_controls = any(isinstance(n, ast.For) and "controls()" in unparse(n.iter) and any(last_attr(c) == "_reset" for c in calls(n)) for n in rs.body)
    chk.expect(resets_controls, "R-C11-3", "reset_initial_values calls _reset() on every control", loc(rs))
    for cname, c in sorted(repo.classes(CTRL).items()):
        meths = {n.name: n for n in c.body if isinstance(n, ast.FunctionDef)}
        if "evaluate" in meths:
            state = {a.attr for a in walk(meths["evaluate"]) if isinstance(a, ast.Attribute) and isinstance(a.ctx, ast.Store)
                     and isinstance(a.value, ast.Name) and a.value.id == "self" and a.attr not in ("_backtrack",)}
            for fld in sorted(state):
                r_ = meths.get("_reset")
                ok = r_ is not None and any(isinstance(a, ast.Attribute) and isinstance(a.ctx, ast.Store) and a.attr == fld for a in walk(r_))
                chk.expect(ok, "R-C11-3", "%s._reset restores %s (written by evaluate)" % (cname, fld), loc(CTRL, meths["evaluate"]))
        if cname in ("AndCondition", "OrCondition"):
            r_ = meths.get("_reset")
            subs = {unparse(cc.func.value) for cc in calls(r_) if last_attr(cc) == "_reset"} if r_ is not None else set()
            chk.expect(subs == {"self._condition_1", "self._condition_2"}, "R-C11-3", "%s._reset recurses into both sub-conditions" % cname, loc(CTRL, c), found=sorted(subs))
        if cname in ("ControlBase", "Control", "Rule") and "_reset" in meths:
            chk.expect(any(unparse(cc.func.value) == "self._condition" for cc in calls(meths["_reset"]) if last_attr(cc) == "_reset"), "R-C11-3",
                       "%s._reset resets its condition" % cname, loc(CTRL, meths["_reset"]))
    chk.floor("R-C11-3", 30)


WITNESSES = [
    dict(name="results-stored-into-definition-field", file=HYD, old="            node._pressure = m.head[name].value - node.elevation\n",
         new="            node._pressure = m.head[name].value - node.elevation\n            node._elevation = node.elevation\n", rule="R-C11-1"),
    dict(name="integration-writes-init-level", file=HYD, old="        tank._head = tank._prev_head + delta_h\n",
         new="        tank._head = tank._prev_head + delta_h\n        tank.init_level = tank._head - tank.elevation\n", rule="R-C11-1"),
    dict(name="action-writes-initial-status", file=CTRL, old="self._private_attribute = '_user_status'", new="self._private_attribute = 'initial_status'", rule="R-C11-1b"),
    dict(name="simulator-writes-an-option", file=CORE, old="        self._report_timestep = self._wn.options.time.report_timestep\n",
         new="        self._report_timestep = self._wn.options.time.report_timestep\n        self._wn.options.time.report_timestep = self._hydraulic_timestep\n", rule="R-C11-2"),
    dict(name="skeletonize-does-not-restore-duration", file=SKEL, old="        self.wn.options.time.duration = duration\n", new="", rule="R-C11-2"),
    dict(name="reset-line-deleted", file=MODEL,
         old="            link._internal_status = LinkStatus.Active\n            link._is_isolated = False\n            link._flow = None\n            link._prev_setting = None\n\n        for name, link in self.links(Pump):",
         new="            link._is_isolated = False\n            link._flow = None\n            link._prev_setting = None\n\n        for name, link in self.links(Pump):", rule="R-C11-3"),
    dict(name="reset-tank-head-from-min-level", file=MODEL, old="node._head = node.init_level + node.elevation", new="node._head = node.min_level + node.elevation", rule="R-C11-3"),
    dict(name="tank-level-condition-not-reset", file=CTRL, old="    def _reset(self):\n        self._last_value = getattr(self._source_obj, self._source_attr)",
         new="    def _reset(self):\n        pass  #", rule="R-C11-3"),
    dict(name="epanet-writer-renames-element", file=EIO, old="                if all_control.name == '':\n                    all_control._name = text\n",
         new="                all_control._name = text\n", rule="R-C11-1"),
    dict(name="simulator-internal-store-preserving", file=CORE, old="        self._report_timestep = self._wn.options.time.report_timestep\n",
         new="        self._report_timestep = self._wn.options.time.report_timestep\n        self._n_runs = 1\n", silent=True),
]
